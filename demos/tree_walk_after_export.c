#include <stdio.h>
#include <stdlib.h>
#include <string.h>
#include "libMultiMarkdown.h"
#include "token.h"
static int bad;
static void walk(token *t, size_t lo, size_t hi, int d) {
	token *p = 0;
	while (t) {
		if (t->prev != p && p) { printf("prev link broken at depth %d: token type %d [%zu,%zu)\n", d, t->type, t->start, t->start + t->len); bad++; }
		if (p && p->start + p->len > t->start) { printf("overlap: [%zu,%zu) then [%zu,%zu) type %d\n", p->start, p->start + p->len, t->start, t->start + t->len, t->type); bad++; }
		if (t->child) walk(t->child, t->start, t->start + t->len, d + 1);
		p = t; t = t->next;
	}
}
int main(int argc, char **argv) {
	const char *src = argv[1]; token_pool_init();
	mmd_engine *e = mmd_engine_create_with_string(src, EXT_SMART | EXT_NOTES);
	mmd_engine_parse_string(e);
	walk(mmd_engine_root(e), 0, strlen(src), 0);
	printf("after parse: %d problems\n", bad);
	char *out = mmd_engine_convert(e, FORMAT_HTML); free(out);
	bad = 0; walk(mmd_engine_root(e), 0, strlen(src), 0);
	printf("after export: %d problems\n", bad);
	mmd_engine_free(e, true);
	return bad != 0;
}
