/* -include'd in front of a /repo unit whose metadata lookups are to be answered by the harness: uthash.h is read first (its include guard
   makes the unit's own #include a no-op), then HASH_FIND_STR is replaced by a call of the harness's lookup function. */
#include "uthash.h"
#undef HASH_FIND_STR
void *verif_hash_find_str(const char *key);
#define HASH_FIND_STR(head, findstr, out) ((out) = verif_hash_find_str(findstr))
