/* byte-loop models of the libc block/string functions (standard semantics; every byte access is bounds-checked by CBMC).
   Used because CBMC's array-theory models of memmove/memcpy/strncpy with a symbolic length do not get through the SAT back end. */
#ifndef VH_LIBC_H
#define VH_LIBC_H
#include <stddef.h>
#include <string.h>
static void *vh_memmove(void *d, const void *s, size_t n) {
	char *dd = (char *) d; const char *ss = (const char *) s;
	if (dd == ss || n == 0) return d;
	if (dd < ss) { for (size_t i = 0; i < n; i++) dd[i] = ss[i]; }
	else { for (size_t i = n; i > 0; i--) dd[i - 1] = ss[i - 1]; }
	return d;
}
static void *vh_memcpy(void *d, const void *s, size_t n) {
	char *dd = (char *) d; const char *ss = (const char *) s;
	for (size_t i = 0; i < n; i++) dd[i] = ss[i];
	return d;
}
static char *vh_strncpy(char *d, const char *s, size_t n) {
	size_t i = 0;
	for (; i < n && s[i]; i++) d[i] = s[i];
	for (; i < n; i++) d[i] = 0;
	return d;
}
static char *vh_strncat(char *d, const char *s, size_t n) {
	size_t k = 0; while (d[k]) k++;
	size_t i = 0;
	for (; i < n && s[i]; i++) d[k + i] = s[i];
	d[k + i] = 0;
	return d;
}
static size_t vh_strlen(const char *s) { size_t n = 0; while (s[n]) n++; return n; }
static char *vh_strstr(const char *h, const char *n) {
	if (!n[0]) return (char *) h;
	for (size_t i = 0; h[i]; i++) {
		size_t j = 0;
		while (n[j] && h[i + j] == n[j]) j++;
		if (!n[j]) return (char *) h + i;
	}
	return 0;
}
static int vh_strcmp(const char *a, const char *b) { size_t i = 0; while (a[i] && a[i] == b[i]) i++; return (unsigned char) a[i] - (unsigned char) b[i]; }
static int vh_strncmp(const char *a, const char *b, size_t n) { for (size_t i = 0; i < n; i++) { if (a[i] != b[i] || !a[i]) return (unsigned char) a[i] - (unsigned char) b[i]; } return 0; }
static int vh_atoi(const char *s) {
	size_t i = 0; int neg = 0; long v = 0;
	while (s[i] == ' ' || (s[i] >= 9 && s[i] <= 13)) i++;
	if (s[i] == '-') { neg = 1; i++; } else if (s[i] == '+') i++;
	while (s[i] >= '0' && s[i] <= '9' && v < 100000000L) { v = v * 10 + (s[i] - '0'); i++; }
	return (int) (neg ? -v : v);
}
#ifndef REPLAY
#define atoi vh_atoi
#define memmove vh_memmove
#define memcpy vh_memcpy
#define strncpy vh_strncpy
#define strncat vh_strncat
#define strlen vh_strlen
#define strstr vh_strstr
#define strcmp vh_strcmp
#define strncmp vh_strncmp
#endif
#endif
