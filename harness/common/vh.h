/* common harness vocabulary: the same harness text is (a) model-checked by CBMC and (b) compiled natively with
   -DREPLAY to re-execute a solver counterexample on the real code under ASan/UBSan.
   A harness declares   struct in { ... } IN;   then  #include "vh_in.h"  and calls IN_LOAD() first. */
#ifndef VH_H
#define VH_H
#include <stddef.h>
#include <stdint.h>
#include <stdbool.h>
#ifdef REPLAY
#include <stdio.h>
#include <stdlib.h>
#define ASSUME(c) do { if (!(c)) { printf("REPLAY: assumption not met: %s\n", #c); fflush(stdout); exit(3); } } while (0)
#define CHECK(c, msg) do { if (!(c)) { printf("REPLAY: CHECK failed: %s\n", msg); fflush(stdout); exit(1); } } while (0)
#define COVER(c) ((void)0)
#define COVER_OPT(c) ((void)0)
#define __CPROVER_assume(c) ASSUME(c)
#define __CPROVER_assert(c, m) CHECK(c, m)
#else
#define ASSUME(c) __CPROVER_assume(c)
#ifdef VH_COVER
/* vacuity guard build: every obligation becomes an assumption, every COVER goal an assertion that must be VIOLATED
   (i.e. the solver exhibits an execution that satisfies all assumptions, all obligations, and reaches the goal) */
#define CHECK(c, msg) __CPROVER_assume(c)
#define COVER(c) __CPROVER_assert(!(c), "COVER " #c)
#define COVER_OPT(c) __CPROVER_assert(!(c), "COVEROPT " #c)   /* informational goal: counted when reached, not required */
#else
#define CHECK(c, msg) __CPROVER_assert(c, msg)
#define COVER(c) ((void)0)
#define COVER_OPT(c) ((void)0)
#endif
#endif
#endif
