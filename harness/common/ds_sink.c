/* ds_sink: a DString whose appended characters are streamed to the harness (vh_sink) instead of being stored -- for harnesses that judge
   the SHAPE of what a writer emits (nesting of environments / elements) with a streaming recogniser.  Only appending is supported:
   insert/erase on the output string are obligations that fail (the writers' block cases never do that). */
#include <stdlib.h>
#include <stdarg.h>
#include <stdbool.h>
#include "d_string.h"
void vh_sink(char c);
void vh_sink_unsupported(void);
#ifdef DS_SINK_PTR
void vh_sink_ptr(const char *s);      /* told about every string handed over by pointer (taint oracles) */
#define PTR(s) vh_sink_ptr(s)
#else
#define PTR(s) ((void) 0)
#endif
/* DS_SINK_TARGET: only what is appended to *vh_sink_target is streamed (temporary strings of the code under test are ignored) */
#ifdef DS_SINK_TARGET
extern DString *vh_sink_target;
#define ON(d) ((d) == vh_sink_target)
#else
#define ON(d) 1
#endif
DString *d_string_new(const char *s) { DString *d = malloc(sizeof(DString)); if (d) { d->str = malloc(4); if (d->str) d->str[0] = 0; d->currentStringLength = 0; d->currentStringBufferSize = 4; } if (s && ON(d)) for (size_t i = 0; s[i]; i++) vh_sink(s[i]); return d; }
char *d_string_free(DString *d, bool f) { if (!d) return 0; char *r = d->str; if (f) { free(d->str); r = 0; } free(d); return r; }
void d_string_append_c(DString *d, char c) { if (d && c && ON(d)) vh_sink(c); }
void d_string_append(DString *d, const char *s) { if (!ON(d)) return; if (d && s) PTR(s); if (d && s) for (size_t i = 0; s[i]; i++) vh_sink(s[i]); }
void d_string_append_c_array(DString *d, const char *s, size_t n) { if (!ON(d)) return; if (d && s) { PTR(s); if (n == (size_t) -1) d_string_append(d, s); else for (size_t i = 0; i < n; i++) vh_sink(s[i]); } }
void d_string_insert(DString *d, size_t pos, const char *s) { vh_sink_unsupported(); }
void d_string_prepend(DString *d, const char *s) { vh_sink_unsupported(); }
void d_string_insert_c(DString *d, size_t pos, char c) { vh_sink_unsupported(); }
void d_string_erase(DString *d, size_t pos, size_t len) { vh_sink_unsupported(); }
void d_string_insert_printf(DString *d, size_t pos, const char *format, ...) { vh_sink_unsupported(); }
void d_string_append_printf(DString *d, const char *f, ...) {
	if (!d || !f || !ON(d)) return;
	va_list ap; va_start(ap, f);
	for (size_t i = 0; f[i]; i++) {
		if (f[i] != '%') { vh_sink(f[i]); continue; }
		i++;
		if (f[i] == '%') { vh_sink('%'); continue; }
		while (f[i] && ((f[i] >= '0' && f[i] <= '9') || f[i] == '.' || f[i] == '-' || f[i] == 'l' || f[i] == 'z')) i++;
		if (f[i] == 's') { const char *s = va_arg(ap, const char *); if (s) PTR(s); if (s) for (size_t j = 0; s[j]; j++) vh_sink(s[j]); }
		else if (f[i] == 'd' || f[i] == 'i' || f[i] == 'u') { (void) va_arg(ap, int); vh_sink('1'); }
		else if (f[i] == 'f') { (void) va_arg(ap, double); vh_sink('0'); }
		else if (f[i] == 'c') { char c = (char) va_arg(ap, int); if (c) vh_sink(c); }
		else if (!f[i]) break;
	}
	va_end(ap);
}
