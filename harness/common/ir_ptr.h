/* memory model for Engine-B code when it is LINKED into an Engine-A harness: IR pointers are the integer images of real C pointers
   (CBMC keeps object and offset in the bit-vector), loads go through the real pointer, so CBMC's own pointer/bounds checks apply. */
#include <stdint.h>
#include <stddef.h>
#define IR_LD8(a) (*(const uint8_t *) (a))
#define IR_LD64(a) (*(const uint64_t *) (a))
#define IR_ST64(a, v) (*(uint64_t *) (a) = (v))
#define IR_ST8(a, v) (*(uint8_t *) (a) = (v))
#define IR_GADDR(g) ((uint64_t) 0)
