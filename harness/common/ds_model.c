/* ds_model: the ideal bounded string standing in for d_string.c in harnesses whose subject is NOT DString.
   Justified by C19 (d_string.c refines exactly this behaviour operation by operation).  Constant-size buffers (DS_CAP); exceeding the
   cap is a failed obligation of the harness bound, never silent. */
#include <stdlib.h>
#include <string.h>
#include <stdarg.h>
#include <stdbool.h>
#include "d_string.h"
#ifndef DS_CAP
#define DS_CAP 48
#endif
#ifdef REPLAY
#include <stdio.h>
#define DS_ASSERT(c, m) do { if (!(c)) { printf("REPLAY: model cap exceeded: %s\n", m); exit(3); } } while (0)
#define DS_ASSUME(c) do { if (!(c)) exit(3); } while (0)
#else
#define DS_ASSERT(c, m) __CPROVER_assert(c, m)
#define DS_ASSUME(c) __CPROVER_assume(c)
#endif
DString *d_string_new(const char *s) {
	DString *d = malloc(sizeof(DString)); DS_ASSUME(d != 0);
	d->str = malloc(DS_CAP); DS_ASSUME(d->str != 0);
	d->currentStringBufferSize = DS_CAP;
	size_t n = 0;
	if (s) { while (s[n]) { DS_ASSERT(n + 1 < DS_CAP, "ds_model capacity (harness bound)"); d->str[n] = s[n]; n++; } }
	d->str[n] = 0; d->currentStringLength = n;
	return d;
}
char *d_string_free(DString *d, bool f) { if (!d) return 0; char *r = d->str; if (f) { free(d->str); r = 0; } free(d); return r; }
void d_string_append_c(DString *d, char c) {
	if (d && c) { DS_ASSERT(d->currentStringLength + 1 < DS_CAP, "ds_model capacity (harness bound)"); d->str[d->currentStringLength++] = c; d->str[d->currentStringLength] = 0; }
}
void d_string_append(DString *d, const char *s) { if (d && s) { for (size_t i = 0; s[i]; i++) d_string_append_c(d, s[i]); } }
void d_string_append_c_array(DString *d, const char *s, size_t n) {
	if (d && s) {
		if (n == (size_t) -1) d_string_append(d, s);
		else { for (size_t i = 0; i < n; i++) { DS_ASSERT(d->currentStringLength + 1 < DS_CAP, "ds_model capacity (harness bound)"); d->str[d->currentStringLength++] = s[i]; } d->str[d->currentStringLength] = 0; }
	}
}
void d_string_insert(DString *d, size_t pos, const char *s) {
	if (d && s) {
		size_t n = 0; while (s[n]) n++;
		if (n == 0) return;
		if (pos > d->currentStringLength) pos = d->currentStringLength;
		DS_ASSERT(d->currentStringLength + n < DS_CAP, "ds_model capacity (harness bound)");
		for (size_t i = d->currentStringLength; i > pos; i--) d->str[i - 1 + n] = d->str[i - 1];
		for (size_t i = 0; i < n; i++) d->str[pos + i] = s[i];
		d->currentStringLength += n; d->str[d->currentStringLength] = 0;
	}
}
void d_string_prepend(DString *d, const char *s) { d_string_insert(d, 0, s); }
void d_string_insert_c(DString *d, size_t pos, char c) { char b[2]; b[0] = c; b[1] = 0; d_string_insert(d, pos, b); }
void d_string_erase(DString *d, size_t pos, size_t len) {
	if (d) {
		size_t L = d->currentStringLength;
		if (pos > L || len == 0) return;
		size_t e = (len > L - pos) ? L : pos + len, j = pos;
		for (size_t i = e; i < L; i++) d->str[j++] = d->str[i];
		d->currentStringLength = j; d->str[j] = 0;
	}
}
char *d_string_copy_substring(DString *d, size_t start, size_t len) {
	if (!d) return 0;
	size_t L = d->currentStringLength;
	if (len == (size_t) -1) len = start <= L ? L - start : 0;
	if (start > L || len > L - start) return 0;
	char *r = malloc(DS_CAP); DS_ASSUME(r != 0);
	for (size_t i = 0; i < len; i++) r[i] = d->str[start + i];
	r[len] = 0;
	return r;
}
#ifndef DS_NO_PRINTF
/* formatted append: a small real formatter for the conversions the writers use (%s %d %%; anything else is copied literally).
   Harnesses that need to observe the arguments define DS_NO_PRINTF and supply a recorder instead. */
static void ds_vfmt(DString *d, size_t pos, int insert, const char *f, va_list ap) {
	char tmp[DS_CAP]; size_t n = 0;
	for (size_t i = 0; f[i]; i++) {
		if (f[i] == '%' && f[i + 1] == 's') { const char *s = va_arg(ap, const char *); if (s) for (size_t j = 0; s[j]; j++) { DS_ASSERT(n + 1 < DS_CAP, "ds_model capacity (harness bound)"); tmp[n++] = s[j]; } i++; }
		else if (f[i] == '%' && f[i + 1] == 'd') { int v = va_arg(ap, int); char b[12]; int k = 0; unsigned u = v < 0 ? (unsigned) (-(v + 1)) + 1u : (unsigned) v; if (v < 0) { DS_ASSERT(n + 1 < DS_CAP, "ds_model capacity (harness bound)"); tmp[n++] = '-'; } do { b[k++] = (char) ('0' + u % 10); u /= 10; } while (u && k < 11); while (k > 0) { DS_ASSERT(n + 1 < DS_CAP, "ds_model capacity (harness bound)"); tmp[n++] = b[--k]; } i++; }
		else if (f[i] == '%' && f[i + 1] == '%') { DS_ASSERT(n + 1 < DS_CAP, "ds_model capacity (harness bound)"); tmp[n++] = '%'; i++; }
		else { DS_ASSERT(n + 1 < DS_CAP, "ds_model capacity (harness bound)"); tmp[n++] = f[i]; }
	}
	tmp[n] = 0;
	if (insert) d_string_insert(d, pos, tmp); else d_string_append(d, tmp);
}
void d_string_append_printf(DString *d, const char *format, ...) { if (d && format) { va_list ap; va_start(ap, format); ds_vfmt(d, 0, 0, format, ap); va_end(ap); } }
void d_string_insert_printf(DString *d, size_t pos, const char *format, ...) { if (d && format) { va_list ap; va_start(ap, format); ds_vfmt(d, pos, 1, format, ap); va_end(ap); } }
#endif
