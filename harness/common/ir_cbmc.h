/* memory model for Engine-B (IR -> flat C) code under CBMC: one byte arena; the harness declares which addresses are valid.
   A load outside [ir_lo, ir_hi) (the NUL-terminated input, NUL included) or the read/write struct window is a failed obligation. */
#include <stdint.h>
#include <stddef.h>
#ifndef ARENA
#define ARENA 96
#endif
uint8_t MEM[ARENA];
uint64_t ir_lo, ir_hi;      /* input window (read only) */
uint64_t ir_slo, ir_shi;    /* struct window (read/write) */
#define IR_OK(a,n) ((((a) >= ir_lo) && ((a)+(n) <= ir_hi) && ((a)+(n) >= (a))) || (((a) >= ir_slo) && ((a)+(n) <= ir_shi)))
static inline uint8_t ir_ld8(uint64_t a){ __CPROVER_assert(IR_OK(a,1), "scanner reads only inside the NUL-terminated input"); return MEM[a]; }
static inline uint64_t ir_ld64(uint64_t a){ __CPROVER_assert(IR_OK(a,8), "IR load64 inside valid window"); uint64_t v=0; for(int i=7;i>=0;i--) v=(v<<8)|MEM[a+i]; return v; }
static inline void ir_st64(uint64_t a, uint64_t v){ __CPROVER_assert((a) >= ir_slo && (a)+8 <= ir_shi, "IR store64 inside struct window"); for(int i=0;i<8;i++){ MEM[a+i]=(uint8_t)(v>>(8*i)); } }
static inline void ir_st8(uint64_t a, uint8_t v){ __CPROVER_assert(0, "scanner never writes through its input"); }
#define IR_LD8(a) ir_ld8(a)
#define IR_LD64(a) ir_ld64(a)
#define IR_ST64(a,v) ir_st64(a,v)
#define IR_ST8(a,v) ir_st8(a,v)
#define IR_GADDR(g) ((uint64_t)0)
