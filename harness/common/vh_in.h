/* after `struct in {...} IN;` */
#ifdef REPLAY
static void IN_LOAD(void) {
#include "replay_in.inc"
}
#else
struct in nondet_in(void);
#define IN_LOAD() (IN = nondet_in())
#endif
