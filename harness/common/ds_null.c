/* ds_null: a DString that discards its content -- for harnesses that observe the writers through recorders, not through the text */
#include <stdlib.h>
#include <stdbool.h>
#include "d_string.h"
DString *d_string_new(const char *s) { DString *d = malloc(sizeof(DString)); if (d) { d->str = malloc(4); if (d->str) d->str[0] = 0; d->currentStringLength = 0; d->currentStringBufferSize = 4; } return d; }
char *d_string_free(DString *d, bool f) { if (!d) return 0; char *r = d->str; if (f) { free(d->str); r = 0; } free(d); return r; }
void d_string_append_c(DString *d, char c) {}
void d_string_append(DString *d, const char *s) {}
#ifndef DS_NO_C_ARRAY
void d_string_append_c_array(DString *d, const char *s, size_t n) {}
#endif
void d_string_insert(DString *d, size_t pos, const char *s) {}
void d_string_prepend(DString *d, const char *s) {}
void d_string_insert_c(DString *d, size_t pos, char c) {}
void d_string_erase(DString *d, size_t pos, size_t len) {}
#ifndef DS_NO_PRINTF
void d_string_append_printf(DString *d, const char *format, ...) {}
void d_string_insert_printf(DString *d, size_t pos, const char *format, ...) {}
#endif
