/* C19: capacity growth arithmetic of ensureStringBufferCanHold for real-size capacities (1024*2^j, and past the 100 MiB switch).
   realloc is replaced by a recorder: the subject is the size computation, not the copy. */
#include "vh.h"
#include <stdlib.h>
static size_t asked; static void *given;
void *verif_realloc(void *p, size_t n) { asked = n; return p; }
#define realloc verif_realloc
#include "d_string.c"
#undef realloc
struct in { size_t cap, len, want; } IN;
#include "vh_in.h"
int main(void) {
	IN_LOAD();
	/* valid state: capacity > length; capacities and requests below 2^32 (larger documents are outside the claim) */
	ASSUME(IN.cap >= 1 && IN.cap <= ((size_t)1 << 32) && IN.len < IN.cap && IN.want >= IN.len && IN.want < ((size_t)1 << 32));
	DString d; char dummy[1]; d.str = dummy; d.currentStringLength = IN.len; d.currentStringBufferSize = IN.cap;
	ensureStringBufferCanHold(&d, IN.want);
	CHECK(d.currentStringBufferSize > IN.want, "capacity after growth holds the request plus the terminator");
	CHECK(d.currentStringBufferSize >= IN.cap, "capacity never shrinks");
	if (IN.want + 1 <= IN.cap) CHECK(asked == 0 && d.currentStringBufferSize == IN.cap, "no reallocation when it already fits");
	else CHECK(asked == d.currentStringBufferSize, "reallocates to exactly the recorded capacity");
	COVER(asked != 0 && IN.cap == 1024); COVER(asked > 2 * IN.cap); COVER(IN.cap > 1024 * 1024 * 100 && asked != 0);
	COVER(1);
	return 0;
}
