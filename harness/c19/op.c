/* C19: one DString operation from an ARBITRARY valid pre-state, compared with an ideal string model.
   Inductive step: a DString's behaviour depends only on (content, length, capacity), so one operation from any valid state
   covers operation sequences of any length.  Real code: /repo/src/d_string.c (#included: static growth function reachable). */
#include "vh.h"
#include <stdarg.h>
#include <string.h>
#include <stdlib.h>
#include <stdio.h>
/* formatted text: the repo's own vasprintf stays real; only libc's vsnprintf is a stub returning an arbitrary short string */
int verif_vsnprintf(char *buf, size_t n, const char *fmt, va_list ap);
#define vsnprintf verif_vsnprintf
#include "vh_libc.h"
/* Allocation model.  A heap object of SYMBOLIC size sends CBMC into array theory (no verdict), and a case split over
   constant sizes costs minutes per operation.  So every buffer d_string.c obtains is one constant-size object of BIG bytes
   whose *requested* size is recorded; bytes at and beyond the requested size are arbitrary (solver-chosen) canaries that
   must be unchanged when the operation returns.  A write past the recorded capacity therefore still fails, for every
   canary value; a write past BIG, a use after free and a double free are caught by CBMC's own pointer checks. */
#ifndef BIG
#define BIG 16
#endif
#define NSLOT 5
struct in;
static char *slot[NSLOT]; static size_t slot_req[NSLOT]; static unsigned char slot_live[NSLOT]; static int nslot;
static void *verif_malloc(size_t n);
static void *verif_realloc(void *p, size_t n);
static void verif_free(void *p);
#ifndef REPLAY
#define realloc verif_realloc
#define malloc verif_malloc
#define free verif_free
#endif
#include "d_string.c"
#undef vsnprintf
#undef realloc
#undef malloc
#undef free
#ifndef M
#define M 5          /* bound on the content length of the pre-state */
#endif
#ifndef A
#define A 3          /* bound on argument strings */
#endif
#ifndef CAPMAX
#define CAPMAX 8     /* pre-state capacity range [len+1, CAPMAX]: growth is crossed at small sizes */
#endif
#define MAXL (M + 6 * A + 2)

struct in {
	size_t len, cap;            /* pre-state */
	char content[M];
	size_t al, bl;              /* argument strings */
	char a[A], b[A];
	unsigned char a_null, d_null;
	char c;
	size_t pos, n;              /* position / length arguments: FULL 64-bit range */
	size_t fl; char f[A];       /* what vsnprintf formats to */
	char k[NSLOT][BIG];         /* canaries */
} IN;
#include "vh_in.h"

int verif_vsnprintf(char *buf, size_t n, const char *fmt, va_list ap) {
	size_t i;
	if (n > 0) {
		for (i = 0; i + 1 < n && i < IN.fl; i++) buf[i] = IN.f[i];
		buf[i] = 0;
	}
	return (int)IN.fl;
}

#ifndef REPLAY
static void *slot_alloc(size_t n);
static void *verif_malloc(size_t n) {
	if (n == sizeof(DString)) return malloc(sizeof(DString));
	if (n == kStringBufferStartingSize) { char *q = malloc(kStringBufferStartingSize); return q; }
	return slot_alloc(n);
}
static void *slot_alloc(size_t n) {
	CHECK(n >= 1 && n <= BIG, "allocation request inside the harness range");
	CHECK(nslot < NSLOT, "number of allocations inside the harness range");
	char *q = malloc(BIG); ASSUME(q != 0);
	for (size_t i = 0; i < BIG; i++) q[i] = IN.k[nslot][i];
	slot[nslot] = q; slot_req[nslot] = n; slot_live[nslot] = 1; nslot++;
	return q;
}
static void verif_free(void *p) {
	for (int i = 0; i < NSLOT; i++) if (i < nslot && slot[i] == p) slot_live[i] = 0;
	free(p);
}
static void *verif_realloc(void *p, size_t n) {
	size_t old = 0;
	for (int i = 0; i < NSLOT; i++) if (i < nslot && slot[i] == p) old = slot_req[i];
	char *q = slot_alloc(n);
	size_t k = old < n ? old : n;
	for (size_t i = 0; i < BIG; i++) if (i < k) q[i] = ((char *) p)[i];
	verif_free(p);
	return q;
}
static void canaries_intact(void) {
	for (int s = 0; s < NSLOT; s++) if (s < nslot && slot_live[s])
		for (size_t i = 0; i < BIG; i++) if (i >= slot_req[s]) CHECK(slot[s][i] == IN.k[s][i], "no write beyond the size that was requested for a buffer");
}
#define alloc_n(n) ((char *) slot_alloc(n))
#else
static void canaries_intact(void) {}
#define alloc_n(n) ((char *) malloc(n))
#define verif_free free
#endif

static char m[MAXL]; static size_t ml;     /* the ideal string */

static void m_insert(size_t pos, const char *s, size_t n) {
	if (pos > ml) pos = ml;
	for (size_t i = ml; i > pos; i--) m[i - 1 + n] = m[i - 1];
	for (size_t i = 0; i < n; i++) m[pos + i] = s[i];
	ml += n; m[ml] = 0;
}
static void m_erase(size_t pos, size_t n) {
	if (pos > ml || n == 0) return;
	size_t e = (n > ml - pos) ? ml : pos + n;      /* clamp; (size_t)-1 means "to the end" */
	size_t j = pos;
	for (size_t i = e; i < ml; i++) m[j++] = m[i];
	ml = j; m[ml] = 0;
}
static long m_find(size_t from, const char *o, size_t ol) {   /* first occurrence at index >= from, or -1 */
	for (size_t i = from; i + ol <= ml; i++) {
		size_t j = 0; while (j < ol && m[i + j] == o[j]) j++;
		if (j == ol) return (long)i;
	}
	return -1;
}

int main(void) {
	IN_LOAD();
	ASSUME(IN.len <= M && IN.cap <= CAPMAX && IN.len < IN.cap && IN.cap >= 1);
	ASSUME(IN.al <= A && IN.bl <= A && IN.fl <= A);
	for (size_t i = 0; i < M; i++) if (i < IN.len) ASSUME(IN.content[i] != 0);
	for (size_t i = 0; i < A; i++) { if (i < IN.al) ASSUME(IN.a[i] != 0); if (i < IN.bl) ASSUME(IN.b[i] != 0); if (i < IN.fl) ASSUME(IN.f[i] != 0); }
	/* arbitrary valid DString: INV = str has `cap` bytes, cap > len, str[len]==0, no NUL before len */
	DString *d = malloc(sizeof(DString)); ASSUME(d != 0);
	d->str = alloc_n(IN.cap); ASSUME(d->str != 0);
	for (size_t i = 0; i < M; i++) if (i < IN.len) { d->str[i] = IN.content[i]; m[i] = IN.content[i]; }
	d->str[IN.len] = 0; m[IN.len] = 0; ml = IN.len;
	d->currentStringLength = IN.len; d->currentStringBufferSize = IN.cap;
	/* exact-size argument strings: any over-read is an out-of-bounds access */
	char *a = malloc(A + 1), *b = malloc(A + 1); ASSUME(a != 0 && b != 0);
	for (size_t i = 0; i < A; i++) { if (i < IN.al) a[i] = IN.a[i]; if (i < IN.bl) b[i] = IN.b[i]; }
	a[IN.al] = 0; b[IN.bl] = 0;
	if (IN.a_null) { a = 0; }
	size_t al = a ? IN.al : 0;
	size_t pos = IN.pos, n = IN.n;
	DString *dd = IN.d_null ? (DString *)0 : d;     /* a NULL DString must be a no-op */
	int apply = (dd != 0);
	char *sub = 0; int sub_expected = 0; size_t sub_from = 0, sub_len = 0; long delta = 0, mdelta = 0;

#if OP == 0      /* new */
	DString *nd = d_string_new(a);
	CHECK(nd != 0, "new returns a string");
	CHECK(nd->currentStringLength == al, "new: length"); CHECK(nd->currentStringBufferSize > nd->currentStringLength, "new: capacity > length");
	for (size_t i = 0; i < A; i++) if (i < al) CHECK(nd->str[i] == a[i], "new: content");
	CHECK(nd->str[al] == 0, "new: terminated");
	CHECK(nd->currentStringBufferSize == kStringBufferStartingSize, "new: starts at the documented initial capacity");
	nd->str[nd->currentStringBufferSize - 1] = 0;      /* the whole recorded capacity is really there */
	COVER(al == A);
#elif OP == 1    /* append */
	d_string_append(dd, a); if (apply && a) m_insert(ml, a, al);
#elif OP == 2    /* append_c */
	d_string_append_c(dd, IN.c); if (apply && IN.c) m_insert(ml, &IN.c, 1);
#elif OP == 3    /* append_c_array; caller contract: bytes == -1 or bytes <= strlen */
	ASSUME(n == (size_t) -1 || n <= al);
	d_string_append_c_array(dd, a, n); if (apply && a) m_insert(ml, a, n == (size_t) -1 ? al : n);
	COVER(n == (size_t) -1); COVER(n == 0);
#elif OP == 4    /* prepend */
	d_string_prepend(dd, a); if (apply && a) m_insert(0, a, al);
#elif OP == 5    /* insert */
	d_string_insert(dd, pos, a); if (apply && a) m_insert(pos, a, al);
	COVER(pos > IN.len); COVER(pos == (size_t) -1); COVER(pos == IN.len); COVER(pos == 0 && IN.len > 0 && al > 0);
#elif OP == 6    /* insert_c */
	d_string_insert_c(dd, pos, IN.c); if (apply && IN.c) m_insert(pos, &IN.c, 1);
	COVER(pos > IN.len);
#elif OP == 7    /* insert_c_array */
	ASSUME(n == (size_t) -1 || n <= al);
	d_string_insert_c_array(dd, pos, a, n); if (apply && a) m_insert(pos, a, n == (size_t) -1 ? al : n);
	COVER(n == (size_t) -1); COVER(pos > IN.len);
#elif OP == 8    /* erase */
#ifdef KF_erase_wrap
	ASSUME(n <= IN.len || n == (size_t) -1);
#endif
	d_string_erase(dd, pos, n); if (apply) m_erase(pos, n);
	COVER(n == (size_t) -1); COVER(pos == IN.len); COVER(pos > IN.len); COVER(n > IN.len && n != (size_t) -1);
	COVER(pos + n < IN.len && n > 0);
#elif OP == 9    /* copy_substring */
	{
		size_t L = ml, len = n;
		if (len == (size_t) -1) len = (pos <= L) ? L - pos : 0;
		sub_expected = (pos <= L && len <= L - pos);
		sub_from = pos; sub_len = len;
		sub = d_string_copy_substring(dd, pos, n);
		if (!apply) sub_expected = 0;
		CHECK((sub != 0) == (sub_expected != 0), "copy_substring: NULL exactly when the range is invalid");
		if (sub) { for (size_t i = 0; i < M; i++) if (i < sub_len) CHECK(sub[i] == m[sub_from + i], "copy_substring: bytes"); CHECK(sub[sub_len] == 0, "copy_substring: terminated"); verif_free(sub); }
		COVER(sub != 0 && sub_len > 0); COVER(sub == 0); COVER(n == (size_t) -1 && sub != 0); COVER(n > L && n != (size_t) -1);
	}
#elif OP == 10   /* replace_text_in_range(pos, len, original=a, replace=b); contract: original non-empty */
	ASSUME(a != 0 && al >= 1);
	delta = d_string_replace_text_in_range(dd, pos, n, a, b);
	if (apply && pos <= ml) {
		size_t stop = (n == (size_t) -1 || n > ml - pos) ? ml : pos + n;
		long long change = (long long) IN.bl - (long long) al;
		size_t cur = pos; int guard = 0;
		for (;;) {
			long at = m_find(cur, a, al);
			if (at < 0 || (size_t) at >= stop || guard > M) break;
			guard++;
			m_erase((size_t) at, al); m_insert((size_t) at, b, IN.bl);
			mdelta += (long) change; stop = (size_t)((long long) stop + change); cur = (size_t) at + IN.bl;
		}
	}
	CHECK(delta == mdelta, "replace: reported change in length");
	COVER(mdelta > 0); COVER(mdelta < 0); COVER(n == (size_t) -1); COVER(n > IN.len && n != (size_t) -1);
#elif OP == 11   /* append_printf */
	d_string_append_printf(dd, "%s", "x"); if (apply) m_insert(ml, IN.f, IN.fl);
	COVER(IN.fl == A);
#elif OP == 12   /* insert_printf */
	d_string_insert_printf(dd, pos, "%s", "x"); if (apply) m_insert(pos, IN.f, IN.fl);
	COVER(IN.fl == A && pos < IN.len);
#endif

	/* post-conditions common to every operation: refinement of the ideal string + representation invariant */
	CHECK(d->currentStringLength == ml, "length equals the ideal string's length");
	CHECK(d->currentStringBufferSize > d->currentStringLength, "capacity larger than length");
	CHECK(d->str[d->currentStringLength] == 0, "NUL-terminated at the recorded length");
	for (size_t i = 0; i < MAXL; i++) if (i < ml) CHECK(d->str[i] == m[i], "content equals the ideal string's content");
	{ size_t req = 0; for (int i = 0; i < NSLOT; i++) if (i < nslot && slot[i] == d->str && slot_live[i]) req = slot_req[i];
#ifndef REPLAY
	  CHECK(req == d->currentStringBufferSize, "recorded capacity equals the size of the buffer actually held");
#endif
	}
	canaries_intact();
	COVER(d->currentStringBufferSize > IN.cap || OP == 0 || OP == 8 || OP == 9);        /* the operation crossed the capacity and reallocated */
	COVER(IN.d_null); COVER(ml > IN.len || OP == 0 || OP >= 8); COVER(IN.len == M);
	COVER(1);
	return 0;
}
