/* C19: d_string_replace_text_in_range -- the loop bookkeeping (pos / stop / delta as the length changes) against the ideal
   string.  d_string_erase and d_string_insert are replaced (bodies removed from the real unit) by their ideal in-place versions
   on a fixed buffer: that they refine exactly these is what c19_op_erase / c19_op_insert establish.  With the real ones inlined
   the reallocating loop does not leave symbolic execution (measured: no verdict in 600 s at 3 bytes). */
#include "vh.h"
#include <string.h>
#include <stdlib.h>
#include "d_string.h"
#ifndef M
#define M 5
#endif
#ifndef A
#define A 2
#endif
#define BIG (M * A + M + 2)
struct in { size_t len; char content[M]; size_t al, bl; char a[A], b[A]; size_t pos, n; } IN;
#include "vh_in.h"

void d_string_erase(DString *d, size_t pos, size_t len) {
	if (!d) return;
	size_t L = d->currentStringLength;
	if (pos > L || len == 0) return;
	size_t e = (len > L - pos) ? L : pos + len, j = pos;
	for (size_t i = e; i < L; i++) d->str[j++] = d->str[i];
	d->currentStringLength = j; d->str[j] = 0;
}
void d_string_insert(DString *d, size_t pos, const char *s) {
	if (!d || !s) return;
	size_t n = 0; while (s[n]) n++;
	if (n == 0) return;
	if (pos > d->currentStringLength) pos = d->currentStringLength;
	CHECK(d->currentStringLength + n < BIG, "result stays inside the harness buffer");
	/* an insert may have to grow the string, and growing may MOVE it: the ideal insert always hands back a fresh buffer and releases the old
	   one, so any pointer into the old text that the replace loop keeps across the call is a use after free */
	char *nb = malloc(BIG); ASSUME(nb != 0);
	for (size_t i = 0; i < pos; i++) nb[i] = d->str[i];
	for (size_t i = 0; i < n; i++) nb[pos + i] = s[i];
	for (size_t i = pos; i < d->currentStringLength; i++) nb[i + n] = d->str[i];
	d->currentStringLength += n; nb[d->currentStringLength] = 0;
	free(d->str); d->str = nb;
}

static char m[BIG]; static size_t ml;
static long m_find(size_t from, const char *o, size_t ol) {
	for (size_t i = from; i + ol <= ml; i++) { size_t j = 0; while (j < ol && m[i + j] == o[j]) j++; if (j == ol) return (long) i; }
	return -1;
}
int main(void) {
	IN_LOAD();
	ASSUME(IN.len <= M && IN.al >= 1 && IN.al <= A && IN.bl <= A);
	for (size_t i = 0; i < M; i++) if (i < IN.len) ASSUME(IN.content[i] != 0);
	for (size_t i = 0; i < A; i++) { if (i < IN.al) ASSUME(IN.a[i] != 0); if (i < IN.bl) ASSUME(IN.b[i] != 0); }
	DString ds; DString *d = &ds;
	d->str = malloc(BIG); ASSUME(d->str != 0);
	for (size_t i = 0; i < M; i++) if (i < IN.len) { d->str[i] = IN.content[i]; m[i] = IN.content[i]; }
	d->str[IN.len] = 0; m[IN.len] = 0; ml = IN.len; d->currentStringLength = IN.len; d->currentStringBufferSize = BIG;
	char a[A + 1], b[A + 1];
	for (size_t i = 0; i < A; i++) { a[i] = i < IN.al ? IN.a[i] : 0; b[i] = i < IN.bl ? IN.b[i] : 0; }
	a[IN.al] = 0; b[IN.bl] = 0;
	size_t pos = IN.pos, n = IN.n;
	long delta = d_string_replace_text_in_range(d, pos, n, a, b);
	/* ideal: replace, left to right and without rescanning replaced text, every occurrence that STARTS inside [pos, pos+n) */
	long mdelta = 0; int reps = 0;
	if (pos <= ml) {
		size_t stop = (n == (size_t) -1 || n > ml - pos) ? ml : pos + n;
		long change = (long) IN.bl - (long) IN.al;
		size_t cur = pos;
		for (int g = 0; g <= M; g++) {
			long at = m_find(cur, a, IN.al);
			if (at < 0 || (size_t) at >= stop) break;
			size_t j = (size_t) at;                           /* erase al bytes at `at`, insert b */
			for (size_t i = j + IN.al; i < ml; i++) m[i - IN.al] = m[i];
			ml -= IN.al;
			for (size_t i = ml; i > j; i--) m[i - 1 + IN.bl] = m[i - 1];
			for (size_t i = 0; i < IN.bl; i++) m[j + i] = b[i];
			ml += IN.bl; m[ml] = 0;
			mdelta += change; stop = (size_t) ((long) stop + change); cur = j + IN.bl; reps++;
		}
	}
	CHECK(delta == mdelta, "replace: reported change in length");
	CHECK(d->currentStringLength == ml, "replace: length equals the ideal string's length");
	CHECK(d->str[d->currentStringLength] == 0, "replace: NUL-terminated");
	for (size_t i = 0; i < BIG; i++) if (i < ml) CHECK(d->str[i] == m[i], "replace: content equals the ideal string's content");
	COVER(reps >= 3 && mdelta > 0); COVER(reps >= 3 && mdelta < 0); COVER(reps >= 2 && n != (size_t) -1 && pos + n < IN.len);
	COVER(n == (size_t) -1 && reps > 0); COVER(n > IN.len && n != (size_t) -1 && reps > 0); COVER(pos > IN.len); COVER(IN.al == A && reps > 0);
	COVER(1);
	return 0;
}
