/* C19: the sizing loop of d_string_new for EVERY starting-string length up to 8190 -- in particular lengths that exactly fill a
   power-of-two size (1023, 1024, 2047, 2048 ...): the buffer requested holds the text plus its terminator, the recorded capacity is what was
   requested, and the terminator is written at [length].  strlen is a stub returning the symbolic length (the content is irrelevant to the
   sizing), strncpy is a no-op, malloc hands out one static arena and records the request. */
#include "vh.h"
#include <stdlib.h>
#include <string.h>
static size_t asked; static char arena[16400]; struct in; 
static size_t verif_strlen(const char *s);
static char *verif_strncpy(char *d, const char *s, size_t n) { return d; }
static void *verif_malloc(size_t n);
#ifndef REPLAY
#define strlen verif_strlen
#define strncpy verif_strncpy
#define malloc verif_malloc
#endif
#include "d_string.c"
#undef strlen
#undef strncpy
#undef malloc
struct in { size_t L; } IN;
#include "vh_in.h"
static size_t verif_strlen(const char *s) { return IN.L; }
static DString hdr;
static void *verif_malloc(size_t n) { if (n == sizeof(DString)) return &hdr; asked = n; return arena; }
int main(void) {
	IN_LOAD();
	ASSUME(IN.L <= 8190);
	DString *d = d_string_new("x");
	CHECK(d != 0 && d->currentStringLength == IN.L, "new: length recorded");
	CHECK(asked > IN.L, "new: the buffer requested holds the text AND its terminator, also when the text exactly fills a power-of-two size");
	CHECK(d->currentStringBufferSize == asked, "new: recorded capacity is the size actually requested");
	CHECK(asked >= 1024 && (asked & (asked - 1)) == 0, "new: capacity is 1024 * 2^k");
	CHECK(arena[IN.L] == 0, "new: terminated at [length]");
	COVER(IN.L == 1024 && asked == 2048); COVER(IN.L == 1023 && asked == 1024); COVER(IN.L == 4096);
	COVER(1);
	return 0;
}
