/* C17: the export prologue (scratch_pad_new) and epilogue (scratch_pad_free) touch no process-global state: libc's PRNG only under
   the random-anchor switches (where a serial run is not reproducible either), Knuth's generator never. Real writer.c. */
#include "vh.h"
#include <stdlib.h>
#include "libMultiMarkdown.h"
#include "mmd.h"
#include "d_string.h"
#include "token.h"
#include "stack.h"
#include "writer.h"
struct in { unsigned long ext; short fmt; int r; } IN;
#include "vh_in.h"
static int n_rand, n_knuth;
int rand(void) { n_rand++; ASSUME(IN.r >= 0); return IN.r; }
void srand(unsigned s) { n_rand++; }
long ran_num_next(void) { n_knuth++; return 0; }
void ran_start(long s) { n_knuth++; }
int main(void) {
	IN_LOAD();
	ASSUME((IN.ext & ~0x1ffffUL) == 0); ASSUME(IN.fmt >= 0 && IN.fmt <= FORMAT_MMD);
	static mmd_engine e;
	e.extensions = IN.ext;
	e.abbreviation_stack = stack_new(0); e.citation_stack = stack_new(0); e.critic_stack = stack_new(0); e.definition_stack = stack_new(0); e.footnote_stack = stack_new(0);
	e.glossary_stack = stack_new(0); e.header_stack = stack_new(0); e.link_stack = stack_new(0); e.metadata_stack = stack_new(0); e.table_stack = stack_new(0);
	scratch_pad *p = scratch_pad_new(&e, IN.fmt);
	CHECK(p != 0, "scratch pad created");
	scratch_pad_free(p);
	CHECK(n_knuth == 0, "export prologue/epilogue never touch the process-global Knuth generator");
	if (!(IN.ext & (EXT_RANDOM_FOOT | EXT_RANDOM_LABELS))) CHECK(n_rand == 0, "export prologue/epilogue touch libc's global PRNG only under the random-anchor switches");
	COVER(n_rand > 0); COVER((IN.ext & EXT_OBFUSCATE) != 0);
	COVER(1);
	return 0;
}
