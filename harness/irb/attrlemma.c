/* Engine B lemma used by c01_attrs: whenever scan_attr accepts at a position, the pieces parse_attributes then measures are well-formed:
   p = scan_spnl, k = scan_key (k >= 1, followed by '='), v = scan_value (asked about a blank it answers 0; elsewhere it may be empty only for exotic bytes: attr_new must cope), and
   p + k + 1 + v stays inside the string.  IR of the current scanners.c, arbitrary NUL-terminated buffer. */
#include "vh.h"
#ifdef REPLAY
#include "ir_native.h"
#include <string.h>
#else
#include "ir_cbmc.h"
#endif
#include IRFILE
#ifndef N
#define N 4
#endif
struct in { uint64_t len; uint8_t buf[N]; } IN;
#include "vh_in.h"
int main(void) {
	IN_LOAD();
	ASSUME(IN.len <= N);
	for (unsigned i = 0; i < N; i++) if (i < IN.len) ASSUME(IN.buf[i] != 0);
#ifdef REPLAY
	char *b = malloc(IN.len + 1); memcpy(b, IN.buf, IN.len); b[IN.len] = 0; uint64_t base = (uint64_t) (uintptr_t) b;
#define BYTE(o) ((uint8_t) b[o])
#else
	uint64_t base = 16;
	for (unsigned i = 0; i < N; i++) if (i < IN.len) MEM[base + i] = IN.buf[i];
	MEM[base + IN.len] = 0; ir_lo = base; ir_hi = base + IN.len + 1; ir_slo = 0; ir_shi = 0;
#define BYTE(o) MEM[base + (o)]
#endif
	uint64_t a = ir_scan_attr(base);
	if (a > 0) {
		uint64_t p = ir_scan_spnl(base);
		CHECK(p <= IN.len, "leading space stays inside the string");
		uint64_t k = ir_scan_key(base + p);
		CHECK(k >= 1 && p + k < IN.len, "an accepted attribute has a non-empty key followed by more text");
		CHECK(BYTE(p + k) == '=', "the key is followed by '='");
		uint64_t q = p + k + 1;
		if (q < IN.len && (BYTE(q) == ' ' || BYTE(q) == '\t')) CHECK(ir_scan_value(base + q) == 0, "a value never starts with a blank: asked about the blank after '=', scan_value reports an empty value");
		for (unsigned g = 0; g < N; g++) if (q < IN.len && (BYTE(q) == ' ' || BYTE(q) == '\t')) q++;      /* parse_attributes skips blanks after '=' (the `attr` pattern allows them) */
		CHECK(q <= IN.len, "the value starts inside the string");
		uint64_t v = ir_scan_value(base + q);
		/* v may be 0: `u=\xC2\xA0b` is accepted by scan_attr (0xA0 counts as a blank for it) while scan_value finds nothing at 0xC2 -- found at 6 bytes;
		   attr_new copes with an empty value since the F3 repair (`len &&`), and c01_attrs lets the value scanner answer 0 */
		COVER_OPT(v == 0);
		CHECK(q + v <= IN.len, "key = value lies inside the string");
	}
	COVER(a > 0); COVER(IN.len == N);
	COVER(1);
	return 0;
}
