/* Engine B: the re2c lexer scan() (IR of the current lexer.c) called repeatedly on an arbitrary NUL-terminated buffer, as
   mmd_tokenize_string does.  C01: reads only inside [buf, buf+len], writes only its Scanner struct.  C15: the tokens are non-empty,
   in order, contiguous and inside [start, stop].  C16 (with -DU8): on valid UTF-8 input no token boundary falls inside a multi-byte
   character. */
#include "vh.h"
#ifdef REPLAY
#include "ir_native.h"
#include <string.h>
#else
#define ARENA 48
#include "ir_cbmc.h"
#endif
#include IRFILE
#ifndef N
#define N 2
#endif
struct in { uint64_t len; uint8_t buf[N]; uint64_t c0; } IN;
#include "vh_in.h"
static int utf8_ok(const uint8_t *s, uint64_t n) {
	uint64_t i = 0; int g = 0;
	while (i < n && g <= N) { g++; uint8_t c = s[i];
		if (c < 0x80) { i++; continue; }
		if (c >= 0xC2 && c <= 0xDF) { if (i + 1 >= n || (s[i + 1] & 0xC0) != 0x80) return 0; i += 2; continue; }
		if (c >= 0xE0 && c <= 0xEF) { if (i + 2 >= n || (s[i + 1] & 0xC0) != 0x80 || (s[i + 2] & 0xC0) != 0x80) return 0; if (c == 0xE0 && s[i + 1] < 0xA0) return 0; if (c == 0xED && s[i + 1] >= 0xA0) return 0; i += 3; continue; }
		if (c >= 0xF0 && c <= 0xF4) { if (i + 3 >= n || (s[i + 1] & 0xC0) != 0x80 || (s[i + 2] & 0xC0) != 0x80 || (s[i + 3] & 0xC0) != 0x80) return 0; if (c == 0xF0 && s[i + 1] < 0x90) return 0; if (c == 0xF4 && s[i + 1] >= 0x90) return 0; i += 4; continue; }
		return 0; }
	return i == n;
}
int main(void) {
	IN_LOAD();
	ASSUME(IN.len >= 1 && IN.len <= N);
	for (unsigned i = 0; i < N; i++) if (i < IN.len) ASSUME(IN.buf[i] != 0);
#ifdef U8
	ASSUME(utf8_ok(IN.buf, IN.len));
#endif
#ifdef REPLAY
	char *b = malloc(IN.len + 1); memcpy(b, IN.buf, IN.len); b[IN.len] = 0;
	uint64_t base = (uint64_t) (uintptr_t) b; static uint64_t S[4]; uint64_t sa = (uint64_t) (uintptr_t) S;
#define LD64(a) (*(uint64_t *) (uintptr_t) (a))
#define ST64(a, v) (*(uint64_t *) (uintptr_t) (a) = (v))
#else
	uint64_t base = 40, sa = 0;
	for (unsigned i = 0; i < N; i++) if (i < IN.len) MEM[base + i] = IN.buf[i];
	MEM[base + IN.len] = 0;
	ir_lo = base; ir_hi = base + IN.len + 1; ir_slo = 0; ir_shi = 32;
#define LD64(a) ir_ld64(a)
#define ST64(a, v) ir_st64(a, v)
#endif
	/* ONE call of scan() from an ARBITRARY scanner position c0 (inductive: mmd_tokenize_string calls scan() again from where the previous
	   token ended, so contiguity/ordering of the whole token stream follows from this step) */
	uint64_t c0 = IN.c0; ASSUME(c0 < IN.len);
#ifdef U8
	ASSUME((IN.buf[c0] & 0xC0) != 0x80);       /* scanning resumes on a character boundary */
#endif
	ST64(sa, base + c0); ST64(sa + 8, base + c0); ST64(sa + 16, base + c0); ST64(sa + 24, base + c0);
	uint64_t stop = base + IN.len; int ntok = 0;
	uint32_t type = ir_scan(sa, stop);
	uint64_t start = LD64(sa), cur = LD64(sa + 8);
	if (type != 0) {
		ntok = 1;
		CHECK(start >= base + c0, "the token starts at or after the point where scanning resumed (the tokeniser turns skipped bytes into a TEXT_PLAIN token): tokens are in order and never overlap");
		CHECK(cur > start, "no empty token");
		CHECK(cur <= stop, "token lies inside [start, stop]");
		CHECK(type < 230, "token kind inside the published range");
#ifdef U8
		if (cur < stop) CHECK((IN.buf[cur - base] & 0xC0) != 0x80, "valid UTF-8 in: no token END inside a multi-byte character");
		CHECK((IN.buf[start - base] & 0xC0) != 0x80, "valid UTF-8 in: no token START inside a multi-byte character");
#endif
	}
	COVER(type != 0 && cur - start == IN.len); COVER(type != 0 && c0 > 0); COVER_OPT(type == 0);
	COVER(1);
	return 0;
}
