/* Engine B: one re2c scanner (IR-derived flat C of the current scanners.c / xml.c) on an arbitrary NUL-terminated buffer.
   C01: never reads outside [buf, buf+len] (NUL included), never writes, returns a length inside the buffer (+1: scanners that
   match the end of input count the NUL they matched). */
#ifdef REPLAY
#include "vh.h"
#include "ir_native.h"
#include <string.h>
#else
#include "vh.h"
#include "ir_cbmc.h"
#endif
#include IRFILE
#ifndef N
#define N 4
#endif
struct in { uint64_t len; uint8_t buf[N]; } IN;
#include "vh_in.h"
int main(void) {
	IN_LOAD();
	ASSUME(IN.len <= N);
	for (unsigned i = 0; i < N; i++) if (i < IN.len) ASSUME(IN.buf[i] != 0);
#ifdef REPLAY
	char *b = malloc(IN.len + 1); memcpy(b, IN.buf, IN.len); b[IN.len] = 0;      /* exact-size heap buffer: ASan sees any over-read */
	uint64_t r = FN((uint64_t)(uintptr_t) b);
#else
	uint64_t base = 16;
	for (unsigned i = 0; i < N; i++) if (i < IN.len) MEM[base + i] = IN.buf[i];
	MEM[base + IN.len] = 0;
	ir_lo = base; ir_hi = base + IN.len + 1; ir_slo = 0; ir_shi = 0;
	uint64_t r = FN(base);
#endif
#ifdef RESULT_IS_FLAGS
	CHECK(r <= 15, "alignment scanner returns a set of ALIGN_* flags");
#else
	CHECK(r <= IN.len + 1, "scanner result lies inside the buffer");
#endif
	COVER_OPT(r > 0); COVER(IN.len == N);
	COVER(1);
	return 0;
}
