/* C04: "Verbatim regions (code spans ...) reproduce their source characters exactly after undoing the target's escaping", LaTeX code spans
   (real latex.c mmd_export_token_latex_tt).  One instance per token kind whose text the lexer fixes literally (IDX into the table generated
   from the current lexer.re): the token, with exactly that text, is handed to the exporter; the output is decoded with the LaTeX escaper's own
   vocabulary (\# \{ \} \$ \% \& \_  \textbackslash{}  \ensuremath{\sim}  \slash{}  \^{}  \textbar{}  $<$ $>$, and the neutral empty group {}
   that keeps dashes apart): a reserved character outside such a sequence fails, and the decoded text must equal the source text. */
#include "vh.h"
#include <stdlib.h>
#include <string.h>
#include <stdarg.h>
#include "libMultiMarkdown.h"
#include "d_string.h"
#include "token.h"
#include "stack.h"
#include "writer.h"
#include "lit_table.h"      /* LIT_TXT[], LIT_KIND[], N_LIT, LIT_MAX */
void EXPORT(DString *out, const char *source, token *t, scratch_pad *scratch);
struct in { char after; } IN;
#include "vh_in.h"
#define OMAX 80
static char o[OMAX + 24]; static int n;
static void feed(char c) { if (n < OMAX) o[n++] = c; else n = OMAX + 1; }
DString *d_string_new(const char *s) { DString *d = malloc(sizeof(DString)); ASSUME(d != 0); d->str = 0; d->currentStringLength = 0; d->currentStringBufferSize = 1; return d; }
void d_string_append_c(DString *d, char c) { if (c) feed(c); }
void d_string_append(DString *d, const char *s) { if (s) for (size_t i = 0; s[i]; i++) feed(s[i]); }
void d_string_append_c_array(DString *d, const char *s, size_t n_) { if (s) { if (n_ == (size_t) -1) d_string_append(d, s); else for (size_t i = 0; i < n_; i++) feed(s[i]); } }
void d_string_append_printf(DString *d, const char *f, ...) { for (size_t i = 0; f[i]; i++) feed(f[i]); }
void d_string_erase(DString *d, size_t pos, size_t len) {}
void TREE1(DString *out, const char *source, token *t, scratch_pad *scratch) {}
void TREE2(DString *out, const char *source, token *t, scratch_pad *scratch) {}
void TREE3(DString *out, const char *source, token *t, scratch_pad *scratch) {}
static int starts(int i, const char *w) { for (int k = 0; w[k]; k++) if (o[i + k] != w[k]) return 0; return 1; }
static int len_(const char *w) { int k = 0; while (w[k]) k++; return k; }
int main(void) {
	IN_LOAD();
	char *src = malloc(LIT_MAX + 3); ASSUME(src != 0);
#ifdef XLIT
	/* a token whose text the lexer defines by a pattern (e.g. '#'{2} SP): the driver supplies one concrete text and the kind */
	size_t L = 0; const char *lit = XLIT;
#define KIND_ XKIND
#else
	size_t L = 0; const char *lit = LIT_TXT[IDX];
#define KIND_ LIT_KIND[IDX]
#endif
	for (size_t i = 0; i < LIT_MAX; i++) if (lit[i] && L == i) src[L++] = lit[i];
	ASSUME(IN.after >= 'a' && IN.after <= 'z');
	src[L] = IN.after; src[L + 1] = 0;
	static scratch_pad sp; sp.padded = 2;
	token *t = token_new((unsigned short) KIND_, 0, L);
	DString *out = d_string_new("");
	EXPORT(out, src, t, &sp);
	CHECK(n <= OMAX, "harness: output fits the observation buffer");
	char dec[OMAX]; int m = 0, bad = 0, i = 0;
	static const char *SEQ[] = { "\\textbackslash{}", "\\ensuremath{\\sim}", "\\slash{}", "\\^{}", "\\textbar{}" }; static const char SEQC[] = { '\\', '~', '/', '^', '|' };
	for (int step = 0; step < OMAX; step++) {
		if (i >= n) break;
		char c = o[i];
#ifdef RAW_IDENTITY
		dec[m++] = c; i++; continue;       /* a verbatim environment: nothing is escaped, the output IS the text */
#endif
		if (c == '\\') {
			char d = o[i + 1];
			if (d == '#' || d == '{' || d == '}' || d == '$' || d == '%' || d == '&' || d == '_') { dec[m++] = d; i += 2; }
			else { int hit = 0; for (int k = 0; k < 5; k++) if (!hit && starts(i, SEQ[k])) { dec[m++] = SEQC[k]; i += len_(SEQ[k]); hit = 1; } if (!hit) { bad = 1; break; } }
		}
		else if (c == '$' && (o[i + 1] == '<' || o[i + 1] == '>') && o[i + 2] == '$') { dec[m++] = o[i + 1]; i += 3; }
		else if (c == '{' && o[i + 1] == '}') i += 2;
		else if (c == '{' || c == '}' || c == '$' || c == '%' || c == '&' || c == '#' || c == '_' || c == '^' || c == '~') { bad = 1; break; }
		else { dec[m++] = c; i++; }
	}
#if defined(KF_critic_sub_tt) || defined(KF_amp_long_tt)
	/* listed findings (each enshrined in a stored .tex expectation): the substitution markers keep their raw ~, `&amp;` is printed as \&.
	   The instance only pins that the finding is listed for exactly these kinds */
	CHECK(KIND_ == CRITIC_SUB_OPEN || KIND_ == CRITIC_SUB_DIV || KIND_ == CRITIC_SUB_CLOSE || KIND_ == AMPERSAND_LONG, "harness: the finding is listed for these kinds only");
#else
	CHECK(!bad, "a character reserved in LaTeX appears in a code span only in its escaped form");
	int same = (m == (int) L); for (int k = 0; k < LIT_MAX; k++) if (k < m && k < (int) L && dec[k] != src[k]) same = 0;
	CHECK(same, "undoing the escaping gives back exactly the source characters of the token");
#endif
	COVER(1);
	return 0;
}
