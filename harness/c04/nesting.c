/* C04: "the markup each writer wraps around the text is properly nested: every element or environment it opens is closed, in order".
   One block-level case of a real writer (token kind TY fixed per instance by the driver, everything the case consults symbolic): what the
   case emits is streamed through a recogniser of the target's nesting syntax -- \begin{X}..\end{X} for the LaTeX family, <x ..>..</x> (and
   <x ../>) for HTML / OpenDocument -- and must be balanced with matching names when the case returns.  The tree walkers are stubs (child
   content is some other case's business), labels and attribute strings are harmless constants. */
#include "vh.h"
#include <stdlib.h>
#include <string.h>
#include "libMultiMarkdown.h"
#include "mmd.h"
#include "d_string.h"
#include "token.h"
#include "stack.h"
#include "writer.h"
#include "parser.h"
void EXPORT(DString *out, const char *source, token *t, scratch_pad *scratch);
struct in { unsigned long ext; unsigned char flags, spec, has_next, c1, c2; unsigned short next_ty; short hl; } IN;
#include "vh_in.h"
#define DEPTH 8
static unsigned stk[DEPTH]; static int sp_, bad, opened, closed;
static int st; static unsigned name; static int closing, selfc, mi;
#if FAMILY == 0
/* LaTeX: look for "\begin{" and "\end{", then hash the name up to '}' */
static const char B[] = "\\begin{", E[] = "\\end{"; static int bi, ei;
void vh_sink(char c) {
	if (st == 0) {
		bi = (c == B[bi]) ? bi + 1 : (c == B[0] ? 1 : 0);
		ei = (c == E[ei]) ? ei + 1 : (c == E[0] ? 1 : 0);
		if (bi == 7) { st = 1; closing = 0; name = 0; bi = ei = 0; }
		else if (ei == 5) { st = 1; closing = 1; name = 0; bi = ei = 0; }
	} else {
		if (c == '}') {
			if (!closing) { if (sp_ < DEPTH) stk[sp_++] = name; else bad = 1; opened++; }
			else { if (sp_ > 0 && stk[sp_ - 1] == name) sp_--; else bad = 1; closed++; }
			st = 0;
		} else name = name * 31 + (unsigned char) c;
	}
}
#else
/* XML/HTML: <name ...>, </name>, <name .../>, <!-- ... --> (skipped up to '>') */
static char prev;
void vh_sink(char c) {
	if (st == 0) { if (c == '<') { st = 1; name = 0; closing = 0; selfc = 0; mi = 0; } }
	else if (st == 1) {                       /* first char after '<' */
		if (c == '/') { closing = 1; st = 2; }
		else if (c == '!' || c == '?') st = 4;
		else { name = (unsigned char) c; st = 2; }
	} else if (st == 2) {                     /* in the name */
		if (c == '>') goto done;
		if (c == ' ' || c == '\n' || c == '\t' || c == '/') { st = 3; prev = c; }
		else name = name * 31 + (unsigned char) c;
	} else if (st == 3) {                     /* attributes */
		if (c == '>') { selfc = (prev == '/'); goto done; }
		prev = c;
	} else if (st == 4) { if (c == '>') st = 0; }
	return;
done:
	if (closing) { if (sp_ > 0 && stk[sp_ - 1] == name) sp_--; else bad = 1; closed++; }
	else if (!selfc) { if (sp_ < DEPTH) stk[sp_++] = name; else bad = 1; opened++; }
	st = 0;
}
#endif
void vh_sink_unsupported(void) { CHECK(0, "harness: the block cases only append to the output"); }
/* the children of a table are its header section (one, always: `table ::= table_header table_body | table_header`) and body sections; the
   LaTeX family opens the tabulary environment in the header's case and closes it in the table's, so the table instance renders its header
   child with the real case as well */
static int in_header;
static void tree(DString *out, const char *source, token *t, scratch_pad *scratch) {
	if (TY == BLOCK_TABLE && t && t->type == BLOCK_TABLE_HEADER && !in_header) { in_header = 1; EXPORT(out, source, t, scratch); }
}
void TREE1(DString *out, const char *source, token *t, scratch_pad *scratch) { tree(out, source, t, scratch); }
void TREE2(DString *out, const char *source, token *t, scratch_pad *scratch) { tree(out, source, t, scratch); }
void TREE3(DString *out, const char *source, token *t, scratch_pad *scratch) { tree(out, source, t, scratch); }
#ifdef TREE4
void TREE4(DString *out, const char *source, token *t, scratch_pad *scratch) { tree(out, source, t, scratch); }
#endif
void pad(DString *d, short n, scratch_pad *scratch) {}
static char *konst(const char *s) { char *r = malloc(4); ASSUME(r != 0); r[0] = s[0]; r[1] = s[1]; r[2] = 0; return r; }
char *get_fence_language_specifier(token *fence, const char *source) { return (IN.spec & 1) ? konst("cc") : 0; }
bool raw_filter_text_matches(char *pattern, short format) { return 0; }
char *label_from_header(const char *source, token *t, scratch_pad *scratch) { return konst("hh"); }
char *label_from_token(const char *source, token *t) { return konst("ll"); }
token *manual_label_from_header(token *h, const char *source) { return 0; }
bool table_has_caption(token *t) { return 0; }
void read_table_column_alignments(const char *source, token *table, scratch_pad *scratch) { scratch->table_column_count = 2; scratch->table_alignment[0] = 'l'; scratch->table_alignment[1] = 'R'; scratch->table_alignment[2] = 0; }
short raw_level_for_header(token *h) { return 1; }
int main(void) {
	IN_LOAD();
	static char src[32] = "abc def\nghi jkl\nmno pqr\n";
	token *blk = token_new(TY, 0, 24);
	unsigned short c1 = TY == BLOCK_TABLE ? BLOCK_TABLE_HEADER : IN.c1 & 1 ? BLOCK_PARA : TEXT_PLAIN, c2 = IN.c2 & 1 ? BLOCK_PARA : TEXT_PLAIN;
	token *a = token_new(c1, 0, 8), *b = token_new(c2, 8, 8), *c = token_new(TEXT_NL, 16, 1);
	token_append_child(a, token_new(TEXT_PLAIN, 0, 3)); token_append_child(a, token_new(TEXT_PLAIN, 4, 3));
	token_append_child(b, token_new(TEXT_PLAIN, 8, 3)); token_append_child(b, token_new(TEXT_PLAIN, 12, 3));
	token_append_child(blk, a); token_append_child(blk, b); token_append_child(blk, c);
	token *nx = token_new(IN.next_ty < 230 ? IN.next_ty : BLOCK_PARA, 24, 0); token_append_child(nx, token_new(TEXT_PLAIN, 24, 0));
	if (TY == BLOCK_DEFLIST) ASSUME(IN.next_ty != BLOCK_DEFLIST);      /* consecutive definition lists share one <dl> / description environment: opened by the first, closed by the last */
	if (IN.has_next & 1) { blk->next = nx; nx->prev = blk; }
	scratch_pad *sp = calloc(1, sizeof(scratch_pad)); ASSUME(sp != 0);
	sp->extensions = IN.ext & 0x1ffff; sp->padded = 2; ASSUME(IN.hl >= 1 && IN.hl <= 3); sp->base_header_level = IN.hl;
	sp->output_format = FMT; sp->odf_para_type = BLOCK_PARA; sp->list_is_tight = IN.flags & 1; sp->close_para = 1;      /* true on entry to every block; only an image-only paragraph clears it for its own closing tag */ sp->skip_token = 0;
	sp->header_stack = stack_new(0); sp->used_footnotes = stack_new(0); sp->used_citations = stack_new(0); sp->used_glossaries = stack_new(0); sp->used_abbreviations = stack_new(0);
	sp->outline_stack = stack_new(0);
	DString *out = d_string_new("");
	EXPORT(out, src, blk, sp);
	CHECK(!bad, "a closing tag / \\end matches the innermost open one");
	CHECK(sp_ == 0 && st == 0, "everything the case opened is closed when it returns");
	COVER_OPT(opened >= 1 && opened == closed);
	COVER_OPT(opened >= 2);
	COVER(1);
	return 0;
}
