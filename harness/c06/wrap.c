/* C06: the C-string / DString / engine families of every entry point are thin wrappers that must hand the SAME text, extensions,
   language and format to the engine and give back its result.  mmd.c is the real unit; what the wrappers wrap is replaced by
   recorders (bodies removed with goto-instrument): mmd_engine_parse_string, mmd_engine_export_token_tree, the metadata engine
   functions, the package writers, and the stdio calls (compiled with -Dfopen=vh_fopen ...). */
#include "vh.h"
#include <stdlib.h>
#include <string.h>
#include <stdio.h>
#include "libMultiMarkdown.h"
#include "mmd.h"
#include "d_string.h"
#include "token.h"
#ifndef N
#define N 3
#endif
struct in { size_t len; char s[N]; unsigned long ext; short fmt, lang; unsigned char meta_answer; size_t meta_end; char key[2]; } IN;
#include "vh_in.h"

/* ---- recorders ---- */
static char rec_text[N + 1]; static unsigned long rec_ext; static short rec_lang, rec_ql, rec_fmt; static int n_parse, n_export;
void mmd_engine_parse_string(mmd_engine *e) {
	n_parse++;
	for (int i = 0; i <= N; i++) rec_text[i] = ((size_t) i <= e->dstr->currentStringLength) ? e->dstr->str[i] : 0;
	rec_ext = e->extensions; rec_lang = e->language; rec_ql = e->quotes_lang;
	/* like the real parse, leave a document root spanning the text in the engine */
	static token roots[8]; static int nr; token *r = &roots[nr < 7 ? nr++ : 7];
	memset(r, 0, sizeof *r); r->type = DOC_START_TOKEN; r->len = e->dstr->currentStringLength; r->tail = r;
	e->root = r;
}
void mmd_engine_export_token_tree(DString *out, mmd_engine *e, short format) {
	n_export++; rec_fmt = format;
	d_string_append_c(out, '#'); d_string_append_c(out, (char) ('A' + format)); d_string_append_c(out, (char) ('a' + (rec_ext & 15)));
	if (rec_text[0]) d_string_append_c(out, rec_text[0]);
}
static int n_pkg; static short pkg_kind; static char pkg_in[8];
static DString *pkg(short kind, DString *body) { n_pkg++; pkg_kind = kind; size_t i = 0; for (; i < 7 && body->str[i]; i++) pkg_in[i] = body->str[i]; pkg_in[i] = 0; DString *r = d_string_new("P"); d_string_append_c(r, (char) ('A' + kind)); return r; }
DString *epub_create(DString *body, mmd_engine *e, const char *directory) { return pkg(FORMAT_EPUB, body); }
DString *textbundle_create(DString *body, mmd_engine *e, const char *directory) { return pkg(FORMAT_TEXTBUNDLE, body); }
DString *opendocument_text_create(DString *body, mmd_engine *e, const char *directory) { return pkg(FORMAT_ODT, body); }
DString *opendocument_flat_text_create(DString *body, mmd_engine *e, const char *directory) { return pkg(FORMAT_FODT, body); }
DString *itmz_create(DString *body, mmd_engine *e, const char *directory) { return pkg(FORMAT_ITMZ, body); }
static int n_wrap; static short wrap_kind;
void epub_write_wrapper(const char *filepath, DString *body, mmd_engine *e, const char *directory) { n_wrap++; wrap_kind = FORMAT_EPUB; size_t i = 0; for (; i < 7 && body->str[i]; i++) pkg_in[i] = body->str[i]; pkg_in[i] = 0; }
void textbundle_write_wrapper(const char *filepath, DString *body, mmd_engine *e, const char *directory) { n_wrap++; wrap_kind = FORMAT_TEXTBUNDLE_COMPRESSED; size_t i = 0; for (; i < 7 && body->str[i]; i++) pkg_in[i] = body->str[i]; pkg_in[i] = 0; }
static int n_open, n_close; static char file_bytes[12]; static size_t file_len; static FILE the_file;
FILE *vh_fopen(const char *path, const char *mode) { n_open++; file_len = 0; return &the_file; }
int vh_fputs(const char *s, FILE *f) { for (size_t i = 0; s[i] && file_len < 11; i++) file_bytes[file_len++] = s[i]; return 0; }
int vh_fputc(int c, FILE *f) { if (file_len < 11) file_bytes[file_len++] = (char) c; return c; }
int vh_fclose(FILE *f) { n_close++; return 0; }
void vh_perror(const char *s) {}
/* metadata engine functions: answer is an arbitrary but fixed function of the text they are shown */
static int n_meta; static char meta_text[N + 1]; static char meta_val[3] = "v";
bool mmd_engine_has_metadata(mmd_engine *e, size_t *end) { n_meta++; for (int i = 0; i <= N; i++) meta_text[i] = ((size_t) i <= e->dstr->currentStringLength) ? e->dstr->str[i] : 0; if (end) *end = IN.meta_end; return IN.meta_answer & 1; }
char *mmd_engine_metadata_keys(mmd_engine *e) { n_meta++; for (int i = 0; i <= N; i++) meta_text[i] = ((size_t) i <= e->dstr->currentStringLength) ? e->dstr->str[i] : 0; char *r = malloc(2); r[0] = 'k'; r[1] = 0; return r; }
static const char *meta_key_seen;
char *mmd_engine_metavalue_for_key(mmd_engine *e, const char *key) { n_meta++; meta_key_seen = key; for (int i = 0; i <= N; i++) meta_text[i] = ((size_t) i <= e->dstr->currentStringLength) ? e->dstr->str[i] : 0; return (IN.meta_answer & 1) ? (char *) meta_val : (char *) 0; }

/* the pairing tables built by mmd_engine_create are irrelevant to the wrappers: recorder stubs */
#include "token_pairs.h"
token_pair_engine *token_pair_engine_new(void) { token_pair_engine *e = malloc(8); return e; }
void token_pair_engine_free(token_pair_engine *e) { free(e); }
void token_pair_engine_add_pairing(token_pair_engine *e, unsigned short a, unsigned short b, unsigned short c, int o) {}
static int plain(short f) { return f == FORMAT_HTML || f == FORMAT_LATEX || f == FORMAT_BEAMER || f == FORMAT_MEMOIR || f == FORMAT_OPML; }

int main(void) {
	IN_LOAD();
	size_t len = IN.len; ASSUME(len <= N);
	char src[N + 1];
	for (size_t i = 0; i < N; i++) { src[i] = IN.s[i]; if (i < len) ASSUME(src[i] != 0); }
	src[len] = 0;
	unsigned long ext = IN.ext; ASSUME((ext & ~0x1ffffUL) == 0);
	short fmt = IN.fmt, lang = IN.lang; ASSUME(fmt >= 0 && fmt <= FORMAT_MMD && lang >= 0 && lang <= 6);
	DString *d = d_string_new(src);
	char t1[N + 1]; unsigned long e1; short l1, q1, f1;

#if OP == 0     /* convert: string == dstring == engine */
	char *r1 = mmd_string_convert(src, ext, fmt, lang);
	CHECK(n_parse == 1 && n_export == 1, "string convert parses and exports exactly once");
	memcpy(t1, rec_text, N + 1); e1 = rec_ext; l1 = rec_lang; q1 = rec_ql; f1 = rec_fmt;
	CHECK(memcmp(t1, src, N + 1 > len + 1 ? len + 1 : N + 1) == 0 && e1 == ext && f1 == fmt, "engine sees the caller's text, extensions and format");
	char *r2 = mmd_d_string_convert(d, ext, fmt, lang);
	CHECK(n_parse == 2 && n_export == 2, "dstring convert parses and exports exactly once");
	CHECK(memcmp(t1, rec_text, N + 1) == 0 && e1 == rec_ext && l1 == rec_lang && q1 == rec_ql && f1 == rec_fmt, "string and DString variants hand the engine the same tuple");
	CHECK(strcmp(r1, r2) == 0, "string and DString variants return the same bytes");
	mmd_engine *e = mmd_engine_create_with_dstring(d, ext); mmd_engine_set_language(e, lang);
	char *r3 = mmd_engine_convert(e, fmt);
	CHECK(memcmp(t1, rec_text, N + 1) == 0 && e1 == rec_ext && l1 == rec_lang && q1 == rec_ql && f1 == rec_fmt && strcmp(r1, r3) == 0, "engine variant agrees");
	/* the engine variant documented for repeated use: a second conversion on the same engine parses and exports again and agrees */
	int np = n_parse, ne = n_export;
	char *r4 = mmd_engine_convert(e, fmt);
	CHECK(n_parse == np + 1 && n_export == ne + 1, "every engine conversion parses and exports (a reused engine is not served from a stale tree)");
	CHECK(strcmp(r1, r4) == 0, "second conversion on the same engine gives the same bytes");
	free(r4);
	mmd_engine_free(e, false);
	CHECK(strcmp(d->str, src) == 0 && d->currentStringLength == len, "caller's DString still valid and unchanged");
	free(r1); free(r2); free(r3);
	COVER(len == N && fmt == FORMAT_OPML);
#elif OP == 1   /* convert_to_data */
	ASSUME(fmt != FORMAT_MMD);           /* FORMAT_MMD returns the text itself (transclusion is external) */
	DString *r1 = mmd_string_convert_to_data(src, ext, fmt, lang, 0);
	CHECK(n_parse == 1 && n_export == 1, "string convert_to_data parses and exports exactly once");
	memcpy(t1, rec_text, N + 1); e1 = rec_ext; l1 = rec_lang; q1 = rec_ql; f1 = rec_fmt;
	int p1 = n_pkg; short k1 = pkg_kind;
	CHECK(r1 != 0, "a result is returned for every format");
	if (plain(fmt)) { char *c = mmd_string_convert(src, ext, fmt, lang); CHECK(strcmp(c, r1->str) == 0 && r1->currentStringLength == strlen(c), "convert_to_data == convert for the plain-text formats"); free(c); CHECK(p1 == 0, "no package writer for plain formats"); }
	if (fmt == FORMAT_EPUB || fmt == FORMAT_ODT || fmt == FORMAT_FODT || fmt == FORMAT_ITMZ || fmt == FORMAT_TEXTBUNDLE || fmt == FORMAT_TEXTBUNDLE_COMPRESSED)
		CHECK(p1 == 1 && (k1 == fmt || (k1 == FORMAT_TEXTBUNDLE && fmt == FORMAT_TEXTBUNDLE_COMPRESSED)) && pkg_in[0] == '#', "packaged formats reach their package writer with the rendered body");
	int np = n_pkg;
	DString *r2 = mmd_d_string_convert_to_data(d, ext, fmt, lang, 0);
	CHECK(memcmp(t1, rec_text, N + 1) == 0 && e1 == rec_ext && l1 == rec_lang && q1 == rec_ql && f1 == rec_fmt, "string and DString variants hand the engine the same tuple");
	CHECK(r2 != 0 && strcmp(r1->str, r2->str) == 0 && (n_pkg - np) == p1, "string and DString variants return the same bytes");
	CHECK(strcmp(d->str, src) == 0 && d->currentStringLength == len, "caller's DString still valid and unchanged");
	d_string_free(r1, true); d_string_free(r2, true);
	COVER(fmt == FORMAT_EPUB); COVER(fmt == FORMAT_HTML && len == N); COVER(fmt == FORMAT_ITMZ);
#elif OP == 2   /* convert_to_file */
#ifdef KF_string_to_file
	ASSUME(IN.meta_answer >= 1);          /* variant choice below: the string variant is the listed finding */
#endif
	int which = IN.meta_answer % 3;
	char *expect = mmd_string_convert(src, ext, fmt, lang); int base_parse = n_parse;
	if (which == 0) mmd_string_convert_to_file(src, ext, fmt, lang, 0, "o");
	else if (which == 1) mmd_d_string_convert_to_file(d, ext, fmt, lang, 0, "o");
	else { mmd_engine *e = mmd_engine_create_with_dstring(d, ext); mmd_engine_set_language(e, lang); mmd_engine_convert_to_file(e, fmt, 0, "o"); mmd_engine_free(e, false); }
	if (fmt == FORMAT_EPUB) CHECK(n_wrap == 1 && wrap_kind == FORMAT_EPUB && n_open == 0, "EPUB goes to the EPUB writer");
	else if (fmt == FORMAT_TEXTBUNDLE_COMPRESSED) CHECK(n_wrap == 1 && wrap_kind == FORMAT_TEXTBUNDLE_COMPRESSED && n_open == 0, "bundle goes to the bundle writer");
	else if (fmt != FORMAT_TEXTBUNDLE) {
		CHECK(n_open == 1 && n_close == 1, "every convert_to_file variant writes exactly one file");
		CHECK(file_len == strlen(expect) && memcmp(file_bytes, expect, file_len) == 0, "the file holds exactly the bytes convert returns");
	}
	CHECK(strcmp(d->str, src) == 0, "caller's DString unchanged");
	COVER(which == 0 && fmt == FORMAT_HTML); COVER(which == 1 && fmt == FORMAT_LATEX); COVER(which == 2 && fmt == FORMAT_EPUB);
#elif OP == 3   /* metadata queries */
	size_t end1 = 77, end2 = 78; char key[3]; key[0] = IN.key[0]; key[1] = IN.key[1]; key[2] = 0;
	bool h1 = mmd_string_has_metadata(src, &end1); char m1[N + 1]; memcpy(m1, meta_text, N + 1);
	bool h2 = mmd_d_string_has_metadata(d, &end2);
	CHECK(h1 == h2 && end1 == end2 && end1 == IN.meta_end && h1 == (bool) (IN.meta_answer & 1), "has_metadata variants return the engine's answer and end offset");
	CHECK(memcmp(m1, meta_text, N + 1) == 0 && memcmp(m1, src, len + 1) == 0, "has_metadata variants show the engine the caller's text");
	char *k1 = mmd_string_metadata_keys(src), *k2 = mmd_d_string_metadata_keys(d);
	CHECK(k1 != 0 && k2 != 0 && strcmp(k1, k2) == 0, "metadata_keys variants agree"); free(k1); free(k2);
	char *v1 = mmd_string_metavalue_for_key(src, key); const char *ks1 = meta_key_seen;
	char *v2 = mmd_d_string_metavalue_for_key(d, key);
	CHECK((v1 != 0) == (v2 != 0) && (v1 != 0) == (bool) (IN.meta_answer & 1), "metavalue variants return a value exactly when the engine has one");
	CHECK(ks1 == key && meta_key_seen == key, "metavalue variants pass the caller's key");
	if (v1) { CHECK(strcmp(v1, "v") == 0 && strcmp(v2, "v") == 0 && v1 != meta_val && v2 != meta_val, "metavalue variants return an owned copy of the engine's value"); free(v1); free(v2); }
	CHECK(strcmp(d->str, src) == 0, "caller's DString unchanged");
	COVER(h1); COVER(!h1); COVER(v1 != 0);
#endif
	d_string_free(d, true);
	COVER(len == N);
	COVER(1);
	return 0;
}
