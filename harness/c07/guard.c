/* C07: the depth guards of the recursive tree walks.  TREE = guarded walker of one writer (real), TOKEN = the per-token exporter it
   calls (body removed; the stub observes the depth).  For ANY depth value d <= limit:
   at d == limit nothing is processed and the depth is unchanged; below it every token is handed down at depth d+1 and the depth is
   restored.  Hence the depth never exceeds the limit and every level of the mutual recursion costs one counted step. */
#include "vh.h"
#include <stdlib.h>
#include "libMultiMarkdown.h"
#include "d_string.h"
#include "token.h"
#include "writer.h"
void TREE(DString *out, const char *source, token *t, scratch_pad *scratch);
struct in { unsigned short depth; int ntok; unsigned short skip; } IN;
#include "vh_in.h"
static int calls, max_seen, bad_depth;
void TOKEN(DString *out, const char *source, token *t, scratch_pad *scratch) {
	calls++;
	if (scratch->recurse_depth != IN.depth + 1) bad_depth = 1;
	if (scratch->recurse_depth > kMaxExportRecursiveDepth) bad_depth = 1;
}
int main(void) {
	IN_LOAD();
	ASSUME(IN.depth <= kMaxExportRecursiveDepth && IN.ntok >= 1 && IN.ntok <= 2 && IN.skip <= 1);
	static scratch_pad sp; sp.recurse_depth = IN.depth; sp.skip_token = IN.skip;
	token *a = token_new(TEXT_PLAIN, 0, 1), *b = token_new(TEXT_PLAIN, 1, 1); ASSUME(a != 0 && b != 0);
	if (IN.ntok == 2) token_chain_append(a, b);
	DString *out = d_string_new("");
	TREE(out, "ab", a, &sp);
	if (IN.depth == kMaxExportRecursiveDepth) CHECK(calls == 0, "at the depth limit nothing is exported (recursion stops)");
	else CHECK(calls == IN.ntok - IN.skip, "below the limit every token is exported exactly once (minus skipped ones)");
	CHECK(!bad_depth, "children are exported at depth+1, never beyond the limit");
	CHECK(sp.recurse_depth == IN.depth, "depth counter restored on return");
	COVER(IN.depth == kMaxExportRecursiveDepth); COVER(IN.depth == kMaxExportRecursiveDepth - 1 && calls == 2); COVER(IN.skip == 1 && calls == 1);
	COVER(1);
	return 0;
}
