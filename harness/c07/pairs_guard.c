/* C07: token_pairs_match_pairs_inside_token stops at kMaxPairRecursiveDepth and recurses with depth+1 (real token_pairs.c). */
#include "vh.h"
#include <stdlib.h>
#include "libMultiMarkdown.h"
#include "d_string.h"
#include "token.h"
#include "token_pairs.h"
#include "stack.h"
struct in { unsigned short depth; } IN;
#include "vh_in.h"
int main(void) {
	IN_LOAD();
	ASSUME(IN.depth == kMaxPairRecursiveDepth || IN.depth == kMaxPairRecursiveDepth - 1);
	token_pair_engine *e = token_pair_engine_new(); ASSUME(e != 0);
	token_pair_engine_add_pairing(e, BRACKET_LEFT, BRACKET_RIGHT, PAIR_BRACKET, 0);
	/* parent [ inner( [ ] ) ]  : an opener/closer pair at the top level and one inside a child */
	token *parent = token_new(BLOCK_PARA, 0, 6);
	token *o1 = token_new(BRACKET_LEFT, 0, 1), *mid = token_new(PAIR_EMPH, 1, 2), *c1 = token_new(BRACKET_RIGHT, 3, 1);
	token *o2 = token_new(BRACKET_LEFT, 1, 1), *c2 = token_new(BRACKET_RIGHT, 2, 1);
	token_append_child(parent, o1); token_append_child(parent, mid); token_append_child(parent, c1);
	token_append_child(mid, o2); token_append_child(mid, c2);
	stack *s = stack_new(0);
	token_pairs_match_pairs_inside_token(parent, e, s, IN.depth);
	if (IN.depth == kMaxPairRecursiveDepth) CHECK(o1->mate == 0 && o2->mate == 0 && parent->child == o1, "at the depth limit nothing is paired and nothing recursed into");
	else { CHECK(parent->child->type == PAIR_BRACKET || o1->mate == c1, "one below the limit the top level is paired"); CHECK(o2->mate == 0 && mid->child == o2, "...and the child level (depth == limit) is left alone"); }
	COVER(IN.depth == kMaxPairRecursiveDepth); COVER(IN.depth == kMaxPairRecursiveDepth - 1);
	COVER(1);
	return 0;
}
