/* C07 (+C05): mmd_parse_token_chain depth guard and balance.  lemon's Parse* are stubs that observe the depth. */
#include "vh.h"
#include <stdlib.h>
#include "libMultiMarkdown.h"
#include "mmd.h"
#include "d_string.h"
#include "token.h"
void mmd_parse_token_chain(mmd_engine *e, token *chain);
struct in { unsigned short depth; int ntok; } IN;
#include "vh_in.h"
static int n_alloc, n_parse, n_free, bad; static mmd_engine *eng;
void *ParseAlloc(void *(*m)(size_t)) { n_alloc++; return (void *) &n_alloc; }
void ParseFree(void *p, void (*f)(void *)) { n_free++; }
void Parse(void *p, int major, token *minor, mmd_engine *e) { n_parse++; if (e->recurse_depth != IN.depth + 1 || e->recurse_depth > kMaxParseRecursiveDepth) bad = 1; if (minor && !e->root) e->root = minor; }
int main(void) {
	IN_LOAD();
	ASSUME(IN.depth <= kMaxParseRecursiveDepth && IN.ntok >= 1 && IN.ntok <= 2);
	static mmd_engine e; e.recurse_depth = IN.depth; eng = &e;
	token *doc = token_new(0, 0, 4), *l1 = token_new(6, 0, 2), *l2 = token_new(6, 2, 2); ASSUME(doc && l1 && l2);
	token_append_child(doc, l1); if (IN.ntok == 2) token_append_child(doc, l2);
	mmd_parse_token_chain(&e, doc);
	if (IN.depth == kMaxParseRecursiveDepth) { CHECK(n_alloc == 0 && n_parse == 0, "at the parse depth limit no parser is created (recursion stops)"); CHECK(doc->child == l1, "the over-deep block is left as it is (degraded, not lost)"); }
	else { CHECK(n_alloc == 1 && n_free == 1 && n_parse == IN.ntok + 1, "below the limit every line is fed to the parser, then end of input"); }
	CHECK(!bad, "parser actions run at depth+1, never beyond the limit");
	CHECK(e.recurse_depth == IN.depth, "depth counter restored on every return path (no leak into later conversions)");
	COVER(IN.depth == kMaxParseRecursiveDepth); COVER(IN.depth == kMaxParseRecursiveDepth - 1 && n_parse == 3);
	COVER(1);
	return 0;
}
