/* C02 (assumption behind c02_dispatch_*): every definition block is retyped to BLOCK_EMPTY by process_definition_block (real writer.c) before
   any writer can see it, whatever its kind and whatever the note/link constructors return (abstract: footnote_new / definition_extract /
   strip_leading_whitespace are stubs returning anything). */
#include "vh.h"
#include <stdlib.h>
#include <stdio.h>
#include <string.h>
#include "libMultiMarkdown.h"
#include "mmd.h"
#include "d_string.h"
#include "token.h"
#include "stack.h"
#include "writer.h"
void process_definition_block(mmd_engine *e, token *block);
struct in { unsigned char kind, para, null_note, clean0; } IN;
#include "vh_in.h"
static footnote the_note; static char clean[4] = ">ab";
footnote *footnote_new(const char *source, token *label, token *content, bool lowercase) { if (IN.null_note & 1) return 0; the_note.content = content; the_note.clean_text = (IN.clean0 & 1) ? (char *) 0 : (char *) clean; the_note.label_text = malloc(2); return &the_note; }
bool definition_extract(mmd_engine *e, token **remainder) { return true; }
void strip_leading_whitespace(token *chain, const char *source) {}
char *clean_string_from_range(const char *source, size_t start, size_t len, bool lowercase) { return 0; }
static const unsigned short KINDS[5] = { BLOCK_DEF_ABBREVIATION, BLOCK_DEF_CITATION, BLOCK_DEF_FOOTNOTE, BLOCK_DEF_GLOSSARY, BLOCK_DEF_LINK };
int main(void) {
	IN_LOAD();
	ASSUME(IN.kind < 5);
	static mmd_engine e; e.dstr = d_string_new("[>a]: b\n");
	e.abbreviation_stack = stack_new(0); e.citation_stack = stack_new(0); e.footnote_stack = stack_new(0); e.glossary_stack = stack_new(0); e.link_stack = stack_new(0);
	token *block = token_new(KINDS[IN.kind], 0, 8);
	token *label = token_new(PAIR_BRACKET_ABBREVIATION, 0, 4), *colon = token_new(COLON, 4, 1), *txt = token_new(TEXT_PLAIN, 5, 2);
	if (IN.para & 1) { token *para = token_new(BLOCK_PARA, 0, 8); token_append_child(para, label); token_append_child(para, colon); token_append_child(para, txt); token_append_child(block, para); }
	else { token_append_child(block, label); token_append_child(block, colon); token_append_child(block, txt); }
	process_definition_block(&e, block);
	CHECK(block->type == BLOCK_EMPTY, "a definition block never reaches a writer with its definition kind: it is retyped to BLOCK_EMPTY");
	COVER(IN.kind == 4); COVER(IN.kind == 0 && !(IN.null_note & 1)); COVER(IN.para & 1);
	COVER(1);
	return 0;
}
