/* C02 item 1: the compiled LALR tables of parser.c never answer "syntax error" for any (state, line kind the classifier can emit),
   and every lookup stays inside the tables.  Unbounded in the number of lines: lemon reports an error only through this lookup. */
#include "vh.h"
#include "parser.c"
#include "terminals.h"      /* generated from the current mmd.c: TERMS[], N_TERMS */
struct in { int s, ti, nt; } IN;
#include "vh_in.h"
int main(void) {
	IN_LOAD();
	yyParser p;
	int s = IN.s; ASSUME(s >= 0 && s <= YY_SHIFT_COUNT);
	ASSUME(IN.ti >= 0 && IN.ti < N_TERMS + 1);
	int t = IN.ti < N_TERMS ? TERMS[IN.ti] : 0;          /* 0 = end of input */
	ASSUME(!(s == 0 && t == 0));                          /* an empty token chain is never parsed (mmd_parse_token_chain returns early) */
	p.yytos = &p.yystack[1]; p.yystack[1].stateno = (YYACTIONTYPE) s;
	unsigned int a = yy_find_shift_action(&p, (YYCODETYPE) t);
	CHECK(a != YY_ERROR_ACTION, "no syntax-error entry for any (state, emitted line kind)");
	CHECK(a < YY_NO_ACTION, "action code in range");
	/* goto lookups after a reduce stay inside the table */
	int s2 = IN.s; int nt = IN.nt;
	ASSUME(nt >= YYNTOKEN_V && nt < YYNOCODE);
	if (s2 <= YY_REDUCE_COUNT && yy_reduce_ofst[s2] != YY_REDUCE_USE_DFLT) {
		int i = yy_reduce_ofst[s2] + nt;
		if (i >= 0 && i < YY_ACTTAB_COUNT && yy_lookahead[i] == nt) CHECK(yy_action[i] <= YY_MAX_SHIFTREDUCE || yy_action[i] >= YY_MIN_REDUCE, "goto entry is a state or a reduce");
	}
	COVER(t == 0 && s > 0); COVER(a <= YY_MAX_SHIFT); COVER(a >= YY_MIN_REDUCE && a < YY_ERROR_ACTION); COVER(s == YY_SHIFT_COUNT);
	COVER(1);
	return 0;
}
