/* C02 item 3 / C01 / C11: the line classifier (real mmd.c mmd_assign_line_type) gives EVERY line a kind from the emitted set --
   a line left without a kind (0) reads as end of input to the block parser and silently truncates the document -- for an arbitrary
   first token kind/length, arbitrary following token, arbitrary source bytes, arbitrary scanner answers and all extension sets.
   Scanners are abstract (any answer <= remaining length; Engine B covers the scanners themselves) but record the position they were
   asked about: the line-level scanners must be asked about the line start. */
#include "vh.h"
#include <stdlib.h>
#include <string.h>
#include "libMultiMarkdown.h"
#include "mmd.h"
#include "d_string.h"
#include "token.h"
#include "stack.h"
#include "parser.h"
#include "terminals.h"
#ifndef N
#define N 5
#endif
void mmd_assign_line_type(mmd_engine *e, token *line);
struct in { char s[N]; unsigned long ext; unsigned short t1, t2; size_t l1, l2; unsigned char allow_meta, two; size_t ret[8]; } IN;
#include "vh_in.h"
static const char *g_src; static size_t g_line_start, g_first_start; static int n_scan; static int bad_pos;
static size_t answer(const char *c, int line_level) {
	size_t off = (size_t) (c - g_src);
	if (line_level && off != g_line_start) bad_pos = 1;
	if (!line_level && off != g_first_start && off != g_line_start) bad_pos = 1;
	size_t r = IN.ret[n_scan < 8 ? n_scan : 7]; n_scan++;
	return r <= N - off ? r : 0;
}
#define LINE_SCAN(f) size_t f(const char *c) { return answer(c, 1); }
#define TOK_SCAN(f) size_t f(const char *c) { return answer(c, 0); }
LINE_SCAN(scan_html_block) LINE_SCAN(scan_meta_line) LINE_SCAN(scan_ref_abbreviation) LINE_SCAN(scan_ref_citation) LINE_SCAN(scan_ref_foot) LINE_SCAN(scan_ref_glossary)
LINE_SCAN(scan_ref_link) LINE_SCAN(scan_ref_link_no_attributes) LINE_SCAN(scan_url)
TOK_SCAN(scan_atx) TOK_SCAN(scan_definition) TOK_SCAN(scan_fence_end) TOK_SCAN(scan_fence_start) TOK_SCAN(scan_setext) TOK_SCAN(scan_table_separator)
TOK_SCAN(scan_html) TOK_SCAN(scan_html_comment) TOK_SCAN(scan_html_line) TOK_SCAN(scan_empty_meta_line) TOK_SCAN(scan_meta_key) TOK_SCAN(scan_email) TOK_SCAN(scan_key) TOK_SCAN(scan_value) TOK_SCAN(scan_attr)
TOK_SCAN(scan_attributes) TOK_SCAN(scan_spnl) TOK_SCAN(scan_destination) TOK_SCAN(scan_title) TOK_SCAN(scan_alignment_string)
int main(void) {
	IN_LOAD();
	char *buf = malloc(N + 1); ASSUME(buf != 0);
	for (size_t i = 0; i < N; i++) { ASSUME(IN.s[i] != 0); buf[i] = IN.s[i]; }
	buf[N] = 0; g_src = buf;
	DString ds; ds.str = buf; ds.currentStringLength = N; ds.currentStringBufferSize = N + 1;
	static mmd_engine e; e.dstr = &ds; e.extensions = IN.ext & 0x1ffff; e.allow_meta = IN.allow_meta & 1;
	e.definition_stack = stack_new(0); e.header_stack = stack_new(0); e.table_stack = stack_new(0);
#ifdef T1
	IN.t1 = T1;                  /* first-token kind fixed per harness instance (the driver enumerates every kind the classifier switches on, plus 'any other') */
#endif
#ifdef T1_OTHER
	{ static const unsigned short SW[] = { SWITCHED_KINDS }; for (unsigned i = 0; i < sizeof SW / sizeof SW[0]; i++) ASSUME(IN.t1 != SW[i]); }
#endif
	ASSUME(IN.t1 >= BLOCK_BLOCKQUOTE && IN.t1 < 230 && IN.t2 >= BLOCK_BLOCKQUOTE && IN.t2 < 230);
	ASSUME(IN.l1 >= 1 && IN.l1 <= N && IN.l2 <= N - IN.l1);
#ifdef ONLY_BLANK
	ASSUME(IN.s[0] == ' ' && (IN.t1 == NON_INDENT_SPACE || IN.l1 == 1));     /* the line is nothing but its leading blank(s) */
#endif
	token *line = token_new(0, 0, N);
	token *a = token_new(IN.t1, 0, IN.l1); token_append_child(line, a);
#ifdef ONE_TOKEN
	IN.two = 0;                  /* heavy first-token kinds (list/rule markers): single-token lines in the quick tier */
#endif
	token *b = token_new(IN.t2, IN.l1, IN.l2); if (IN.two & 1) token_append_child(line, b);
	line->type = 0; line->start = 0; line->len = N;
	g_line_start = 0; g_first_start = 0;
	/* when the first token is non-indenting space the classifier looks at the second one */
	if ((IN.two & 1) && (IN.t1 == NON_INDENT_SPACE || (IN.t1 == TEXT_PLAIN && IN.l1 == 1))) g_first_start = IN.l1;
	mmd_assign_line_type(&e, line);
	int ok = 0; for (int i = 0; i < N_TERMS; i++) if (line->type == TERMS[i]) ok = 1;
	CHECK(line->type != 0, "every line receives a kind (a line without one ends the document for the block parser)");
	CHECK(ok, "the kind is one of the line kinds the block grammar accepts in every state");
	/* (a line that consists of nothing but one leading blank can only be the unterminated last line: nothing follows it) */
	int only_blank = (IN.t1 == NON_INDENT_SPACE || (IN.t1 == TEXT_PLAIN && IN.l1 == 1 && buf[0] == ' ')) && !(IN.two & 1);
	if (line->type == LINE_EMPTY && !only_blank) CHECK(!e.allow_meta, "an empty line (also one holding only indentation) ends the metadata block: later lines are never read as metadata");
	CHECK(!bad_pos, "line-level scanners are asked about the start of the line, token-level scanners about the first token");
	COVER_OPT(line->type == LINE_FENCE_BACKTICK_START_5); COVER_OPT(line->type == LINE_META); COVER_OPT(line->type == LINE_TABLE_SEPARATOR); COVER_OPT(line->type == LINE_PLAIN && n_scan >= 2); 
#ifndef ONE_TOKEN
	COVER(IN.two & 1);
#endif
	COVER(1);
	return 0;
}
