/* link-only stubs for the parser actions (never called by the edge extractor) */
void recursive_parse_indent(void *a, void *b) {} void recursive_parse_list_item(void *a, void *b) {} void recursive_parse_blockquote(void *a, void *b) {}
void strip_line_tokens_from_block(void *a, void *b) {} void is_para_html(void *a, void *b) {} void add_header(void *a, void *b) {} void is_list_loose(void *a) {}
