/* C02 (why LINE_TABLE_SEPARATOR never reaches a writer's token switch -- the writers have no case for it and take the "Unknown token type"
   escape, the HTML writer ending the process): every writer calls read_table_column_alignments (real writer.c) on the table before it walks
   the rows, and that call retypes the separator row -- the last row of the header section -- to TEXT_EMPTY.  Checked on the tree shapes
   the block parser builds (header section of 1..3 rows ending in the separator, optional body section), both for a table at block level
   and for a table that is the FIRST block of a list item: there the real recursive_parse_list_item re-inserts the list marker as first
   child of the first sub-block, i.e. in front of the table's sections.  mmd_parse_token_chain / deindent_block are stubs (the sub-parse
   installs the table block); scan_alignment_string answers anything. */
#include "vh.h"
#include <stdlib.h>
#include <string.h>
#include "libMultiMarkdown.h"
#include "mmd.h"
#include "d_string.h"
#include "token.h"
#include "stack.h"
#include "writer.h"
#include "parser.h"
void recursive_parse_list_item(mmd_engine *e, token *block);
struct in { unsigned char in_list, hrows, body, ncell; short al[3]; } IN;
#include "vh_in.h"
static token *table, *sep, *hdr;
size_t scan_alignment_string(const char *c) { static int k; return (size_t) IN.al[k < 3 ? k++ : 2]; }
void deindent_block(mmd_engine *e, token *block) {}
static token *row(unsigned short ty, size_t start, unsigned ncell) {
	token *r = token_new(ty, start, 4);
	token *c[3]; for (unsigned i = 0; i < 3; i++) { c[i] = token_new(TABLE_CELL, start + i, 1); if (i < ncell) token_append_child(r, c[i]); }
	return r;
}
static token *build_table(size_t start) {
	token *r0 = row(TABLE_ROW, start, IN.ncell), *r1 = row(TABLE_ROW, start + 4, IN.ncell);
	sep = row(LINE_TABLE_SEPARATOR, start + 8, IN.ncell);
	token *first = IN.hrows >= 2 ? r0 : (IN.hrows == 1 ? r1 : sep);        /* `table_header ::= LINE_TABLE_SEPARATOR.` : a header may be the separator alone */
	hdr = token_new_parent(first, BLOCK_TABLE_HEADER);
	if (IN.hrows >= 2) token_chain_append(first, r1);
	if (IN.hrows >= 1) token_chain_append(first, sep);
	token *t = token_new_parent(hdr, BLOCK_TABLE);
	if (IN.body & 1) { token *sec = token_new_parent(row(TABLE_ROW, start + 12, IN.ncell), BLOCK_TABLE_SECTION); token_chain_append(hdr, sec); }
	return t;
}
/* the sub-parse of the list item's lines yields one block: the table (which replaces the line chain under the item) */
void mmd_parse_token_chain(mmd_engine *e, token *chain) { table = build_table(2); chain->child = table; }
int main(void) {
	IN_LOAD();
	ASSUME(IN.hrows <= 2 && IN.ncell >= 1 && IN.ncell <= 3);
	static char src[24] = "* a|b\n-|-\nc|d\n";
	DString ds; ds.str = src; ds.currentStringLength = 16; ds.currentStringBufferSize = 24;
	static mmd_engine e; e.dstr = &ds;
	if (IN.in_list & 1) {
		token *item = token_new(BLOCK_LIST_ITEM, 0, 16), *line = token_new(LINE_LIST_BULLETED, 0, 6);
		token_append_child(line, token_new(MARKER_LIST_BULLET, 0, 2)); token_append_child(line, token_new(TEXT_PLAIN, 2, 1));
		token_append_child(item, line);
		recursive_parse_list_item(&e, item);
		CHECK(item->child == table, "harness: the table is the item's first block");
		CHECK(table->child && table->child->type == MARKER_LIST_BULLET, "the list marker is re-inserted in front of the first block's content");
	} else table = build_table(0);
	scratch_pad *sp = calloc(1, sizeof(scratch_pad)); ASSUME(sp != 0);
	read_table_column_alignments(src, table, sp);          /* what every writer does first in its BLOCK_TABLE case */
	for (token *r = hdr->child; r; r = r->next) CHECK(r->type != LINE_TABLE_SEPARATOR, "the separator row is neutralised before the writer walks the rows (no writer has a case for it)");
	CHECK(sep->type == TEXT_EMPTY, "the separator row is retyped to TEXT_EMPTY");
	CHECK(sp->table_column_count == IN.ncell, "one alignment per separator cell");
	COVER(IN.in_list & 1); COVER(!(IN.in_list & 1) && IN.hrows == 0); COVER((IN.body & 1) && IN.hrows == 2 && IN.ncell == 3);
	return 0;
}
