/* native helper: prints the shift/goto edge relation of the compiled tables by calling the real lookup code for all (state, symbol) */
#include "parser.c"
#include <stdio.h>
int main(void) {
	yyParser p;
	printf("N %d %d\n", YYNSTATE, YYSTACKDEPTH);
	for (int s = 0; s < YYNSTATE; s++) {
		for (int t = 0; t < YYNOCODE; t++) {
			unsigned a;
			if (t < NTERM) { if (s > YY_SHIFT_COUNT) continue; p.yytos = &p.yystack[1]; p.yystack[1].stateno = s; a = yy_find_shift_action(&p, (YYCODETYPE) t); }
			else { if (s > YY_REDUCE_COUNT) continue; int i = yy_reduce_ofst[s]; if (i == YY_REDUCE_USE_DFLT) continue; i += t; if (i < 0 || i >= YY_ACTTAB_COUNT || yy_lookahead[i] != t) continue; a = yy_action[i]; }
			if (a < YYNSTATE) printf("E %d %d %u\n", s, t, a);                     /* pushes state a on top of s */
			else if (a > YY_MAX_SHIFT && a <= YY_MAX_SHIFTREDUCE) printf("R %d %d %u\n", s, t, a);   /* shift-reduce: pushes one entry, then reduces */
		}
	}
	return 0;
}
