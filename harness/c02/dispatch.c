/* C02 item 3 (+ C17 reachability of the global generator): the big writer switch knows every token kind it can be handed.
   Real mmd_export_token_<writer> with the token kind ARBITRARY over the published enum (minus the kinds listed in never_exported.h, each
   with the reason it cannot reach a writer); the tree walkers are stubs; everything else the case bodies call is left abstract (any
   result): only the dispatch is judged.  The escape is observed by compiling the writer with -Dexit=verif_exit -Dfprintf=verif_fprintf. */
#include "vh.h"
#include <stdlib.h>
#include <stdio.h>
#include <string.h>
#include "libMultiMarkdown.h"
#include "mmd.h"
#include "d_string.h"
#include "token.h"
#include "stack.h"
#include "writer.h"
#include "parser.h"
#include "critic_markup.h"
#include "enum_list.h"          /* ALL_TYPES[] generated from the current header */
#include "never_exported.h"     /* NEVER[]: kinds that cannot reach this writer, from checks/C02.py with reasons */
void EXPORT(DString *out, const char *source, token *t, scratch_pad *scratch);
struct in { unsigned ti; unsigned long ext; unsigned char flags; } IN;
#include "vh_in.h"
static int unknown, exited, rng_used;
/* the obligations are asserted AT the escape, so that loop bounds inside case bodies (which iterate over strings returned by abstract callees and
   are cut at the unwinding bound without an unwinding assertion) cannot hide it: the switch reaches its default branch before any loop */
int verif_fprintf(FILE *f, const char *fmt, ...) { if (fmt[0] == 'U' && fmt[1] == 'n' && fmt[2] == 'k') { unknown = 1; CHECK(0, "no token kind takes the writer's 'Unknown token type' escape"); } return 0; }
void verif_exit(int c) { exited = 1; CHECK(0, "the writer never ends the host process"); ASSUME(0); }
static int cur_ty;
/* C17: the process-global generator of rng.c must not be touched by an export.  Listed finding `email_rng`: the e-mail autolink case does. */
#ifndef C17_RNG
#define RNG_OK 1            /* not this harness instance's subject (C02) */
#elif defined(KF_email_rng)
#define RNG_OK (cur_ty == PAIR_ANGLE)
#else
#define RNG_OK 0
#endif
long ran_num_next(void) { rng_used = 1; CHECK(RNG_OK, "no export step reads or writes the process-global obfuscation generator"); return 0; }
void ran_start(long s) { rng_used = 1; CHECK(RNG_OK, "no export step reads or writes the process-global obfuscation generator"); }
void TREE1(DString *out, const char *source, token *t, scratch_pad *scratch) {}
#ifdef TREE2
void TREE2(DString *out, const char *source, token *t, scratch_pad *scratch) {}
#endif
#ifdef TREE3
void TREE3(DString *out, const char *source, token *t, scratch_pad *scratch) {}
#endif
#ifdef TREE4
void TREE4(DString *out, const char *source, token *t, scratch_pad *scratch) {}
#endif
int main(void) {
	IN_LOAD();
	ASSUME(IN.ti < N_ALL_TYPES);
	int ty = ALL_TYPES[IN.ti];
	for (unsigned i = 0; i < N_NEVER; i++) ASSUME(ty != NEVER[i]);
	static char src[8] = "ab\ncd\n";
	scratch_pad *sp = calloc(1, sizeof(scratch_pad)); ASSUME(sp != 0);
	sp->extensions = IN.ext & 0x1ffff; sp->padded = 2; sp->close_para = 1; sp->base_header_level = 1; sp->output_format = FORMAT_HTML;
	sp->list_is_tight = IN.flags & 1; sp->odf_para_type = BLOCK_PARA;
	sp->header_stack = stack_new(0); sp->used_footnotes = stack_new(0); sp->used_citations = stack_new(0); sp->used_glossaries = stack_new(0); sp->used_abbreviations = stack_new(0);
	sp->critic_stack = stack_new(0); sp->outline_stack = stack_new(0);
	token *blk = token_new((unsigned short) ty, 0, 6);
	token *c1 = token_new(TEXT_PLAIN, 0, 2), *c2 = token_new(TEXT_NL, 2, 1), *c3 = token_new(TEXT_PLAIN, 3, 2);
	token_append_child(blk, c1); token_append_child(blk, c2); token_append_child(blk, c3);
	token *nx = token_new(TEXT_PLAIN, 6, 0); blk->next = nx; nx->prev = blk;
	DString *out = d_string_new("");
	cur_ty = ty;
	COVER(ty == BLOCK_PARA); COVER(ty == ALL_TYPES[N_ALL_TYPES - 1]); COVER(1);
	EXPORT(out, src, blk, sp);
	CHECK(!unknown, "no token kind takes the writer's 'Unknown token type' escape");
	CHECK(!exited, "the writer never ends the host process");
	if (ty != PAIR_ANGLE) CHECK(!rng_used, "only e-mail autolinks touch the process-global obfuscation generator");
	COVER_OPT(ty == PAIR_ANGLE && rng_used);
	return 0;
}
