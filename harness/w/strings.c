/* writer.c string kernels on arbitrary NUL-terminated input.
   MODE 0  (C11 c11_value, C01): clean_string(s,false,false) == reference "collapse runs of space/tab/CR/LF to one space, trim, keep every other byte"
   MODE 1  (C16): valid UTF-8 in -> label_from_string / clean_string(lowercase) / clean_string(url) give valid UTF-8 out
   MODE 2  (C11 c11_key, C10): label_from_string is idempotent and yields the documented normal form for keys over the key alphabet
   MODE 3  (C01): clean_string (all flag combinations), label_from_string, clean_string_from_range are memory safe on any input       */
#include "vh.h"
#include <stdlib.h>
#include <string.h>
#include "libMultiMarkdown.h"
#include "token.h"
#include "writer.h"
#ifndef N
#define N 5
#endif
struct in { size_t len; char s[N]; unsigned char f1, f2; size_t a, b; } IN;
#include "vh_in.h"
static int is_ws(char c) { return c == ' ' || c == '\t' || c == '\n' || c == '\r'; }
static int utf8_ok(const unsigned char *s, size_t n) {
	size_t i = 0; int g = 0;
	while (i < n && g <= N) { g++; unsigned char c = s[i];
		if (c < 0x80) { i++; continue; }
		if (c >= 0xC2 && c <= 0xDF) { if (i + 1 >= n || (s[i + 1] & 0xC0) != 0x80) return 0; i += 2; continue; }
		if (c >= 0xE0 && c <= 0xEF) { if (i + 2 >= n || (s[i + 1] & 0xC0) != 0x80 || (s[i + 2] & 0xC0) != 0x80) return 0; if (c == 0xE0 && s[i + 1] < 0xA0) return 0; if (c == 0xED && s[i + 1] >= 0xA0) return 0; i += 3; continue; }
		if (c >= 0xF0 && c <= 0xF4) { if (i + 3 >= n || (s[i + 1] & 0xC0) != 0x80 || (s[i + 2] & 0xC0) != 0x80 || (s[i + 3] & 0xC0) != 0x80) return 0; if (c == 0xF0 && s[i + 1] < 0x90) return 0; if (c == 0xF4 && s[i + 1] >= 0x90) return 0; i += 4; continue; }
		return 0; }
	return i == n;
}
static size_t slen(const char *s) { size_t n = 0; while (s[n] && n <= N + 1) n++; return n; }
int main(void) {
	IN_LOAD();
	size_t len = IN.len; ASSUME(len <= N);
	/* constant-size object (a symbolic-size one sends CBMC into array theory); the string is placed at its END so that the NUL is the
	   last byte of the object: any read past the NUL is out of bounds, and for len == N so is any read before the start */
	char *buf = malloc(N + 1); ASSUME(buf != 0);
	char *in = buf + (N - len);
	for (size_t i = 0; i < N; i++) if (i < len) { ASSUME(IN.s[i] != 0); in[i] = IN.s[i]; }
	in[len] = 0;
#if MODE == 0
	for (size_t i = 0; i < N; i++) if (i < len) ASSUME(in[i] != '\\');      /* the backslash-newline rule is documented separately */
#ifdef KF_amp
	for (size_t i = 0; i < N; i++) if (i < len) ASSUME(in[i] != '&');
#endif
	char ref[N + 1]; size_t r = 0; int pend = 0;
	for (size_t i = 0; i < N; i++) if (i < len) { if (is_ws(in[i])) { if (r > 0) pend = 1; } else { if (pend) { ref[r++] = ' '; pend = 0; } ref[r++] = in[i]; } }
	ref[r] = 0;
	char *out = clean_string(in, false, false);
	CHECK(out != 0, "clean_string returns a string");
	CHECK(slen(out) == r, "metadata value: whitespace-normalised length (no character lost or added)");
	for (size_t i = 0; i < N; i++) if (i < r) CHECK(out[i] == ref[i], "metadata value: every non-whitespace byte kept, runs of whitespace become one space");
	COVER(r + 2 <= len && r >= 3); COVER(len == N);
#elif MODE == 1
	ASSUME(utf8_ok((unsigned char *) in, len));
#if F1 == 0
	char *out = label_from_string(in);
#else
	char *out = clean_string(in, F1 == 1, F1 == 2);
#endif
	CHECK(out != 0, "returns a string");
	size_t ol = slen(out);
	CHECK(ol <= len + 1, "no growth");
	CHECK(utf8_ok((unsigned char *) out, ol), "valid UTF-8 in -> valid UTF-8 out (no multi-byte character split, truncated or case-mapped bytewise)");
	COVER(ol >= 3 && (unsigned char) out[0] >= 0xE0); COVER(ol >= 2 && (unsigned char) out[0] >= 0xC2); COVER(len == N && (unsigned char) in[0] >= 0xF0);
#elif MODE == 2
	char *l1 = label_from_string(in);
	CHECK(l1 != 0, "label exists");
	char *l2 = label_from_string(l1);
	size_t n1 = slen(l1), n2 = slen(l2);
	CHECK(n1 == n2, "label_from_string is idempotent (length)");
	for (size_t i = 0; i < N; i++) if (i < n1) CHECK(l1[i] == l2[i], "label_from_string is idempotent (bytes): a normalised key finds itself");
	/* documented normal form on the key alphabet: lower-case, spaces removed, everything else of the alphabet kept */
	int alpha = 1; for (size_t i = 0; i < N; i++) if (i < len) { char c = in[i]; if (!((c >= '0' && c <= '9') || (c >= 'a' && c <= 'z') || (c >= 'A' && c <= 'Z') || c == ' ' || c == '.' || c == '_' || c == '-')) alpha = 0; }
	if (alpha) {
		char ref[N + 1]; size_t r = 0;
		for (size_t i = 0; i < N; i++) if (i < len && in[i] != ' ') ref[r++] = (in[i] >= 'A' && in[i] <= 'Z') ? in[i] + 32 : in[i];
		CHECK(n1 == r, "key normal form: only spaces are dropped");
		for (size_t i = 0; i < N; i++) if (i < r) CHECK(l1[i] == ref[i], "key normal form: lower-cased, order kept");
	}
	COVER(alpha && n1 + 1 <= len && n1 >= 2); COVER(!alpha && n1 > 0);
#elif MODE == 3
	ASSUME(IN.f1 <= 1 && IN.f2 <= 1);
	char *c = clean_string(in, IN.f1, IN.f2);
	CHECK(c != 0 && slen(c) <= len, "clean_string never grows the text");
	char *l = label_from_string(in);
	CHECK(l != 0 && slen(l) <= len, "label_from_string never grows the text");
	size_t st = IN.a, ln = IN.b; ASSUME(st <= len && ln <= len - st);
	char *r = clean_string_from_range(in, st, ln, IN.f1);
	CHECK(r != 0 && slen(r) <= ln, "clean_string_from_range stays inside the range");
	COVER(IN.f2 && slen(c) + 4 <= len); COVER(ln > 0 && st > 0);
#endif
	COVER(1);
	return 0;
}
