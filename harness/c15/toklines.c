/* C15 / C02 / C11: the tokeniser driver (real mmd.c mmd_tokenize_string) around an ABSTRACT lexer and line classifier.
   scan() is a stub obeying the contract proved of the real lexer by c15_lexer_spans (token non-empty, at or after the resume point --
   bytes no rule matches are skipped one at a time --, ending at or before `stop`, 0 once the resume point reaches `stop`), with token
   kinds, lengths and skips symbolic; mmd_assign_line_type is a stub that records its calls and gives the line an arbitrary kind.
   Proved for every such lexer behaviour on a range of SPAN bytes starting at an arbitrary offset:
     - the leaf tokens of the lines, in order, tile [start, start+len) exactly: no source byte lost, none covered twice, every token
       non-empty (skipped bytes become TEXT_PLAIN; a line break followed by one blank is split into the break and a 1-byte blank);
     - every line is a child of the root, classified exactly once and after its last token was appended, and spans exactly its tokens;
     - a line ends at a line-break token and only there;
     - the metadata gate: metadata is allowed iff neither EXT_COMPATIBILITY nor EXT_NO_METADATA is set, the first line is classified under
       that setting, and once the first line is not a metadata line (or the block is closed) no later line is classified with it open;
     - with stop_on_empty_line the scan ends right after the first empty line and the tiling holds up to there. */
#include "vh.h"
#include <stdlib.h>
#include <string.h>
#include "libMultiMarkdown.h"
#include "mmd.h"
#include "d_string.h"
#include "token.h"
#include "lexer.h"
#include "scanners.h"
#include "parser.h"
#ifndef SPAN
#define SPAN 4
#endif
#define OFF_MAX 2
#define MAXCALL (SPAN + 2)
token * mmd_tokenize_string(mmd_engine * e, size_t start, size_t len, bool stop_on_empty_line);
struct in { unsigned long ext; size_t off; size_t len; unsigned char stop_empty; unsigned char skip[MAXCALL]; unsigned char tl[MAXCALL]; unsigned short ty[MAXCALL]; unsigned short lt[MAXCALL]; unsigned char empty_meta; } IN;
#include "vh_in.h"
static char buf[OFF_MAX + SPAN + 1];
static int n_scan, n_cls, gate_at_cls[MAXCALL], cls_tail_ok = 1; static token *cls_line[MAXCALL]; static unsigned short cls_type[MAXCALL];
static int is_nl(int t) { return t == TEXT_NL || t == TEXT_LINEBREAK || t == TEXT_NL_SP || t == TEXT_LINEBREAK_SP; }
int scan(Scanner *s, const char *stop) {
	int i = n_scan < MAXCALL ? n_scan : MAXCALL - 1; n_scan++;
	unsigned k = IN.skip[i]; ASSUME(k <= 2);        /* 0: token right here; 1 and 2 reach both end-of-input branches of the driver */
	for (unsigned j = 0; j < SPAN + 1; j++) {
		if (s->cur >= stop) return 0;
		s->start = s->cur;
		if (j >= k) break;
		s->cur++;                              /* a byte no rule matches */
	}
	if (s->cur >= stop) return 0;
	size_t tl = IN.tl[i]; ASSUME(tl >= 1 && tl <= (size_t) (stop - s->cur));
	int ty = IN.ty[i]; ASSUME(ty >= BLOCK_BLOCKQUOTE && ty < 230);
	if (ty == TEXT_NL_SP || ty == TEXT_LINEBREAK_SP) ASSUME(tl >= 2);      /* these rules match the break plus one blank */
	s->cur += tl;
	return ty;
}
void mmd_assign_line_type(mmd_engine *e, token *line) {
	int i = n_cls < MAXCALL ? n_cls : MAXCALL - 1; n_cls++;
	gate_at_cls[i] = e->allow_meta; cls_line[i] = line;
	unsigned short lt = IN.lt[i]; ASSUME(lt == LINE_PLAIN || lt == LINE_META || lt == LINE_EMPTY || lt == LINE_SETEXT_2 || lt == LINE_ATX_1);
	if (!line->child) lt = LINE_EMPTY;
	if (lt == LINE_EMPTY && e->allow_meta) e->allow_meta = 0;   /* as the real classifier does (c02/c11_linetype_*) */
	if (lt == LINE_META && !e->allow_meta) lt = LINE_PLAIN;
	line->type = lt; cls_type[i] = lt;
}
size_t scan_empty_meta_line(const char *c) { return IN.empty_meta & 1; }
int main(void) {
	IN_LOAD();
	size_t off = IN.off, len = IN.len; ASSUME(off <= OFF_MAX && len <= SPAN);
	for (int i = 0; i < OFF_MAX + SPAN; i++) buf[i] = 'a';
	DString ds; ds.str = buf; ds.currentStringLength = OFF_MAX + SPAN; ds.currentStringBufferSize = sizeof buf;
	static mmd_engine e; e.dstr = &ds; e.extensions = IN.ext & 0x1ffff; e.allow_meta = 0;
	int stop_empty = IN.stop_empty & 1;
	token *root = mmd_tokenize_string(&e, off, len, stop_empty);
	CHECK(root != 0 && root->type == 0 && root->start == off, "a root token at the start of the range");
	int expect_gate = !(e.extensions & EXT_COMPATIBILITY) && !(e.extensions & EXT_NO_METADATA);
	CHECK(n_cls >= 1 && gate_at_cls[0] == expect_gate, "the first line is classified with metadata allowed iff neither compatibility mode nor no-metadata is set");
	/* walk: lines under root, leaves under lines */
	size_t pos = off; int nl = 0; int early = 0;
	token *l = root->child;
	for (int li = 0; li < MAXCALL; li++) {
		if (!l) break;
		CHECK(li < n_cls && cls_line[li] == l, "lines hang under the root in the order they were classified, each classified once");
		CHECK(l->start == pos, "a line starts where the previous one ended");
		token *t = l->child; int ended = 0;
		for (int ti = 0; ti < MAXCALL; ti++) {
			if (!t) break;
			CHECK(!ended, "a line-break token is the last token of its line");
			CHECK(t->start == pos, "tokens tile the range: no byte lost, none covered twice");
			CHECK(t->len >= 1, "no empty token");
			CHECK(t->type != TEXT_NL_SP && t->type != TEXT_LINEBREAK_SP, "break-plus-blank tokens are split");
			pos += t->len;
			if (is_nl(t->type)) ended = 1;
			t = t->next;
		}
		CHECK(t == 0, "walk complete");
		CHECK(l->start + l->len == pos || !l->child, "a line spans exactly its tokens");
		if (!ended) CHECK(l->next == 0, "only the last line lacks a line break");
		if (stop_empty && ended && l->type == LINE_EMPTY) { CHECK(l->next == 0, "stop_on_empty_line: nothing after the first empty line"); early = 1; }
		nl++; l = l->next;
	}
	CHECK(l == 0, "walk complete");
	CHECK(nl == n_cls, "every classified line is in the tree");
	if (!early) CHECK(pos == off + len, "the tokens cover the whole requested range"); else CHECK(pos <= off + len, "inside the range");
	/* the gate after the first line */
	if (n_cls >= 2) {
		int first = cls_type[0];
		int stays = expect_gate && (first == LINE_SETEXT_2 || (first == LINE_META && !(IN.empty_meta & 1)));
		if (!stays) for (int i = 1; i < MAXCALL; i++) if (i < n_cls) CHECK(!gate_at_cls[i], "once the first line is not metadata, no later line is classified with the metadata gate open");
		if (expect_gate && first == LINE_META && (IN.empty_meta & 1) && root->child && root->child->next) CHECK(root->child->type == LINE_PLAIN, "an empty `key:` first line does not start metadata");
		if (expect_gate && first == LINE_SETEXT_2 && root->child && root->child->next) CHECK(root->child->type == LINE_YAML, "a first-line --- opens a YAML block");
	}
	COVER(nl >= 3); COVER(n_cls >= 2 && gate_at_cls[1]); COVER(early && pos < off + len); COVER(off > 0 && len == SPAN && nl == 1);
	COVER(root->child && root->child->next && !root->child->next->child);           /* trailing empty line after a final newline */
	COVER(root->child && root->child->next && root->child->next->child && root->child->next->child->type == NON_INDENT_SPACE);
	COVER(root->child && root->child->child && root->child->child->type == TEXT_PLAIN && IN.skip[0] > 0);
	return 0;
}
