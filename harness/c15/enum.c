/* C15: relations between the published token kinds and the library's own tables (exhaustive: every enumerator of the current headers) */
#include "vh.h"
#include "libMultiMarkdown.h"
#include "parser.h"
#include "token_pairs.h"
#include "critic_markup.h"
#include "enum_list.h"        /* generated from the current headers: ALL_TYPES[], PARSER_DEFS[], PAIRING_TYPES[] */
struct in { unsigned i, j, k; } IN;
#include "vh_in.h"
int main(void) {
	IN_LOAD();
	ASSUME(IN.i < N_ALL_TYPES && IN.j < N_PARSER_DEFS && IN.k < N_PAIRING_TYPES);
	CHECK(ALL_TYPES[IN.i] >= 0 && ALL_TYPES[IN.i] < kMaxTokenTypes, "every published token kind indexes inside the pairing tables (kMaxTokenTypes)");
	CHECK(PARSER_DEFS[IN.j] < BLOCK_BLOCKQUOTE, "BLOCK_BLOCKQUOTE starts after the largest number in parser.h");
	CHECK(PARSER_DEFS[IN.j] > 0, "parser token codes are positive (0 is DOC_START_TOKEN / end of input)");
	CHECK(PAIRING_TYPES[IN.k] >= 0 && PAIRING_TYPES[IN.k] < kMaxTokenTypes, "every type used in a pairing rule indexes inside the tables");
	CHECK(DOC_START_TOKEN == 0, "DOC_START_TOKEN is 0");
	/* runs the code does arithmetic on */
	CHECK(HASH2 == HASH1 + 1 && HASH3 == HASH1 + 2 && HASH4 == HASH1 + 3 && HASH5 == HASH1 + 4 && HASH6 == HASH1 + 5, "HASH1..6 contiguous");
	CHECK(MARKER_H2 == MARKER_H1 + 1 && MARKER_H3 == MARKER_H1 + 2 && MARKER_H4 == MARKER_H1 + 3 && MARKER_H5 == MARKER_H1 + 4 && MARKER_H6 == MARKER_H1 + 5, "MARKER_H1..6 contiguous");
	CHECK(BLOCK_H2 == BLOCK_H1 + 1 && BLOCK_H3 == BLOCK_H1 + 2 && BLOCK_H4 == BLOCK_H1 + 3 && BLOCK_H5 == BLOCK_H1 + 4 && BLOCK_H6 == BLOCK_H1 + 5, "BLOCK_H1..6 contiguous");
	CHECK(LINE_ATX_2 == LINE_ATX_1 + 1 && LINE_ATX_3 == LINE_ATX_1 + 2 && LINE_ATX_4 == LINE_ATX_1 + 3 && LINE_ATX_5 == LINE_ATX_1 + 4 && LINE_ATX_6 == LINE_ATX_1 + 5, "LINE_ATX_1..6 contiguous");
	CHECK(MARKER_SETEXT_2 == MARKER_SETEXT_1 + 1 && LINE_SETEXT_2 == LINE_SETEXT_1 + 1 && BLOCK_SETEXT_2 == BLOCK_SETEXT_1 + 1, "SETEXT runs contiguous");
	/* no two enumerators / parser codes share a number (a kind keeps one meaning) */
	for (unsigned a = 0; a < N_ALL_TYPES; a++) if (a != IN.i) CHECK(ALL_TYPES[a] != ALL_TYPES[IN.i], "token kinds are distinct");
	for (unsigned a = 0; a < N_PARSER_DEFS; a++) CHECK(PARSER_DEFS[a] != ALL_TYPES[IN.i] , "parser line codes and token kinds do not collide");
	COVER(IN.i == N_ALL_TYPES - 1); COVER(IN.j == N_PARSER_DEFS - 1);
	COVER(1);
	return 0;
}
