/* C15 (and C01 c01_token_ops): one tree-surgery primitive of token.c from an ARBITRARY chain satisfying INV.
   Built with -DDISABLE_OBJECT_POOL so that token_free is real: walking the surviving tree after the operation touches no
   freed object (CBMC pointer checks), which is the C01 half. */
#include "vh.h"
#include <stdlib.h>
#include "token.h"
void fix_token_chain_tail(token *t);
#ifndef K
#define K 4           /* tokens in the sibling chain */
#endif
#define SRCLEN 40
struct in {
	int n;                               /* chain length 1..K */
	size_t gap[K], len[K];               /* spans: start[i] = end of previous + gap */
	unsigned short type[K];
	unsigned char has_child[K];          /* token i has a 2-token child chain inside its span */
	int ma, mb;                          /* one mated pair (ma<mb) or none */
	int a, b;                            /* operation operands (indices) */
	size_t s_start, s_len; unsigned short s_type;   /* token_split arguments */
	size_t t_gap, t_len;                 /* appended token */
	char src[SRCLEN]; char c;            /* for split_on_char */
} IN;
#include "vh_in.h"

static token *tk[K];
static size_t srclen_used;

/* INV over a sibling chain starting at head (checked, bounded walk) */
static int inv_chain(token *head, size_t lo, size_t hi, int depth) {
	if (!head) return 1;
	if (head->prev) return 0;
	token *t = head; int c = 0; size_t last_start = lo;
	while (t) {
		if (c > K + 3) return 0;                                /* finite */
		if (t->start < last_start) return 0;                    /* non-decreasing source order */
		if (t->start + t->len > hi || t->start + t->len < t->start) return 0;   /* inside the source / the parent */
		if (t->next && t->next->prev != t) return 0;            /* doubly linked */
		if (t->mate && t->mate->mate != t) return 0;            /* mates point at each other */
		if (depth < 2 && t->child && !inv_chain(t->child, t->start, t->start + t->len, depth + 1)) return 0;
		last_start = t->start; t = t->next; c++;
	}
	return 1;
}
static token *last_of(token *h) { int c = 0; while (h && h->next && c <= K + 3) { h = h->next; c++; } return h; }

int main(void) {
	IN_LOAD();
	int n = IN.n; ASSUME(n >= 1 && n <= K);
	size_t pos = 0; token *head = 0;
	for (int i = 0; i < K; i++) {
		ASSUME(IN.gap[i] <= 2 && IN.len[i] <= 4 && IN.type[i] < 230);
		pos += IN.gap[i];
		token *t = token_new(IN.type[i], pos, IN.len[i]); ASSUME(t != 0);
		if (IN.has_child[i] && IN.len[i] >= 2) {
			token *c1 = token_new(1, pos, 1), *c2 = token_new(2, pos + 1, IN.len[i] - 1); ASSUME(c1 != 0 && c2 != 0);
			token_append_child(t, c1); token_append_child(t, c2);
		}
		pos += IN.len[i]; tk[i] = t;
		if (!head) head = t; else token_chain_append(head, t);
	}
	/* cut the maximal shape at the symbolic length n */
	if (n < K) { token *cut = tk[n]; tk[n - 1]->next = 0; head->tail = tk[n - 1]; cut->prev = 0; }
	srclen_used = SRCLEN;
	if (IN.ma >= 0 && IN.ma < IN.mb && IN.mb < n) { tk[IN.ma]->mate = tk[IN.mb]; tk[IN.mb]->mate = tk[IN.ma]; }
	ASSUME(inv_chain(head, 0, SRCLEN, 0));       /* pre-state satisfies INV (construction + assumption) */
	ASSUME(head->tail == last_of(head));
	int a = IN.a, b = IN.b; ASSUME(0 <= a && a <= b && b < n);
	token *first = tk[a], *last = tk[b];
	token *res = head;

#if OP == 0      /* token_prune_graft(first, last, type) */
	token *c = token_prune_graft(first, last, 77);
	CHECK(c == first && c->type == 77, "prune_graft returns the container in place of first");
	CHECK(c->child != 0 && c->child->prev == 0, "container has the grafted chain as children");
	CHECK(inv_chain(c->child, c->start, c->start + c->len, 1), "grafted children satisfy INV inside the container span");
	CHECK(c->start + c->len == tk[b]->start + tk[b]->len || a == b, "container spans first..last");
	CHECK(head->tail == last_of(head), "outer chain tail is the last sibling");
	COVER(a == b); COVER(a < b && b == n - 1); COVER(a == 0 && b < n - 1); COVER(first->mate != 0 || c->child->mate != 0);
#elif OP == 1    /* tokens_prune(first, last), first not the head (callers re-point the parent otherwise) */
	ASSUME(a > 0);
	ASSUME(!(IN.ma >= 0 && IN.ma < IN.mb && IN.mb < n && ((IN.ma >= a && IN.ma <= b) != (IN.mb >= a && IN.mb <= b))));  /* pruned tokens are not mated to survivors */
	tokens_prune(first, last);
	CHECK(head->tail == last_of(head), "outer chain tail is the last sibling");
	COVER(b == n - 1); COVER(b < n - 1); COVER(a < b);
#elif OP == 2    /* token_pop_link_from_chain(t) */
	ASSUME(a > 0);
	ASSUME(tk[a]->mate == 0);
	token_pop_link_from_chain(first);
	CHECK(first->next == 0 && first->prev == 0 && first->tail == first, "popped token is a singleton chain");
	CHECK(head->tail == last_of(head), "outer chain tail is the last sibling");
	COVER(a == n - 1); COVER(a < n - 1);
#elif OP == 3    /* token_split(t, start, len, new_type) */
	ASSUME(IN.s_start <= SRCLEN && IN.s_len <= SRCLEN && IN.s_type < 230);      /* callers pass a match span found inside the token: no wrap */
	ASSUME(first->child == 0);          /* only leaf text tokens are split (writer.c automatic_search) */
	token_split(first, IN.s_start, IN.s_len, IN.s_type);
	if (head->tail != last_of(head)) fix_token_chain_tail(head);     /* callers do not rely on tail after a split */
	COVER(first->next != 0 && first->next->type == IN.s_type && first->next->next != 0 && first->next->next->start == IN.s_start + IN.s_len);
	COVER(first->type == IN.s_type && a < n - 1); COVER(IN.s_start > first->start && a == n - 1);
#elif OP == 4    /* token_append_child(parent, t): t lies after the existing children (callers append in source order) */
	{
		token *p = first; size_t end = p->start + p->len;
		ASSUME(IN.t_gap <= 2 && IN.t_len <= 3);
		if (p->child == 0) end = p->start;
		token *t = token_new(9, end + IN.t_gap, IN.t_len); ASSUME(t != 0);
		token *next_sib = p->next;
		ASSUME(next_sib == 0 || end + IN.t_gap + IN.t_len <= next_sib->start);
		token_append_child(p, t);
		CHECK(p->child->tail == t && last_of(p->child) == t, "appended token is the last child and the recorded tail");
		CHECK(p->start + p->len == t->start + t->len, "parent span ends where the last child ends");
		COVER(p->child != t); COVER(p->child == t);
	}
#elif OP == 5    /* token_new_parent(child chain, type) */
	{
		token *p = token_new_parent(head, 55);
		CHECK(p != 0 && p->child == head && p->type == 55, "new parent adopts the chain");
		CHECK(p->start == head->start && p->start + p->len == last_of(head)->start + last_of(head)->len, "parent spans exactly its children");
		CHECK(inv_chain(p, 0, SRCLEN, 0), "INV holds for the new parent");
		COVER(n == K); COVER(n == 1);
	}
#elif OP == 6    /* token_remove_first_child / token_remove_last_child / token_remove_tail */
	{
		token *p = token_new_parent(head, 55); ASSUME(p != 0);
		ASSUME(IN.ma < 0);
		if (IN.s_type == 0) { token *second = head->next; token_remove_first_child(p); CHECK(p->child == second, "first child removed"); res = p->child; if (res) CHECK(res->tail == last_of(res), "tail handed to the new first child"); }
		else if (IN.s_type == 1) { token_remove_last_child(p); res = p->child; if (n > 1) CHECK(last_of(res) == tk[n - 2] && res->tail == tk[n - 2], "last child removed"); else res = 0; }
		else { ASSUME(n > 1); token_remove_tail(head); CHECK(last_of(head) == tk[n - 2] && head->tail == tk[n - 2], "tail removed"); }
		COVER(IN.s_type == 0 && n > 1); COVER(IN.s_type == 1 && n > 1); COVER(IN.s_type > 1);
	}
#elif OP == 7    /* token_chain_append(head, t) */
	{
		size_t end = last_of(head)->start + last_of(head)->len;
		ASSUME(IN.t_gap <= 2 && IN.t_len <= 3);
		token *t = token_new(9, end + IN.t_gap, IN.t_len); ASSUME(t != 0);
		token_chain_append(head, t);
		CHECK(head->tail == t && last_of(head) == t, "appended token is last and recorded as tail");
		COVER(n == K);
	}
#elif OP == 8    /* token_split_on_char(t, source, c): the link-definition extractor splits `url class="x"` at blanks */
	{
		ASSUME(first->child == 0 && first->mate == 0);          /* a leaf text token (writer.c definition_extract) */
		size_t o_start = first->start, o_end = first->start + first->len; token *after = first->next;
		token_split_on_char(first, IN.src, IN.c);
		if (head->tail != last_of(head)) fix_token_chain_tail(head);
		int pieces = 0; token *t = first;
		for (int i = 0; i < 6; i++) {
			if (t == after || !t) break;
			pieces++;
			CHECK(t->start >= o_start && t->start + t->len <= o_end, "a piece lies inside the token that was split");
			if (t->next != after) CHECK(t->start + t->len + 1 == t->next->start && IN.src[t->start + t->len] == IN.c, "consecutive pieces are separated by exactly the split character");
			t = t->next;
		}
		CHECK(t == after, "the pieces are followed by the old successor");
		COVER(pieces == 3); COVER(pieces == 2 && after != 0); COVER(pieces == 1);
	}
#endif
	/* INV is re-established; walking the result touches only live objects */
	if (res) CHECK(inv_chain(res, 0, SRCLEN, 0), "INV after the operation: doubly linked, source order, spans inside, mates symmetric");
	COVER(n == K); COVER(IN.has_child[0] && IN.len[0] >= 2);
	COVER(1);
	return 0;
}
