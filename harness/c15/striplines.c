/* C15 / C02: line stripping (real mmd.c strip_line_tokens_from_block) -- after the block parser has grouped lines into a block, the line
   tokens are dissolved and their contents moved directly under the block.  From a block of BT (fixed per instance) holding 1..3 lines of
   arbitrary strippable kinds, each with 0..2 children (indentation or text):
     - the block's children are a well-formed sibling chain: head.prev NULL, doubly linked, source order, head.tail == last;
     - nothing but leading indentation disappears: every text token that was in a line is under the block afterwards, in the same order
       (setext underlines wrapped in their marker token), and nothing else appears;
     - the block still spans up to the end of its last remaining token; pool disabled: no freed token is reachable (CBMC pointer checks). */
#include "vh.h"
#include <stdlib.h>
#include <string.h>
#include "libMultiMarkdown.h"
#include "mmd.h"
#include "d_string.h"
#include "token.h"
#include "parser.h"
void strip_line_tokens_from_block(mmd_engine *e, token *block);
#ifndef L
#define L 2
#endif
#define CH 2
struct in { int nl; unsigned char lk[L]; unsigned char ck[L][CH]; } IN;
#include "vh_in.h"
static const unsigned short LK[] = { LINE_PLAIN, LINE_CONTINUATION, LINE_EMPTY, LINE_INDENTED_TAB, LINE_INDENTED_SPACE, LINE_ATX_2, LINE_BLOCKQUOTE, LINE_LIST_BULLETED, LINE_SETEXT_1, LINE_SETEXT_2, LINE_META, LINE_TABLE, LINE_DEFINITION };
#define NLK (sizeof LK / sizeof LK[0])
static const unsigned short CK[] = { TEXT_PLAIN, NON_INDENT_SPACE, INDENT_SPACE, INDENT_TAB, TEXT_NL };
#define NCK 5
/* freeing is recorded, not executed (the mutual recursion of token_free / token_tree_free over a symbolic heap has no verdict; the real pair is
   the subject of c15_ops_* and c01_reset_ownership): a freed token is marked and must not be reachable from the block afterwards */
#define FREED 999
static int n_freed;
void token_free(token *t) { if (t) { CHECK(t->type != FREED, "no token is freed twice"); t->type = FREED; n_freed++; } }
void token_tree_free(token *t) { for (int i = 0; i < L + 1; i++) { if (!t) break; token *n = t->next; CHECK(t->child == 0, "a dissolved line no longer owns children (they moved to the block)"); token_free(t); t = n; } }
void parse_table_row_into_cells(token *row) {}
void strip_leading_whitespace(token *chain, const char *source) {}
void strip_line_tokens_from_metadata(mmd_engine *e, token *block) {}
void strip_line_tokens_from_deflist(mmd_engine *e, token *block) {}
void strip_line_tokens_from_table(mmd_engine *e, token *block) {}
int main(void) {
	IN_LOAD();
	int nl = IN.nl; ASSUME(nl >= 1 && nl <= L);
	static char src[32] = "abcdefghijklmnopqrstuvwxyz01234";
	DString ds; ds.str = src; ds.currentStringLength = 31; ds.currentStringBufferSize = 32;
	static mmd_engine e; e.dstr = &ds;
	token *block = token_new(BT, 0, 0);
	/* the maximal shape is built unconditionally (every line: a leading token of any kind + a text/newline token) and cut at the symbolic
	   line count; token KINDS are data, the shape is fixed */
	token *line[L], *tk[L][CH]; int keep[L][CH]; size_t pos = 0;
	for (int i = 0; i < L; i++) {
#ifdef LK0
		IN.lk[i] = (i == 0) ? LK0 : LK1;          /* line kinds enumerated by the driver */
#endif
		ASSUME(IN.lk[i] < NLK);
		line[i] = token_new(LK[IN.lk[i]], pos, 0);
		for (int j = 0; j < CH; j++) {
			ASSUME(IN.ck[i][j] < NCK);
			unsigned short k = CK[IN.ck[i][j]];
			if (j > 0) ASSUME(k == TEXT_PLAIN || k == TEXT_NL);                                  /* indentation only leads a line */
			tk[i][j] = token_new(k, pos, 2); pos += 2;
			token_append_child(line[i], tk[i][j]);
			int nis = (k == NON_INDENT_SPACE), ind = (k == INDENT_SPACE || k == INDENT_TAB);
			unsigned short lt = LK[IN.lk[i]]; int setext_line = (lt == LINE_SETEXT_1 || lt == LINE_SETEXT_2);
			if (lt == LINE_DEFINITION && j == 0) ASSUME(k == TEXT_PLAIN);                          /* a definition line starts with its colon */
			/* what may disappear: a leading non-indenting blank (not in fenced code), ONE leading indent (not in fenced code / html, not on a setext underline) */
			keep[i][j] = !(j == 0 && ((nis && BT != BLOCK_CODE_FENCED) || (ind && !setext_line && BT != BLOCK_CODE_FENCED && BT != BLOCK_HTML)));
		}
		if (i == 0) token_append_child(block, line[i]); else token_chain_append(line[0], line[i]);
	}
	if (nl < L) { line[nl - 1]->next = 0; line[0]->tail = line[nl - 1]; line[nl]->prev = 0; pos = 2 * CH * nl; }
	block->len = pos;
	if (BT == BLOCK_CODE_INDENTED) ASSUME(LK[IN.lk[0]] == LINE_INDENTED_TAB || LK[IN.lk[0]] == LINE_INDENTED_SPACE);
	if (BT == BLOCK_CODE_INDENTED) ASSUME(LK[IN.lk[nl - 1]] != LINE_EMPTY);       /* trailing empty lines of indented code are dropped on purpose: not this harness's subject */
	size_t end = pos;
	strip_line_tokens_from_block(&e, block);
	/* expected survivors, in order: keep[i][j] for i < nl */
	token *h = block->child; token *last = 0; size_t prev_start = 0; int c = 0;
	if (h) CHECK(h->prev == 0, "first child has no predecessor");
	token *t = h;
	for (int i = 0; i < L; i++) {
		if (i >= nl) break;
		int setext = (line[i]->type == LINE_SETEXT_1 || line[i]->type == LINE_SETEXT_2) || 0;
		unsigned short lt = LK[IN.lk[i]];
		setext = (lt == LINE_SETEXT_1 || lt == LINE_SETEXT_2);
		token *wrap = 0;
		if (setext) { CHECK(t != 0 && (t->type == MARKER_SETEXT_1 || t->type == MARKER_SETEXT_2), "a setext underline is wrapped in its marker token"); wrap = t; t = t ? t->child : 0; }
		for (int j = 0; j < CH; j++) {
			if (!keep[i][j]) continue;
			CHECK(t == tk[i][j], "every kept token of every line is under the block, in line order (nothing lost, nothing invented)");
			if (t) CHECK(t->type != FREED, "no freed token is reachable from the block");
			if (!t) break;
			if (!wrap) { CHECK(t->start >= prev_start, "source order"); if (t->next) CHECK(t->next->prev == t, "doubly linked"); prev_start = t->start; last = t; c++; }
			t = t->next;
		}
		if (wrap) { CHECK(t == 0, "nothing else inside the marker"); if (wrap->next) CHECK(wrap->next->prev == wrap, "doubly linked"); last = wrap; c++; t = wrap->next; }
	}
	CHECK(t == 0, "nothing follows the last kept token");
	if (h) CHECK(h->tail == last, "the first child records the last one as tail");
	if (h) CHECK(block->start + block->len == last->start + last->len, "the block ends where its last child ends");
	int ntext = c;
	COVER(nl == L); COVER_OPT(ntext >= 3); COVER(nl == 1); COVER_OPT(h && (h->type == MARKER_SETEXT_1 || (h->next && h->next->type == MARKER_SETEXT_2)));
	return 0;
}
