/* C15 / C01: line surgery of the block parser (real mmd.c deindent_line, strip_quote_markers_from_line, prune_first_child_from_line) on a line
   token whose children are an arbitrary chain of <= 3 tokens (kinds, lengths and source bytes symbolic): afterwards the children are still a
   well-formed sibling chain (head.prev NULL, doubly linked, source order, head.tail == last), the line still covers them, every span stays
   inside the source, and -- pool disabled -- no freed token is reachable. */
#include "vh.h"
#include <stdlib.h>
#include <string.h>
#include "libMultiMarkdown.h"
#include "mmd.h"
#include "d_string.h"
#include "token.h"
#include "parser.h"
void deindent_line(token *line);
void strip_quote_markers_from_line(token *line, const char *source);
#ifndef K
#define K 3
#endif
#define SL 12
struct in { int n; unsigned char kind[K]; size_t len[K]; char src[SL]; } IN;
#include "vh_in.h"
static const unsigned short KINDS[6] = { INDENT_TAB, INDENT_SPACE, MARKER_BLOCKQUOTE, NON_INDENT_SPACE, TEXT_PLAIN, STAR };
int main(void) {
	IN_LOAD();
	int n = IN.n; ASSUME(n >= 1 && n <= K);
	char *src = malloc(SL + 1); ASSUME(src != 0);
	for (int i = 0; i < SL; i++) { ASSUME(IN.src[i] != 0); src[i] = IN.src[i]; }
	src[SL] = 0;
	token *line = token_new(LINE_PLAIN, 0, 0);
	token *tk[K]; size_t pos = 0;
	for (int i = 0; i < K; i++) {
		ASSUME(IN.kind[i] < 6 && IN.len[i] >= 1 && IN.len[i] <= 4);
		tk[i] = token_new(KINDS[IN.kind[i]], pos, IN.len[i]); ASSUME(tk[i] != 0);
		if (i < n) { token_append_child(line, tk[i]); pos += IN.len[i]; }
	}
	size_t end = pos;
#if OP == 0
	deindent_line(line);
#else
	strip_quote_markers_from_line(line, src);
#endif
	token *h = line->child; int c = 0; token *last = 0; size_t prev_start = 0;
	if (h) CHECK(h->prev == 0, "first child has no predecessor");
	for (token *t = h; t && c <= K + 1; t = t->next, c++) {
		CHECK(t->start >= prev_start && t->start + t->len <= end, "children in source order and inside the line's original span");
		if (t->next) CHECK(t->next->prev == t, "children doubly linked");
		prev_start = t->start; last = t;
	}
	CHECK(c <= K, "finite chain");
	if (h) CHECK(h->tail == last, "the first child records the last one as tail (later appends rely on it)");
#if OP == 0
	if (h) CHECK(line->start == h->start && line->start + line->len == end, "the de-indented line starts at its first remaining child and still ends where it ended");
#endif
	COVER(c == n - 1 && n == K); COVER(c == n); COVER_OPT(c == 0);
	COVER(1);
	return 0;
}
