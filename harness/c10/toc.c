/* C10: "every table-of-contents entry points at the id actually placed on that heading" (HTML).  Real html.c: the heading case of
   mmd_export_token_html and mmd_export_toc_html over a header stack of two headings, for every extension word (minus random ids: listed
   finding unique_autolink covers them) and base header level.  label_from_header is a recorder that names the heading it is asked about;
   the formatted-append recorder notes which label a heading's id= and a TOC entry's href="#.." receive: every entry that carries a link
   names a label that the corresponding heading printed as its id. */
#include "vh.h"
#include <stdlib.h>
#include <string.h>
#include <stdarg.h>
#include "libMultiMarkdown.h"
#include "mmd.h"
#include "d_string.h"
#include "token.h"
#include "stack.h"
#include "writer.h"
#include "html.h"
void mmd_export_token_html(DString *out, const char *source, token *t, scratch_pad *scratch);
void mmd_export_toc_html(DString *out, const char *source, scratch_pad *scratch, short min, short max);
struct in { unsigned long ext; unsigned char k0, k1; short bhl; } IN;
#include "vh_in.h"
static token *H[2]; static char L0[] = "a", L1[] = "b";
static int id_of[2], href_of[2], hrefs;
char *label_from_header(const char *source, token *t, scratch_pad *scratch) { char *r = malloc(2); ASSUME(r != 0); r[0] = (t == H[0]) ? 'a' : (t == H[1] ? 'b' : '?'); r[1] = 0; return r; }
short raw_level_for_header(token *h) { return h->type - BLOCK_H1 + 1; }
void header_clean_trailing_whitespace(token *header, const char *source) {}
void trim_trailing_whitespace_d_string(DString *d) {}
void pad(DString *d, short n, scratch_pad *scratch) {}
void mmd_export_token_tree_html(DString *out, const char *source, token *t, scratch_pad *scratch) {}
void d_string_append_printf(DString *d, const char *f, ...) {
	va_list ap; va_start(ap, f);
	if (f[0] == '<' && f[1] == 'h' && f[2] == '%') {               /* "<h%1d id=\"%s\">" or "<h%1d>" */
		(void) va_arg(ap, int);
		if (f[5] == ' ' && f[6] == 'i' && f[7] == 'd') { const char *s = va_arg(ap, const char *); if (s[0] == 'a') id_of[0] = 1; if (s[0] == 'b') id_of[1] = 1; }
	} else if (f[0] == '<' && f[1] == 'l' && f[2] == 'i' && f[4] == '<' && f[5] == 'a') {    /* "<li><a href=\"#%s\">" */
		const char *s = va_arg(ap, const char *); hrefs++; if (s[0] == 'a') href_of[0] = 1; if (s[0] == 'b') href_of[1] = 1;
	}
	va_end(ap);
}
int main(void) {
	IN_LOAD();
	static char src[16] = "# A\n\n## B\n";
	IN.k0 = K0; IN.k1 = K1;            /* heading levels fixed per instance (a symbolic kind would drag the whole writer switch in) */
	ASSUME(IN.k0 < 6 && IN.k1 < 6 && IN.bhl >= 1 && IN.bhl <= 3);
	H[0] = token_new(BLOCK_H1 + IN.k0, 0, 4); H[1] = token_new(BLOCK_H1 + IN.k1, 5, 5);
	token_append_child(H[0], token_new(TEXT_PLAIN, 2, 1)); token_append_child(H[1], token_new(TEXT_PLAIN, 8, 1));
	scratch_pad *sp = calloc(1, sizeof(scratch_pad)); ASSUME(sp != 0);
	sp->extensions = IN.ext & 0x1ffff & ~(unsigned long) EXT_RANDOM_LABELS; sp->base_header_level = IN.bhl; sp->padded = 2;
	sp->header_stack = stack_new(0); stack_push(sp->header_stack, H[0]); stack_push(sp->header_stack, H[1]);
	DString *out = d_string_new("");
	mmd_export_token_html(out, src, H[0], sp);
	mmd_export_token_html(out, src, H[1], sp);
	mmd_export_toc_html(out, src, sp, 1, 6);
	for (int i = 0; i < 2; i++) if (href_of[i]) CHECK(id_of[i], "a table-of-contents entry links only to an id that its heading carries");
	COVER(hrefs == 2); COVER(hrefs == 0); COVER(id_of[0] && id_of[1]);
	return 0;
}
