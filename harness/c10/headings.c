/* C10: "every automatic cross-reference to a heading ... points at the id actually placed on that heading".  The id the writers print
   (and the TOC links to) comes from label_from_header; the automatic link `[Title][]` -- its key and its "#..." destination -- is made by
   process_header_to_links at parse time.  Both are real (writer.c); label_from_token is replaced by a recorder of the SOURCE SPAN it is
   asked about, so the check is relational: for every heading style (ATX 1..6 with or without closing marker, Setext 1 and 2), with or
   without a manual label, the automatic link is built from exactly the span the id is built from, its key covers exactly that span,
   and its destination is '#' followed by that label. */
#include "vh.h"
#include <stdlib.h>
#include <string.h>
#include "libMultiMarkdown.h"
#include "mmd.h"
#include "d_string.h"
#include "token.h"
#include "stack.h"
#include "writer.h"
void process_header_to_links(mmd_engine *e, token *h);
struct in { unsigned char kind, manual, closing; unsigned long ext; } IN;
#include "vh_in.h"
static token manual_tok;
static size_t span_s[4], span_l[4]; static int n_lab;
static size_t link_s, link_l; static char link_url[8]; static int n_link;
token *manual_label_from_header(token *h, const char *source) { return (IN.manual & 1) ? &manual_tok : 0; }
char *label_from_token(const char *source, token *t) {
	int i = n_lab < 4 ? n_lab : 3; span_s[i] = t->start; span_l[i] = t->len; n_lab++;
	char *r = malloc(2); ASSUME(r != 0); r[0] = 'L'; r[1] = 0; return r;           /* the label text itself is label_from_string's business (c11_key, c16) */
}
link *link_new(const char *source, token *label, char *url, char *title, char *attributes, short flags) {
	static link l; n_link++; link_s = label->start; link_l = label->len; l.label = label;
	for (int i = 0; i < 7; i++) { link_url[i] = url[i]; if (!url[i]) break; }
	return &l;
}
int main(void) {
	IN_LOAD();
	unsigned k = IN.kind; ASSUME(k < 8);                 /* 0..5 ATX level 1..6, 6 Setext 1, 7 Setext 2 */
	static char src[32] = "## Title ##\n----------\n";
	DString ds; ds.str = src; ds.currentStringLength = 23; ds.currentStringBufferSize = 32;
	static mmd_engine e; e.dstr = &ds; e.link_stack = stack_new(0); e.extensions = IN.ext & 0x1ffff;
	token *h; size_t title_s, title_l;
	if (k < 6) {
		h = token_new(BLOCK_H1 + k, 0, 12);
		token_append_child(h, token_new(MARKER_H1 + k, 0, 3)); token_append_child(h, token_new(TEXT_PLAIN, 3, 5));
		if (IN.closing & 1) token_append_child(h, token_new(MARKER_H1 + k, 8, 3));
		token_append_child(h, token_new(TEXT_NL, 11, 1));
		title_s = 0; title_l = 12;                     /* ATX: the whole block; the markers are not label characters */
	} else {
		h = token_new(BLOCK_SETEXT_1 + (k - 6), 3, 20);
		token_append_child(h, token_new(TEXT_PLAIN, 3, 5)); token_append_child(h, token_new(TEXT_NL, 11, 1));
		token *ul = token_new(MARKER_SETEXT_1 + (k - 6), 12, 11); token_append_child(ul, token_new(k == 6 ? EQUAL : DASH_N, 12, 10)); token_append_child(h, ul);
		title_s = 3; title_l = 9;                      /* Setext: the title line, without the underline */
	}
	manual_tok.type = MANUAL_LABEL; manual_tok.start = 5; manual_tok.len = 2;
	if (IN.manual & 1) { title_s = 5; title_l = 2; }
	scratch_pad *sp = calloc(1, sizeof(scratch_pad)); ASSUME(sp != 0);
	sp->extensions = e.extensions;
	/* the id the writers print */
	char *id = label_from_header(src, h, sp);
	int random_id = (sp->extensions & EXT_RANDOM_LABELS) && !(IN.manual & 1);
	int id_calls = n_lab;
	/* the automatic link made at parse time */
	process_header_to_links(&e, h);
	CHECK(n_link == 1 && e.link_stack->size == 1, "one automatic link per heading");
	CHECK(link_url[0] == '#' && link_url[1] == 'L' && link_url[2] == 0, "the link's destination is '#' followed by the label");
#ifdef KF_unique_autolink
	if (!random_id)
#endif
	{
		CHECK(!random_id, "with random heading ids the automatic link still points at the id placed on the heading");
		CHECK(id_calls == 1 && span_s[0] == title_s && span_l[0] == title_l, "the heading id is built from the title span");
		CHECK(n_lab >= 2 && span_s[1] == span_s[0] && span_l[1] == span_l[0], "the automatic link's destination is built from the span the heading id is built from");
		CHECK(link_s == span_s[0] && link_l == span_l[0], "the automatic link's key covers exactly the title (so [Title][] finds it)");
	}
	CHECK(e.link_stack->size == 1 && ((link *) stack_peek_index(e.link_stack, 0))->label == ((IN.manual & 1) ? &manual_tok : h), "the stored link refers to the heading (or its manual label) token");
	COVER(k == 7 && !(IN.manual & 1)); COVER(k == 6); COVER(k < 6 && (IN.closing & 1)); COVER(IN.manual & 1); COVER(random_id);
	return 0;
}
