/* C10: anchors of footnote / citation / glossary calls, list entries and back-links are the same function of the note number.
   Real html.c (PAIR_BRACKET_FOOTNOTE / _CITATION / _GLOSSARY cases, mmd_export_*_list_html, BLOCK_PARA back-link); writer.c's
   *_from_bracket are contract stubs (number = position in the used-notes stack, first use pushes); the tree walkers are stubs that
   may perform a NESTED first use while a list entry is being printed; d_string_append_printf records the integers spliced into
   the anchor attributes; srand/rand are an uninterpreted function of the seed. */
#include "vh.h"
#include <stdarg.h>
#include <stdlib.h>
#include <stdio.h>
#include <string.h>
#include "libMultiMarkdown.h"
#include "mmd.h"
#include "d_string.h"
#include "token.h"
#include "stack.h"
#include "writer.h"
#include "parser.h"
#include "html.h"
#ifndef KIND
#define KIND 0
#endif
#if KIND == 0
#define TAG "fn" 
#define USED used_footnotes
#define BEING footnote_being_printed
#define CALLTYPE PAIR_BRACKET_FOOTNOTE
#define LISTFN mmd_export_footnote_list_html
#elif KIND == 1
#define TAG "cn"
#define USED used_citations
#define BEING citation_being_printed
#define CALLTYPE PAIR_BRACKET_CITATION
#define LISTFN mmd_export_citation_list_html
#else
#define TAG "gn"
#define USED used_glossaries
#define BEING glossary_being_printed
#define CALLTYPE PAIR_BRACKET_GLOSSARY
#define LISTFN mmd_export_glossary_list_html
#endif
struct in { unsigned long ext; int seed_base; int r[8]; unsigned char back_for, locator; } IN;
#ifndef SECOND_REUSE
#define SECOND_REUSE 0
#endif
#ifndef NEST_AT
#define NEST_AT 0
#endif
#include "vh_in.h"
int verif_fprintf(FILE *f, const char *fmt, ...) { return 0; }
void verif_exit(int c) { ASSUME(0); }
/* ---- printf recorder ---- */
#define MAXC 4
static int n_call, call_href[MAXC], call_id[MAXC], call_num[MAXC];
static int n_li, li_id[MAXC];
static int n_back, back_href;
static int cur_call_num;
static int has(const char *f, const char *pat) { for (int i = 0; f[i]; i++) { int j = 0; while (pat[j] && f[i + j] == pat[j]) j++; if (!pat[j]) return 1; } return 0; }
void d_string_append_printf(DString *d, const char *fmt, ...) {
	va_list ap; va_start(ap, fmt);
	if (has(fmt, "href=\"#" TAG ":%d\" id=\"" TAG "ref:%d\"")) { if (n_call < MAXC) { call_href[n_call] = (int) (short) va_arg(ap, int); call_id[n_call] = (int) (short) va_arg(ap, int); call_num[n_call] = cur_call_num; n_call++; } }
	else if (has(fmt, "href=\"#" TAG ":%d\"")) { if (n_call < MAXC) { call_href[n_call] = (int) (short) va_arg(ap, int); call_id[n_call] = -1; call_num[n_call] = cur_call_num; n_call++; } }
	else if (has(fmt, "<li id=\"" TAG ":%d\"")) { if (n_li < MAXC) li_id[n_li++] = (int) (short) va_arg(ap, int); }
	else if (has(fmt, "href=\"#" TAG "ref:%d\"")) { back_href = (int) (short) va_arg(ap, int); n_back++; }
	va_end(ap);
}
/* ---- libc PRNG as an uninterpreted function of the seed (memoised nondet table) ---- */
static unsigned cur_seed; static unsigned seen_seed[8]; static int seen_val[8]; static int n_seen;
void srand(unsigned s) { cur_seed = s; }
int rand(void) {
	for (int i = 0; i < 8; i++) if (i < n_seen && seen_seed[i] == cur_seed) return seen_val[i];
	ASSUME(n_seen < 8); int v = IN.r[n_seen]; ASSUME(v >= 0);
	seen_seed[n_seen] = cur_seed; seen_val[n_seen] = v; n_seen++;
	return v;
}
/* ---- writer.c contract stubs ---- */
static footnote notes[MAXC]; static int next_new = 1; static int want_num;
static void from_bracket(scratch_pad *scratch, short *num) {
	if (want_num > scratch->USED->size) { stack_push(scratch->USED, &notes[scratch->USED->size]); *num = scratch->USED->size; }
	else *num = want_num;
	cur_call_num = *num;
}
void footnote_from_bracket(const char *source, scratch_pad *scratch, token *t, short *num) { from_bracket(scratch, num); }
void citation_from_bracket(const char *source, scratch_pad *scratch, token *t, short *num) { from_bracket(scratch, num); }
void glossary_from_bracket(const char *source, scratch_pad *scratch, token *t, short *num) { from_bracket(scratch, num); }
void pad(DString *d, short num, scratch_pad *scratch) {}
char *text_inside_pair(const char *source, token *pair) { char *r = malloc(2); r[0] = 'p'; r[1] = 0; return r; }
char *label_from_string(const char *s) { char *r = malloc(2); r[0] = 'p'; r[1] = 0; return r; }
void mmd_print_string_html(DString *out, const char *str, bool obfuscate, bool line_breaks) {}
static char src[16] = "[^a] [^b] [^c]\n";
static token *new_call(void) {
	token *call = token_new(CALLTYPE, 0, 4);
	token_append_child(call, token_new(BRACKET_FOOTNOTE_LEFT, 0, 2)); token_append_child(call, token_new(TEXT_PLAIN, 2, 1)); token_append_child(call, token_new(BRACKET_RIGHT, 3, 1));
	return call;
}
/* tree walkers: children are not rendered, but while list entry `nest_at` is printed a nested FIRST use of a new note happens */
static int in_list, nested_done; static DString *g_out; static scratch_pad *g_sp;
void mmd_export_token_tree_html(DString *out, const char *source, token *t, scratch_pad *scratch) {
	if (in_list && !nested_done && NEST_AT && scratch->BEING == NEST_AT) {
		nested_done = 1; want_num = scratch->USED->size + 1;
		mmd_export_token_html(out, source, new_call(), scratch);
	}
}
void mmd_export_token_tree_html_raw(DString *out, const char *source, token *t, scratch_pad *scratch) {}
void mmd_export_token_tree_html_math(DString *out, const char *source, token *t, scratch_pad *scratch) {}

int main(void) {
	IN_LOAD();
	scratch_pad *sp = calloc(1, sizeof(scratch_pad)); ASSUME(sp != 0);
	sp->extensions = (IN.ext & (EXT_RANDOM_FOOT | EXT_SMART | EXT_COMPLETE)) | EXT_NOTES; sp->padded = 2; sp->close_para = 1; sp->base_header_level = 1; sp->output_format = FORMAT_HTML;
	ASSUME(IN.seed_base >= 0 && IN.seed_base < 32000);
	sp->random_seed_base = (sp->extensions & EXT_RANDOM_FOOT) ? IN.seed_base : 0;
	sp->used_footnotes = stack_new(0); sp->used_citations = stack_new(0); sp->used_glossaries = stack_new(0); sp->header_stack = stack_new(0);
	for (int i = 0; i < MAXC; i++) { notes[i].content = token_new(BLOCK_PARA, 0, 0); notes[i].clean_text = "x"; notes[i].label_text = "x"; }
	DString *out = d_string_new(""); g_out = out; g_sp = sp;
	/* 1. first use of note 1 (citations: optionally written with a locator, `[p. 1][#key]`) */
	want_num = 1;
	token *c1 = new_call();
#if KIND == 1
	if (IN.locator) {      /* `[p. 1][#key]`: a plain bracket pair (the locator) immediately followed by the citation; html.c enters the citation code through PAIR_BRACKET */
		token *loc = token_new(PAIR_BRACKET, 0, 3);
		token_append_child(loc, token_new(BRACKET_LEFT, 0, 1)); token_append_child(loc, token_new(TEXT_PLAIN, 1, 1)); token_append_child(loc, token_new(BRACKET_RIGHT, 2, 1));
		loc->next = c1; c1->prev = loc; c1 = loc;
	}
#endif
	mmd_export_token_html(out, src, c1, sp);
	/* 2. a second call: first use of note 2, or re-use of note 1 */
	want_num = SECOND_REUSE ? 1 : 2;
	mmd_export_token_html(out, src, new_call(), sp);
	CHECK(n_call == 2, "both calls produced a link");
	/* 3. the list of notes */
	in_list = 1;
	LISTFN(out, src, sp);
	in_list = 0;
	int n_used = sp->USED->size;
	CHECK(n_li == n_used, "every used note (including one first used inside another note) has an entry in the list");
	/* each call links to an entry that exists, and that entry is the one of its note */
	for (int c = 0; c < MAXC; c++) if (c < n_call) {
		CHECK(call_num[c] >= 1 && call_num[c] <= n_li, "call refers to a listed note");
		if (call_num[c] >= 1 && call_num[c] <= n_li) CHECK(call_href[c] == li_id[call_num[c] - 1], "call href equals the id of its note's list entry");
	}
	for (int i = 0; i < MAXC; i++) for (int j = 0; j < MAXC; j++) if (i < j && j < n_li) CHECK(li_id[i] != li_id[j] || (sp->extensions & EXT_RANDOM_FOOT), "entry ids are distinct");
	if (!(sp->extensions & EXT_RANDOM_FOOT) || KIND != 0) for (int i = 0; i < MAXC; i++) if (i < n_li) CHECK(li_id[i] == i + 1, "entries are numbered 1..n in order of first use");
	/* 4. the back-link printed in the last paragraph of entry j returns to the FIRST call of note j */
	int j = IN.back_for; ASSUME(j >= 1 && j <= n_used);
	sp->footnote_being_printed = 0; sp->citation_being_printed = 0; sp->glossary_being_printed = 0;
	sp->BEING = j; sp->footnote_para_counter = 1; n_back = 0;
	token *para = token_new(BLOCK_PARA, 0, 4); token_append_child(para, token_new(TEXT_PLAIN, 0, 1));
	mmd_export_token_html(out, src, para, sp);
	CHECK(n_back == 1, "the entry links back");
	int first_id = -1; for (int c = MAXC - 1; c >= 0; c--) if (c < n_call && call_num[c] == j && call_id[c] != -1) first_id = call_id[c];
	CHECK(first_id != -1, "the first call of every note carries an id");
	CHECK(back_href == first_id, "back-link href equals the id placed on the first call");
	COVER(n_used == (SECOND_REUSE ? 1 : 2) + (NEST_AT ? 1 : 0)); COVER(j == n_used);
#if KIND == 0
	COVER((sp->extensions & EXT_RANDOM_FOOT) != 0);
#endif
#if KIND == 1
	COVER(IN.locator != 0);
#endif
	COVER(1);
	return 0;
}
