/* C10: "each footnote, citation and glossary call links to an entry that exists in the corresponding list".  An entry of one list is rendered
   with the full writer, so it can contain the FIRST call of a note of another kind (`[?term]: ... note[^n]`).  The export driver (real
   writer.c mmd_engine_export_token_tree, HTML) prints the three lists one after the other; a list already printed cannot take the entry.
   Body and list exporters are stubs that register arbitrary first uses, as the real ones do (each list handles first uses of ITS OWN kind
   made while it is printed: c10_notes_*_nested): at the end every registered use must have been present when its list was finished. */
#include "vh.h"
#include <stdlib.h>
#include <string.h>
#include "libMultiMarkdown.h"
#include "mmd.h"
#include "d_string.h"
#include "token.h"
#include "stack.h"
#include "writer.h"
struct in { unsigned char body[3], fl[2], gl[2], cl[2]; unsigned long ext; } IN;
#include "vh_in.h"
static int item; static long printed[3] = { -1, -1, -1 };     /* size of used_<kind> when its list was finished: 0 footnotes, 1 glossary, 2 citations */
static stack *used(scratch_pad *s, int k) { return k == 0 ? s->used_footnotes : (k == 1 ? s->used_glossaries : s->used_citations); }
static void use(scratch_pad *s, int k, unsigned n) { for (unsigned i = 0; i < 2; i++) if (i < (n & 1)) stack_push(used(s, k), &item); }
#define W(name) void name(DString *out, const char *source, scratch_pad *scratch) {}
W(mmd_start_complete_html) W(mmd_end_complete_html)
void mmd_export_token_tree_html(DString *out, const char *source, token *t, scratch_pad *scratch) { for (int k = 0; k < 3; k++) use(scratch, k, IN.body[k]); }
/* an entry of list K may hold first calls of the two other kinds; KF_cross_list_notes: the listed finding -- only kinds whose list is still to come */
void mmd_export_footnote_list_html(DString *out, const char *source, scratch_pad *scratch) { use(scratch, 1, IN.fl[0]); use(scratch, 2, IN.fl[1]); printed[0] = scratch->used_footnotes->size; }
void mmd_export_glossary_list_html(DString *out, const char *source, scratch_pad *scratch) {
#ifndef KF_cross_list_notes
	use(scratch, 0, IN.gl[0]);
#endif
	use(scratch, 2, IN.gl[1]); printed[1] = scratch->used_glossaries->size; }
void mmd_export_citation_list_html(DString *out, const char *source, scratch_pad *scratch) {
#ifndef KF_cross_list_notes
	use(scratch, 0, IN.cl[0]); use(scratch, 1, IN.cl[1]);
#endif
	printed[2] = scratch->used_citations->size; }
void process_definition_stack(mmd_engine *e) {} void process_header_stack(mmd_engine *e) {} void process_table_stack(mmd_engine *e) {}
void identify_global_search_terms(mmd_engine *e, scratch_pad *scratch) {}
void process_metadata_stack(mmd_engine *e, scratch_pad *scratch) {}
static scratch_pad *the_pad;
void scratch_pad_free(scratch_pad *s) { the_pad = s; }             /* keep the pad for the final comparison */
int main(void) {
	IN_LOAD();
	static mmd_engine e; e.extensions = IN.ext & 0x1ffff; e.dstr = d_string_new("x");
	e.abbreviation_stack = stack_new(0); e.citation_stack = stack_new(0); e.critic_stack = stack_new(0); e.definition_stack = stack_new(0); e.footnote_stack = stack_new(0);
	e.glossary_stack = stack_new(0); e.header_stack = stack_new(0); e.link_stack = stack_new(0); e.metadata_stack = stack_new(0); e.table_stack = stack_new(0);
	static token root; e.root = &root;
	DString *out = d_string_new("");
	mmd_engine_export_token_tree(out, &e, FORMAT_HTML);
	CHECK(the_pad != 0 && printed[0] >= 0 && printed[1] >= 0 && printed[2] >= 0, "all three lists are exported");
	CHECK((long) the_pad->used_footnotes->size == printed[0], "every footnote called anywhere (body or another list's entry) was known when the footnote list was printed");
	CHECK((long) the_pad->used_glossaries->size == printed[1], "every glossary term called anywhere was known when the glossary list was printed");
	CHECK((long) the_pad->used_citations->size == printed[2], "every citation called anywhere was known when the citation list was printed");
	COVER(printed[2] == 3); COVER(printed[0] == 1 && printed[1] == 2); COVER(IN.fl[0] & 1);
	return 0;
}
