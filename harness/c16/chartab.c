/* C16: the byte-class table (char.c) must not treat any byte of a multi-byte UTF-8 sequence (>= 0x80) as whitespace / line ending /
   punctuation: the trimming code (token_trim_*, clean_string, strip_line_tokens_from_metadata) works on raw bytes and would cut a character. */
#include "vh.h"
#include "char.h"
struct in { unsigned char c; } IN;
#include "vh_in.h"
int main(void) {
	IN_LOAD();
	unsigned char c = IN.c;
	if (c >= 0x80) {
		CHECK(!char_is_whitespace((char) c), "no byte >= 0x80 is whitespace");
		CHECK(!char_is_line_ending((char) c), "no byte >= 0x80 is a line ending");
		CHECK(!char_is_whitespace_or_line_ending((char) c), "no byte >= 0x80 is whitespace-or-line-ending");
		CHECK(!char_is_punctuation((char) c), "no byte >= 0x80 is punctuation");
		CHECK(!char_is_whitespace_or_punctuation((char) c), "no byte >= 0x80 is whitespace-or-punctuation");
		CHECK(!char_is_whitespace_or_line_ending_or_punctuation((char) c), "no byte >= 0x80 is in any trimming class");
	}
	CHECK(char_is_whitespace(' ') && char_is_whitespace('\t') && char_is_line_ending('\n') && char_is_line_ending('\r'), "ASCII classes intact");
	COVER(c == 0xA0); COVER(c < 0x80);
	COVER(1);
	return 0;
}
