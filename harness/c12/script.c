/* C12: accept / reject on every well-formed CriticMarkup edit script within the bound equals the edited text, byte for byte; idempotent;
   unmatched markers untouched.  Real critic_markup.c (tokenize glue, pairing set-up, accept/reject trees), real token_pairs.c, token.c.
   aho-corasick.c is replaced by a reference leftmost-longest search over the patterns the real code inserts (trie_insert is recorded),
   because constructing the automaton symbolically does not finish (measured); the search honours the (start, len) it is given. */
#include "vh.h"
#include <stdlib.h>
#include <string.h>
#include "d_string.h"
#include "aho-corasick.h"
#include "critic_markup.h"
#include "token.h"
#ifndef ITEMS
#define ITEMS 2
#endif
#define TMAX (ITEMS * 13 + 2)
struct in { unsigned char kind[ITEMS]; char p[ITEMS], q[ITEMS]; unsigned char pl[ITEMS], ql[ITEMS]; unsigned char reject; size_t rs, rl; unsigned char use_range; } IN;
#include "vh_in.h"
/* ---- reference multi-pattern search standing in for aho-corasick.c ---- */
#define MAXPAT 24
static const char *pat[MAXPAT]; static unsigned short pat_type[MAXPAT]; static int n_pat;
trie *trie_new(size_t n) { n_pat = 0; return (trie *) malloc(8); }
bool trie_insert(trie *a, const char *key, unsigned short match_type) { if (n_pat < MAXPAT) { pat[n_pat] = key; pat_type[n_pat] = match_type; n_pat++; } return true; }
void ac_trie_prepare(trie *a) {}
void trie_free(trie *a) { free(a); }
void match_free(match *m) { while (m) { match *n = m->next; free(m); m = n; } }
match *ac_trie_leftmost_longest_search(trie *a, const char *source, size_t start, size_t len) {
	match *head = malloc(sizeof(match)); ASSUME(head != 0); head->next = 0; head->prev = 0; head->start = 0; head->len = 0; head->match_type = 0;
	match *tail = head; size_t i = start, stop = start + len;
	while (i < stop) {
		size_t best = 0; unsigned short bt = 0;
		for (int k = 0; k < MAXPAT; k++) if (k < n_pat) {
			size_t j = 0; while (pat[k][j] && i + j < stop && source[i + j] == pat[k][j]) j++;
			if (!pat[k][j] && j > best) { best = j; bt = pat_type[k]; }
		}
		if (best) { match *m = malloc(sizeof(match)); ASSUME(m != 0); m->start = i; m->len = best; m->match_type = bt; m->next = 0; m->prev = tail; tail->next = m; tail = m; i += best; }
		else i++;
	}
	return head;
}
/* ---- script -> text, expected accept, expected reject ---- */
static char txt[TMAX], acc[TMAX], rej[TMAX]; static size_t tl, al, rl_;
static void T(const char *s) { for (size_t i = 0; s[i]; i++) txt[tl++] = s[i]; }
static void A(const char *s) { for (size_t i = 0; s[i]; i++) acc[al++] = s[i]; }
static void R(const char *s) { for (size_t i = 0; s[i]; i++) rej[rl_++] = s[i]; }
static void Tc(char c, int n) { if (n) txt[tl++] = c; } static void Ac(char c, int n) { if (n) acc[al++] = c; } static void Rc(char c, int n) { if (n) rej[rl_++] = c; }
/* kinds: 0 plain p | 1 {++p++} | 2 {--p--} | 3 {~~p~>q~~} | 4 {>>p<<} | 5 {==p==} | 6 {++p{--q--}++} | 7 {--p{++q++}--} | 8 {==p{++q++}==}
          9 stray "++}" | 10 stray "{--" | 11 escaped brace "\{" p */
#define NKIND 12
static void item(int k, char p, int pl, char q, int ql) {
	switch (k) {
	case 0: Tc(p, pl); Ac(p, pl); Rc(p, pl); break;
	case 1: T("{++"); Tc(p, pl); T("++}"); Ac(p, pl); break;
	case 2: T("{--"); Tc(p, pl); T("--}"); Rc(p, pl); break;
	case 3: T("{~~"); Tc(p, pl); T("~>"); Tc(q, ql); T("~~}"); Ac(q, ql); Rc(p, pl); break;
	case 4: T("{>>"); Tc(p, pl); T("<<}"); break;
	case 5: T("{=="); Tc(p, pl); T("==}"); Ac(p, pl); Rc(p, pl); break;
	case 6: T("{++"); Tc(p, pl); T("{--"); Tc(q, ql); T("--}"); T("++}"); Ac(p, pl); break;                 /* accepted addition keeps p, drops the nested deletion; rejected addition vanishes */
	case 7: T("{--"); Tc(p, pl); T("{++"); Tc(q, ql); T("++}"); T("--}"); Rc(p, pl); break;                 /* rejected deletion keeps p, drops the nested addition */
	case 8: T("{=="); Tc(p, pl); T("{++"); Tc(q, ql); T("++}"); T("==}"); Ac(p, pl); Ac(q, ql); Rc(p, pl); break;
	case 9: T("++}"); A("++}"); R("++}"); break;                                                          /* unmatched markers are left untouched */
	case 10: T("{--"); A("{--"); R("{--"); break;
	case 11: T("\\{"); Tc(p, pl); A("\\{"); Ac(p, pl); R("\\{"); Rc(p, pl); break;
#ifndef KF_stray_divider
	case 12: T("~>"); A("~>"); R("~>"); break;
#endif
	}
}
static int same(const DString *d, const char *e, size_t n) { if (d->currentStringLength != n) return 0; for (size_t i = 0; i < TMAX; i++) if (i < n && d->str[i] != e[i]) return 0; return 1; }
int main(void) {
	IN_LOAD();
	for (int i = 0; i < ITEMS; i++) {
#ifndef KF_stray_divider
		ASSUME(IN.kind[i] <= 12);
#else
		ASSUME(IN.kind[i] < NKIND);
#endif
		ASSUME((IN.p[i] == 'a' || IN.p[i] == 'b' || IN.p[i] == ' ' || IN.p[i] == '\n') && (IN.q[i] == 'a' || IN.q[i] == 'c') && IN.pl[i] <= 1 && IN.ql[i] <= 1);
		/* a stray closer must not follow an opener of its kind inside this script, a stray opener must not precede its closer: well-formedness */
	}
	for (int i = 0; i < ITEMS; i++) for (int j = 0; j < ITEMS; j++) if (i < j) {
		ASSUME(!(IN.kind[i] == 10 && (IN.kind[j] == 2 || IN.kind[j] == 6 || IN.kind[j] == 7)));     /* stray {-- followed by a real --} would pair up */
		ASSUME(!(IN.kind[j] == 9 && (IN.kind[i] == 1 || IN.kind[i] == 6 || IN.kind[i] == 7 || IN.kind[i] == 8)) || 1);
	}
	for (int i = 0; i < ITEMS; i++) item(IN.kind[i], IN.p[i], IN.pl[i], IN.q[i], IN.ql[i]);
	txt[tl] = 0; acc[al] = 0; rej[rl_] = 0;
	DString *d = d_string_new(txt);
	const char *want = IN.reject ? rej : acc; size_t wl = IN.reject ? rl_ : al;
	if (IN.reject) mmd_critic_markup_reject(d); else mmd_critic_markup_accept(d);
	CHECK(same(d, want, wl), "accept/reject yields exactly the edited text, byte for byte");
	if (IN.reject) mmd_critic_markup_reject(d); else mmd_critic_markup_accept(d);
	CHECK(same(d, want, wl), "accept/reject is idempotent");
	COVER(IN.kind[0] == 3 && IN.pl[0] && IN.ql[0]); COVER(IN.kind[ITEMS - 1] == 6 && IN.reject); COVER(IN.kind[0] == 8 && !IN.reject && IN.ql[0]); COVER(IN.kind[0] == 9); COVER(IN.kind[0] == 11);
	COVER(tl > wl + 8);
	COVER(1);
	return 0;
}
