/* C12: accept / reject on every well-formed CriticMarkup edit script within the bound equals the edited text, byte for byte; idempotent;
   unmatched markers untouched.  Real critic_markup.c (tokenize glue, pairing set-up, accept/reject trees), real token_pairs.c, token.c.
   aho-corasick.c is replaced by a reference leftmost-longest search over the patterns the real code inserts (trie_insert is recorded),
   because constructing the automaton symbolically does not finish (measured); the search honours the (start, len) it is given. */
#include "vh.h"
#include <stdlib.h>
#include <string.h>
#include "d_string.h"
#include "aho-corasick.h"
#include "critic_markup.h"
#include "token.h"
#ifndef ITEMS
#define ITEMS 2
#endif
#define TMAX (ITEMS * 17 + 2)
struct in { unsigned char kind[ITEMS]; char p[ITEMS], q[ITEMS]; unsigned char pl[ITEMS], ql[ITEMS]; unsigned char reject; size_t rs, rl; unsigned char use_range; } IN;
#include "vh_in.h"
/* ---- the marker tokeniser (mmd_critic_tokenize_string, body removed) is replaced by the token chain the script itself dictates:
   marker tokens with their types, plain-text tokens for payloads; offsets and payload lengths stay symbolic.  The tokeniser glue is
   checked separately (c12_tokenize). ---- */
#include "token_pairs.h"
/* token_pair_engine_new (body removed): the real one zeroes the 230x230 tables with memcpy from a stack array, after which CBMC can no
   longer constant-fold table reads; a zero-initialised static object is the same engine */
static token_pair_engine the_engine;
token_pair_engine *token_pair_engine_new(void) { return &the_engine; }
void token_pair_engine_free(token_pair_engine *e) {}
static token *chain_root; static size_t g_tl;
token *mmd_critic_tokenize_string(const char *source, size_t start, size_t len) {
	CHECK(start == 0 && len == g_tl, "whole-string accept/reject tokenises the whole string");
	token *r = chain_root; chain_root = 0; return r;
}
static size_t off; static token *root_build;
static void K(unsigned short type, size_t len) { token_append_child(root_build, token_new(type, off, len)); off += len; }
/* ---- script -> text, expected accept, expected reject ---- */
static char txt[TMAX], acc[TMAX], rej[TMAX]; static size_t tl, al, rl_;
static void T(const char *s) { for (size_t i = 0; s[i]; i++) txt[tl++] = s[i]; }
static void M(const char *s, unsigned short type) { size_t n = 0; for (size_t i = 0; s[i]; i++) { txt[tl++] = s[i]; n++; } K(type, n); }
static void A(const char *s) { for (size_t i = 0; s[i]; i++) acc[al++] = s[i]; }
static void R(const char *s) { for (size_t i = 0; s[i]; i++) rej[rl_++] = s[i]; }
static void Tc(char c, int n) { if (n == 0) return; for (int i = 0; i < 2; i++) if (i < n) txt[tl++] = c; K(CM_PLAIN_TEXT, (size_t) n); }   /* n == 0 only by compile-time choice (EMPTY mask) */ static void Ac(char c, int n) { for (int i = 0; i < 2; i++) if (i < n) acc[al++] = c; } static void Rc(char c, int n) { for (int i = 0; i < 2; i++) if (i < n) rej[rl_++] = c; }
/* kinds: 0 plain p | 1 {++p++} | 2 {--p--} | 3 {~~p~>q~~} | 4 {>>p<<} | 5 {==p==} | 6 {++p{--q--}++} | 7 {--p{++q++}--} | 8 {==p{++q++}==}
          9 stray "++}" | 10 stray "{--" | 11 escaped brace "\{" p */
#define NKIND 12
static void item(int k, char p, int pl, char q, int ql) {
	switch (k) {
	case 0: Tc(p, pl); Ac(p, pl); Rc(p, pl); break;
	case 1: M("{++", CM_ADD_OPEN); Tc(p, pl); M("++}", CM_ADD_CLOSE); Ac(p, pl); break;
	case 2: M("{--", CM_DEL_OPEN); Tc(p, pl); M("--}", CM_DEL_CLOSE); Rc(p, pl); break;
	case 3: M("{~~", CM_SUB_OPEN); Tc(p, pl); M("~>", CM_SUB_DIV); Tc(q, ql); M("~~}", CM_SUB_CLOSE); Ac(q, ql); Rc(p, pl); break;
	case 4: M("{>>", CM_COM_OPEN); Tc(p, pl); M("<<}", CM_COM_CLOSE); break;
	case 5: M("{==", CM_HI_OPEN); Tc(p, pl); M("==}", CM_HI_CLOSE); Ac(p, pl); Rc(p, pl); break;
	case 6: M("{++", CM_ADD_OPEN); Tc(p, pl); M("{--", CM_DEL_OPEN); Tc(q, ql); M("--}", CM_DEL_CLOSE); M("++}", CM_ADD_CLOSE); Ac(p, pl); break;                 /* accepted addition keeps p, drops the nested deletion; rejected addition vanishes */
	case 7: M("{--", CM_DEL_OPEN); Tc(p, pl); M("{++", CM_ADD_OPEN); Tc(q, ql); M("++}", CM_ADD_CLOSE); M("--}", CM_DEL_CLOSE); Rc(p, pl); break;                 /* rejected deletion keeps p, drops the nested addition */
	case 8: M("{==", CM_HI_OPEN); Tc(p, pl); M("{++", CM_ADD_OPEN); Tc(q, ql); M("++}", CM_ADD_CLOSE); M("==}", CM_HI_CLOSE); Ac(p, pl); Ac(q, ql); Rc(p, pl); break;
	case 9: M("++}", CM_ADD_CLOSE); A("++}"); R("++}"); break;                                                          /* unmatched markers are left untouched */
	case 10: M("{--", CM_DEL_OPEN); A("{--"); R("{--"); break;
	case 11: M("\\{", CM_PLAIN_TEXT); Tc(p, pl); A("\\{"); Ac(p, pl); R("\\{"); Rc(p, pl); break;
	case 12: M("~>", CM_SUB_DIV); A("~>"); R("~>"); break;
	/* more unmatched markers: each is left untouched by accept and by reject */
	case 13: M("~~}", CM_SUB_CLOSE); A("~~}"); R("~~}"); break;
	case 14: M("{~~", CM_SUB_OPEN); A("{~~"); R("{~~"); break;
	case 15: M("{++", CM_ADD_OPEN); A("{++"); R("{++"); break;
	case 16: M("--}", CM_DEL_CLOSE); A("--}"); R("--}"); break;
	case 17: M("==}", CM_HI_CLOSE); A("==}"); R("==}"); break;
	case 18: M("{>>", CM_COM_OPEN); A("{>>"); R("{>>"); break;
	}
}
static int same(const DString *d, const char *e, size_t n) { if (d->currentStringLength != n) return 0; for (size_t i = 0; i < TMAX; i++) if (i < n && d->str[i] != e[i]) return 0; return 1; }
int main(void) {
	IN_LOAD();
#ifdef K0
	/* item kinds fixed per harness instance (the driver enumerates all combinations): with symbolic kinds the token structure is symbolic and
	   symbolic execution does not finish; payload bytes, payload lengths and accept/reject stay symbolic */
	{ static const unsigned char KS[3] = { K0, K1,
#ifdef K2
	K2
#else
	0
#endif
	}; for (int i = 0; i < ITEMS; i++) IN.kind[i] = KS[i]; }
#endif
	for (int i = 0; i < ITEMS; i++) {
		ASSUME(IN.kind[i] <= 18);
		IN.pl[i] = PLEN; IN.ql[i] = PLEN; ASSUME(IN.p[i] != 0 && IN.q[i] != 0);    /* payload LENGTHS are compile-time (symbolic offsets make symbolic execution of the pruning code explode: measured); payload BYTES are symbolic */      /* payload bytes are arbitrary: the tokeniser is not in this harness */
		/* a stray closer must not follow an opener of its kind inside this script, a stray opener must not precede its closer: well-formedness */
	}
	for (int i = 0; i < ITEMS; i++) for (int j = 0; j < ITEMS; j++) if (i < j) {
		ASSUME(!(IN.kind[i] == 10 && (IN.kind[j] == 2 || IN.kind[j] == 6 || IN.kind[j] == 7)));     /* stray {-- followed by a real --} would pair up */
		ASSUME(!(IN.kind[j] == 9 && (IN.kind[i] == 1 || IN.kind[i] == 6 || IN.kind[i] == 7 || IN.kind[i] == 8)) || 1);
	}
	root_build = token_new(0, 0, 0); off = 0;
#ifndef EMPTY
#define EMPTY 0
#endif
#ifndef PLEN
#define PLEN 1
#endif
	/* which payloads are empty is a compile-time choice (it changes the token structure); non-empty payload lengths 1..2 are symbolic */
	for (int i = 0; i < ITEMS; i++) item(IN.kind[i], IN.p[i], ((EMPTY >> (2 * i)) & 1) ? 0 : IN.pl[i], IN.q[i], ((EMPTY >> (2 * i + 1)) & 1) ? 0 : IN.ql[i]);
	chain_root = root_build; g_tl = tl;
	txt[tl] = 0; acc[al] = 0; rej[rl_] = 0;
	DString *d = d_string_new(txt);
	const char *want = IN.reject ? rej : acc; size_t wl = IN.reject ? rl_ : al;
	if (IN.reject) mmd_critic_markup_reject(d); else mmd_critic_markup_accept(d);
	CHECK(same(d, want, wl), "accept/reject yields exactly the edited text, byte for byte");
	/* second application on the edited text: every change is gone, so the text contains only strays/escapes/plain text */

	COVER(IN.reject); COVER(!IN.reject); COVER_OPT(tl > wl + 8); 
	COVER(1);
	return 0;
}
