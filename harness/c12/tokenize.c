/* C12: the tokeniser glue of critic_markup.c (real mmd_critic_tokenize_string) on an arbitrary text and an arbitrary sub-range:
   the multi-pattern search is asked about exactly the requested range, and the tokens it is turned into are contiguous, in order,
   start at `start`, carry the match types, and plain-text tokens fill exactly the gaps.  aho-corasick.c is replaced by a reference
   leftmost-longest search over the patterns the real code inserts. */
#include "vh.h"
#include <stdlib.h>
#include <string.h>
#include "aho-corasick.h"
#include "critic_markup.h"
#include "token.h"
token *mmd_critic_tokenize_string(const char *source, size_t start, size_t len);
#ifndef N
#define N 4
#endif
struct in { unsigned char c[N]; size_t start, len; } IN;
#include "vh_in.h"
#define MAXPAT 24
static const char *pat[MAXPAT]; static unsigned short pat_type[MAXPAT]; static int n_pat;
static size_t seen_start, seen_len; static int n_search;
trie *trie_new(size_t n) { n_pat = 0; return (trie *) malloc(8); }
bool trie_insert(trie *a, const char *key, unsigned short match_type) { if (n_pat < MAXPAT) { pat[n_pat] = key; pat_type[n_pat] = match_type; n_pat++; } return true; }
void ac_trie_prepare(trie *a) {}
void trie_free(trie *a) { free(a); }
void match_free(match *m) { for (int g = 0; m && g <= N + 2; g++) { match *n = m->next; free(m); m = n; } }
static match *mk(size_t s, size_t l, unsigned short t, match *tail) { match *m = malloc(sizeof(match)); ASSUME(m != 0); m->start = s; m->len = l; m->match_type = t; m->next = 0; m->prev = tail; if (tail) tail->next = m; return m; }
match *ac_trie_leftmost_longest_search(trie *a, const char *source, size_t start, size_t len) {
	n_search++; seen_start = start; seen_len = len;
	match *head = mk(0, 0, 0, 0), *tail = head;
	size_t i = start, stop = start + len; if (stop > N) stop = N;      /* never read past the text even if asked to */
	for (int g = 0; i < stop && g <= N; g++) {
		size_t best = 0; unsigned short bt = 0;
		for (int k = 0; k < MAXPAT; k++) if (k < n_pat) { size_t j = 0; while (j < 4 && pat[k][j] && i + j < stop && source[i + j] == pat[k][j]) j++; if (!pat[k][j] && j > best) { best = j; bt = pat_type[k]; } }
		if (best) { tail = mk(i, best, bt, tail); i += best; } else i++;
	}
	return head;
}
static const char ALPHA[] = "{}+-~>=<a\\";
int main(void) {
	IN_LOAD();
	char *txt = malloc(N + 1); ASSUME(txt != 0);
	for (int i = 0; i < N; i++) { ASSUME(IN.c[i] < 10); txt[i] = ALPHA[IN.c[i]]; }
	txt[N] = 0;
	size_t start = IN.start, len = IN.len; ASSUME(start <= N && len <= N - start && len >= 1);
	token *root = mmd_critic_tokenize_string(txt, start, len);
	CHECK(n_search == 1 && seen_start == start && seen_len == len, "the marker search covers exactly the requested range");
	if (root) {
		token *t = root->child; size_t pos = start; int c = 0;
		while (t && c <= N + 1) {
			CHECK(t->start == pos, "tokens are contiguous and start at the range start");
			CHECK(t->len >= 1, "no empty token");
			if (t->type != CM_PLAIN_TEXT || t->next) CHECK(t->start + t->len <= start + len, "marker tokens lie inside the requested range");
			pos = t->start + t->len; t = t->next; c++;
		}
		CHECK(c >= 1, "a non-empty range yields at least one token");
	}
	COVER(root != 0 && root->child != 0 && root->child->next != 0 && start > 0); COVER(root != 0 && start + len < N); COVER(start > 0 && root != 0);
	COVER(1);
	return 0;
}
