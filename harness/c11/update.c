/* C11: in-place metadata update (real mmd.c mmd_engine_update_metavalue_for_key): the updated key reads back as the new value, every
   other key's line and the body are byte-for-byte unchanged.  mmd_engine_has_metadata (the block parser) is replaced by a stub that
   reports the layout of the metadata block the harness built: two keys `a`, `b`, value lengths VL1/VL2 chosen by the driver, value
   bytes, new value (0..2 bytes) and body byte symbolic. */
#include "vh.h"
#include <stdlib.h>
#include <string.h>
#include "libMultiMarkdown.h"
#include "mmd.h"
#include "d_string.h"
#include "token.h"
#include "stack.h"
#include "writer.h"
#ifndef VL1
#define VL1 1
#endif
#ifndef VL2
#define VL2 1
#endif
#ifndef UK
#define UK 0          /* 0: update `a`, 1: update `b` (last key), 2: add new key `c` */
#endif
#define TL (3 + VL1 + 1 + 3 + VL2 + 1 + 1 + 1)
struct in { char v1[2], v2[2], w[2], body; size_t wl; unsigned char tabs; } IN;
#include "vh_in.h"
static size_t g_meta_end; static int g_has;
bool mmd_engine_has_metadata(mmd_engine *e, size_t *end) { if (end) *end = g_meta_end; return g_has; }
static int plain(char c) { return c != 0 && c != '\n' && c != '\r' && c != ' ' && c != '\t' && c != ':'; }
int main(void) {
	IN_LOAD();
	ASSUME(plain(IN.v1[0]) && plain(IN.v1[1]) && plain(IN.v2[0]) && plain(IN.v2[1]) && plain(IN.body));
	ASSUME(IN.wl <= 2 && plain(IN.w[0]) && plain(IN.w[1]));
	char src[TL + 1]; size_t n = 0;
	size_t a_start = n; src[n++] = 'a'; src[n++] = ':'; src[n++] = (IN.tabs & 1) ? '\t' : ' ';
	size_t a_val = n; for (int i = 0; i < VL1; i++) src[n++] = IN.v1[i];
	src[n++] = '\n';
	size_t b_start = n; src[n++] = 'b'; src[n++] = ':'; src[n++] = (IN.tabs & 2) ? '\t' : ' ';
	size_t b_val = n; for (int i = 0; i < VL2; i++) src[n++] = IN.v2[i];
	src[n++] = '\n';
	size_t meta_end = n;          /* the metadata block ends where the blank line starts */
	src[n++] = '\n'; src[n++] = IN.body; src[n] = 0;
	g_meta_end = meta_end; g_has = 1;
	static mmd_engine e; e.dstr = d_string_new(src);
	e.metadata_stack = stack_new(0);
	static meta ma, mb; ma.key = "a"; ma.value = ""; ma.start = a_start; mb.key = "b"; mb.value = ""; mb.start = b_start;
	stack_push(e.metadata_stack, &ma); stack_push(e.metadata_stack, &mb);
	char w[3]; w[0] = IN.wl > 0 ? IN.w[0] : 0; w[1] = IN.wl > 1 ? IN.w[1] : 0; w[2] = 0;
	const char *key = UK == 0 ? "a" : (UK == 1 ? "b" : "c");
	mmd_engine_update_metavalue_for_key(&e, key, w);
	/* expected text */
	char ex[TL + 8]; size_t m = 0;
#if UK == 0
	for (size_t i = 0; i < a_val; i++) ex[m++] = src[i];
	for (size_t i = 0; i < 2; i++) if (i < IN.wl) ex[m++] = w[i];
	ex[m++] = '\n';
	for (size_t i = b_start; i < n; i++) ex[m++] = src[i];
#elif UK == 1
	for (size_t i = 0; i < b_val; i++) ex[m++] = src[i];
	for (size_t i = 0; i < 2; i++) if (i < IN.wl) ex[m++] = w[i];
	ex[m++] = '\n';
	for (size_t i = meta_end; i < n; i++) ex[m++] = src[i];
#else
	for (size_t i = 0; i < meta_end; i++) ex[m++] = src[i];
	ex[m++] = 'c'; ex[m++] = ':'; ex[m++] = '\t';
	for (size_t i = 0; i < 2; i++) if (i < IN.wl) ex[m++] = w[i];
	ex[m++] = '\n';
	for (size_t i = meta_end; i < n; i++) ex[m++] = src[i];
#endif
	ex[m] = 0;
	CHECK(e.dstr->currentStringLength == m, "update: no character lost or added outside the edited value");
	for (size_t i = 0; i < TL + 8; i++) if (i < m) CHECK(e.dstr->str[i] == ex[i], "update: the key reads the new value; every other key's line and the body are unchanged");
	COVER(IN.wl == 2); COVER(IN.wl == 0); COVER(IN.tabs == 3);
	COVER(1);
	return 0;
}
