/* C11 / C16: value extraction from a metadata line (real mmd.c strip_line_tokens_from_metadata + writer.c meta_new / meta_set_value):
   the stored value is the text after `key:` whitespace-normalised -- no character lost -- whatever follows the line: a newline and more
   text, a blank line, end of input with a newline, end of input WITHOUT a newline.  Value bytes are symbolic; TERM selects what follows. */
#include "vh.h"
#include <stdlib.h>
#include <string.h>
#include "libMultiMarkdown.h"
#include "mmd.h"
#include "d_string.h"
#include "token.h"
#include "stack.h"
#include "writer.h"
#include "parser.h"
void strip_line_tokens_from_metadata(mmd_engine *e, token *metadata);
#ifndef VL
#define VL 3
#endif
#ifndef TERM
#define TERM 0          /* 0: EOF without newline, 1: "\n" then EOF, 2: "\n\n" (blank line), 3: "\n" + next key line, 4: "\r\n" then EOF,
                           5: "\n" + a continuation line (of a non-plain kind: list marker, quote, table ...) that belongs to the value */
#endif
struct in { char v[VL]; unsigned char cont_kind; } IN;
#include "vh_in.h"
size_t scan_meta_key(const char *c) { return 1; }
size_t scan_meta_line(const char *c) { return 0; }
int main(void) {
	IN_LOAD();
	for (int i = 0; i < VL; i++) ASSUME(IN.v[i] != 0 && IN.v[i] != '\n' && IN.v[i] != '\r' && IN.v[i] != '\\');
	ASSUME(IN.v[0] != ' ' && IN.v[0] != '\t' && IN.v[VL - 1] != ' ' && IN.v[VL - 1] != '\t');       /* value already trimmed: the reference is the bytes themselves */
	for (int i = 0; i + 1 < VL; i++) ASSUME(!((IN.v[i] == ' ' || IN.v[i] == '\t') && (IN.v[i + 1] == ' ' || IN.v[i + 1] == '\t')));
	for (int i = 0; i < VL; i++) ASSUME(IN.v[i] != '\t');
#ifdef U8
	/* the value ends in a multi-byte character */
	ASSUME((unsigned char) IN.v[VL - 2] >= 0xC2 && (unsigned char) IN.v[VL - 2] <= 0xDF && ((unsigned char) IN.v[VL - 1] & 0xC0) == 0x80);
#endif
	char src[2 + 1 + VL + 8]; size_t n = 0;
	src[n++] = 'k'; src[n++] = ':'; src[n++] = ' ';
	for (int i = 0; i < VL; i++) src[n++] = IN.v[i];
	size_t line_len = n;
#if TERM == 1
	src[n++] = '\n'; line_len = n;
#elif TERM == 2
	src[n++] = '\n'; line_len = n; src[n++] = '\n';
#elif TERM == 3
	src[n++] = '\n'; line_len = n; src[n++] = 'j'; src[n++] = ':'; src[n++] = 'x';
#elif TERM == 4
	src[n++] = '\r'; src[n++] = '\n'; line_len = n;
#elif TERM == 5
	src[n++] = '\n'; line_len = n; size_t cont_start = n; src[n++] = '*'; src[n++] = 'z'; src[n++] = '\n';
#endif
	src[n] = 0;
	static mmd_engine e; e.dstr = d_string_new(src); e.metadata_stack = stack_new(0);
	token *meta_block = token_new(BLOCK_META, 0, line_len);
	token *line = token_new(LINE_META, 0, line_len); token_append_child(meta_block, line);
#if TERM == 5
	token *cont = token_new(IN.cont_kind == 0 ? LINE_LIST_BULLETED : (IN.cont_kind == 1 ? LINE_TABLE : (IN.cont_kind == 2 ? LINE_BLOCKQUOTE : LINE_PLAIN)), cont_start, 3); token_append_child(meta_block, cont); meta_block->len = n;
#endif
	strip_line_tokens_from_metadata(&e, meta_block);
	CHECK(e.metadata_stack->size == 1, "one key extracted");
	meta *m = stack_peek(e.metadata_stack);
	CHECK(m != 0 && m->value != 0, "the key has a value");
	size_t vl = 0; while (m->value[vl] && vl <= VL + 5) vl++;
#if TERM == 5
	ASSUME(IN.cont_kind <= 3);
	CHECK(vl == VL + 3 && m->value[VL] == ' ' && m->value[VL + 1] == '*' && m->value[VL + 2] == 'z', "a continuation line is joined to the value with one separating space, whatever kind the classifier gave it");
#else
	CHECK(vl == VL, "the value has exactly the characters written in the source (none lost at end of input, none added)");
#endif
	for (int i = 0; i < VL; i++) if ((size_t) i < vl) CHECK(m->value[i] == IN.v[i], "the value is the source text");
	COVER_OPT(IN.v[1] == ' '); COVER_OPT((unsigned char) IN.v[VL - 1] >= 0x80);
	COVER(1);
	return 0;
}
