/* C04 / C08 / C14 / C16: the per-format character escapers on every byte string of <= N bytes.
   (a) every target-reserved character in the output is part of an escape sequence the escaper itself emits;
   (b) undoing the escaping gives back exactly the input bytes: nothing lost, nothing repeated;
   (c) [OPML/ITMZ] the importer's own unescape function (xml.c print_xml_as_text) is the exact inverse (C14);
   (d) [U8] valid UTF-8 in -> valid UTF-8 out (C16).
   FMT: 0 html text, 1 html with line breaks, 2 latex, 3 opendocument, 4 opendocument with line breaks, 5 opml source, 6 itmz source,
        7 html with e-mail obfuscation (7-bit characters become numeric references chosen by the generator; other bytes pass through) */
#include "vh.h"
#include <stdlib.h>
#include <string.h>
#include "d_string.h"
#include "libMultiMarkdown.h"
#include "token.h"
#include "writer.h"
void mmd_print_string_html(DString *out, const char *str, bool obfuscate, bool line_breaks);
void mmd_print_string_latex(DString *out, const char *str);
void mmd_print_string_opendocument(DString *out, const char *str, bool line_breaks);
void mmd_print_source_opml(DString *out, const char *source, size_t start, size_t len);
void mmd_print_source_itmz(DString *out, const char *source, size_t start, size_t len);
void print_xml_as_text(DString *out, const char *source, size_t start, size_t len);
#ifndef N
#define N 3
#endif
struct in { size_t len; char s[N]; size_t pre; long rnd[N]; } IN;
#include "vh_in.h"
static int n_rnd;
long ran_num_next(void) { long v = IN.rnd[n_rnd < N ? n_rnd : N - 1]; n_rnd++; ASSUME(v >= 0); return v; }
void ran_start(long seed) {}
#if FMT == 7
#include <stdarg.h>
/* the two formats the obfuscator uses, "&#%d;" and "&#x%x;", rendered directly (the general formatter of ds_model is needlessly expensive here) */
void d_string_append_printf(DString *d, const char *f, ...) {
	va_list ap; va_start(ap, f); unsigned v = (unsigned) va_arg(ap, int) & 0xff; va_end(ap);
	int hex = (f[2] == 'x');
	d_string_append_c(d, '&'); d_string_append_c(d, '#'); if (hex) d_string_append_c(d, 'x');
	unsigned base = hex ? 16 : 10; char b[3]; int k = 0;
	do { unsigned dg = v % base; b[k++] = (char) (dg < 10 ? '0' + dg : 'a' + dg - 10); v /= base; } while (v && k < 3);
	while (k > 0) d_string_append_c(d, b[--k]);
	d_string_append_c(d, ';');
}
void d_string_insert_printf(DString *d, size_t pos, const char *f, ...) {}
#endif
struct esc { const char *seq; char c; };
#if FMT == 0 || FMT == 1 || FMT == 7
static const struct esc T[] = { {"&quot;", '"'}, {"&amp;", '&'}, {"&lt;", '<'}, {"&gt;", '>'}, {"<br/>\n", '\n'} };
static const char RES[] = "&<>\"";
#elif FMT == 2
static const struct esc T[] = { {"\\textbackslash{}", '\\'}, {"\\ensuremath{\\sim}", '~'}, {"\\slash{}", '/'}, {"\\^{}", '^'}, {"$<$", '<'}, {"$>$", '>'}, {"\\textbar{}", '|'},
	{"\\\\\n", '\n'}, {"\\\\\r", '\r'}, {"\\#", '#'}, {"\\{", '{'}, {"\\}", '}'}, {"\\$", '$'}, {"\\%", '%'}, {"\\&", '&'}, {"\\_", '_'} };
static const char RES[] = "\\{}$%&#_^~";
#elif FMT == 3 || FMT == 4
static const struct esc T[] = { {"&quot;", '"'}, {"&amp;", '&'}, {"&lt;", '<'}, {"&gt;", '>'}, {"<text:line-break/>\n", '\n'}, {"<text:tab/>\t", '\t'} };
static const char RES[] = "&<>\"";
#else
static const struct esc T[] = { {"&amp;", '&'}, {"&lt;", '<'}, {"&gt;", '>'}, {"&quot;", '"'}, {"&apos;", '\''}, {"&#10;", '\n'}, {"&#13;", '\r'}, {"&#9;", '\t'} };
static const char RES[] = "&<>\"'";
#endif
#define NT (sizeof T / sizeof T[0])
#define MAXSEQ 20
static int utf8_ok(const unsigned char *s, size_t n, int g0) {
	size_t i = 0; int g = 0;
	while (i < n && g <= g0) { g++; unsigned char c = s[i];
		if (c < 0x80) { i++; continue; }
		if (c >= 0xC2 && c <= 0xDF) { if (i + 1 >= n || (s[i + 1] & 0xC0) != 0x80) return 0; i += 2; continue; }
		if (c >= 0xE0 && c <= 0xEF) { if (i + 2 >= n || (s[i + 1] & 0xC0) != 0x80 || (s[i + 2] & 0xC0) != 0x80) return 0; if (c == 0xE0 && s[i + 1] < 0xA0) return 0; if (c == 0xED && s[i + 1] >= 0xA0) return 0; i += 3; continue; }
		if (c >= 0xF0 && c <= 0xF4) { if (i + 3 >= n || (s[i + 1] & 0xC0) != 0x80 || (s[i + 2] & 0xC0) != 0x80 || (s[i + 3] & 0xC0) != 0x80) return 0; if (c == 0xF0 && s[i + 1] < 0x90) return 0; if (c == 0xF4 && s[i + 1] >= 0x90) return 0; i += 4; continue; }
		return 0; }
	return i == n;
}
int main(void) {
	IN_LOAD();
	size_t len = IN.len; ASSUME(len <= N);
	char *buf = malloc(N + 1); ASSUME(buf != 0);          /* string end-aligned in a constant-size object: over-reads are out of bounds */
	char *in = buf + (N - len);
	for (size_t i = 0; i < N; i++) if (i < len) { ASSUME(IN.s[i] != 0); in[i] = IN.s[i]; }
	in[len] = 0;
#ifdef U8
	ASSUME(utf8_ok((unsigned char *) in, len, N));
#endif
	DString *out = d_string_new("");
#if FMT == 0
	mmd_print_string_html(out, in, false, false);
#elif FMT == 1
	mmd_print_string_html(out, in, false, true);
#elif FMT == 2
	mmd_print_string_latex(out, in);
#elif FMT == 3
	mmd_print_string_opendocument(out, in, false);
#elif FMT == 4
	mmd_print_string_opendocument(out, in, true);
#elif FMT == 7
	mmd_print_string_html(out, in, true, false);
#elif FMT == 5
	mmd_print_source_opml(out, in, 0, len);
#else
	mmd_print_source_itmz(out, in, 0, len);
#endif
	size_t ol = out->currentStringLength; const char *o = out->str;
	/* decode with the escaper's own vocabulary; a reserved character outside it is a failure */
	char dec[N + 2]; size_t dl = 0, p = 0; int steps = 0;
	while (p < ol && steps <= N + 1) {
		steps++;
		int matched = 0;
		for (unsigned k = 0; k < NT; k++) if (!matched) {
			size_t j = 0; while (j < MAXSEQ && T[k].seq[j] && p + j < ol && o[p + j] == T[k].seq[j]) j++;
			if (!T[k].seq[j]) { if (dl <= N) dec[dl] = T[k].c; dl++; p += j; matched = 1; }
		}
#if FMT == 7
		if (!matched && o[p] == '&' && p + 1 < ol && o[p + 1] == '#') {      /* numeric character reference emitted by the obfuscator */
			size_t q = p + 2; unsigned v = 0; int hex = 0, digits = 0;
			if (q < ol && o[q] == 'x') { hex = 1; q++; }
			for (int g = 0; g < 4 && q < ol && o[q] != ';'; g++, q++) { char c = o[q]; unsigned dv = (c >= '0' && c <= '9') ? (unsigned) (c - '0') : (hex && c >= 'a' && c <= 'f') ? (unsigned) (c - 'a' + 10) : 99; CHECK(dv != 99, "numeric reference has only digits"); v = v * (hex ? 16 : 10) + dv; digits++; }
			CHECK(q < ol && o[q] == ';' && digits >= 1 && v >= 1 && v <= 127, "obfuscation emits a well-formed reference to a 7-bit character");
			if (dl <= N) dec[dl] = (char) v; dl++; p = q + 1; matched = 1;
		}
#endif
		if (!matched) {
			int reserved = 0; for (unsigned r = 0; RES[r]; r++) if (o[p] == RES[r]) reserved = 1;
			CHECK(!reserved, "a character reserved in the target format appears only inside an escape the writer emitted");
			if (dl <= N) dec[dl] = o[p]; dl++; p++;
		}
	}
	CHECK(p == ol, "output fully consumed by the decoder");
	CHECK(dl == len, "undoing the escaping gives back the same number of characters: none lost, none repeated");
	for (size_t i = 0; i < N; i++) if (i < len && i < dl) {
		char want = in[i];
#if FMT == 1 || FMT == 4
		if (want == '\r') want = '\n';      /* with hard line breaks CR and LF both become the break element */
#endif
		CHECK(dec[i] == want, "undoing the escaping gives back the input bytes in order");
	}
#ifdef U8
	CHECK(utf8_ok((unsigned char *) o, ol, 20 * N), "valid UTF-8 in -> valid UTF-8 out");
#endif
#if FMT == 5 || FMT == 6
	/* C14: the importer's unescape is the exact inverse of the exporter's escape */
	DString *back = d_string_new("");
	print_xml_as_text(back, out->str, 0, out->currentStringLength);
	CHECK(back->currentStringLength == len, "import(unescape) o export(escape) = identity (length)");
	for (size_t i = 0; i < N; i++) if (i < len) CHECK(back->str[i] == in[i], "import(unescape) o export(escape) = identity (bytes)");
#endif
	COVER(ol >= len + 6); COVER(len == N); COVER(ol == len && len > 0);
	COVER(1);
	return 0;
}
