/* C04 / C16: e-mail obfuscation (real html.c mmd_print_char_html with obfuscate=true) of ONE arbitrary byte and an arbitrary generator
   draw: a 7-bit character becomes a numeric character reference to exactly that character (or its named escape), every other byte
   is passed through unchanged -- so a multi-byte UTF-8 sequence stays intact.  mmd_print_string_html is this, byte after byte. */
#include "vh.h"
#include <stdarg.h>
#include <stdlib.h>
#include <string.h>
#include "d_string.h"
#include "libMultiMarkdown.h"
#include "token.h"
#include "writer.h"
void mmd_print_char_html(DString *out, char c, bool obfuscate, bool line_breaks);
struct in { char c; long draw; } IN;
#include "vh_in.h"
long ran_num_next(void) { ASSUME(IN.draw >= 0); return IN.draw; }
void ran_start(long seed) {}
static int n_printf; static int p_hex; static long p_val;
void d_string_append_printf(DString *d, const char *f, ...) { va_list ap; va_start(ap, f); n_printf++; p_hex = (f[2] == 'x'); p_val = (long) va_arg(ap, int); va_end(ap); CHECK(f[0] == '&' && f[1] == '#', "obfuscation emits numeric character references"); }
void d_string_insert_printf(DString *d, size_t pos, const char *f, ...) {}
int main(void) {
	IN_LOAD();
	char c = IN.c; ASSUME(c != 0);
	DString *out = d_string_new("");
	mmd_print_char_html(out, c, true, false);
	unsigned char u = (unsigned char) c;
	if (u >= 0x80) {
		CHECK(n_printf == 0 && out->currentStringLength == 1 && out->str[0] == c, "a byte of a multi-byte character is passed through unchanged, never turned into a reference");
	} else if (c == '"' || c == '&' || c == '<' || c == '>') {
		CHECK(n_printf == 0 && out->currentStringLength >= 4 && out->str[0] == '&', "reserved characters keep their named escape");
	} else if (c == '\n' || c == '\r') {
		CHECK(n_printf == 0 || p_val == (long) u, "line ending kept");
	} else {
		CHECK(n_printf == 1 && out->currentStringLength == 0, "a 7-bit character is written as one numeric reference");
		CHECK(p_val == (long) u, "the reference designates exactly the character");
	}
	COVER(u >= 0xC2 && n_printf == 0); COVER(n_printf == 1 && p_hex); COVER(n_printf == 1 && !p_hex);
	COVER(1);
	return 0;
}
