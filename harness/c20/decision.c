/* C20: the complete-vs-snippet decision and the frame of process_metadata_stack (real writer.c) for arbitrary metadata stacks. */
#include "vh.h"
#include <stdlib.h>
#include <string.h>
#include "libMultiMarkdown.h"
#include "mmd.h"
#include "d_string.h"
#include "token.h"
#include "stack.h"
#include "writer.h"
#include "i18n.h"
void process_metadata_stack(mmd_engine *e, scratch_pad *scratch);
#ifndef NMAX
#define NMAX 2
#endif
#define VL 2
static const char *KEYS[] = {"baseheaderlevel", "epubheaderlevel", "htmlheaderlevel", "xhtmlheaderlevel", "latexheaderlevel", "odfheaderlevel",
                             "language", "latexmode", "quoteslanguage", "bibtex", "title", "zz", "css", "mmdheader"};
#define NK 14
#define RENDER_CONTROL(k) ((k) <= 8)       /* header-level family, language, latexmode, quoteslanguage: never force a complete document */
struct in { int n; int k[NMAX]; char val[NMAX][VL]; unsigned long ext; short fmt; int swap; } IN;
#include "vh_in.h"
static void run(int order, unsigned long *ext_out, short *bhl, short *lang, short *ql, short *fmt_out, scratch_pad **spo) {
	mmd_engine e; e.metadata_stack = stack_new(0);
	static meta m[2][NMAX]; static char val[2][NMAX][VL + 1];
	for (int i = 0; i < NMAX; i++) {
		int src = order ? (NMAX - 1 - i) : i;
		for (int j = 0; j < VL; j++) val[order][i][j] = IN.val[src][j];
		val[order][i][VL] = 0;
		m[order][i].key = (char *) KEYS[IN.k[src]]; m[order][i].value = val[order][i]; m[order][i].start = 0;
		int present = order ? (src < IN.n) : (i < IN.n);
		if (present) stack_push(e.metadata_stack, &m[order][i]);
	}
	scratch_pad *sp = calloc(1, sizeof(scratch_pad)); ASSUME(sp != 0);
	sp->extensions = IN.ext; sp->output_format = IN.fmt; sp->base_header_level = 1; sp->language = LC_EN; sp->quotes_lang = ENGLISH;
	sp->padded = 2; sp->label_counter = 7; sp->random_seed_base = 11; sp->skip_token = 3; sp->recurse_depth = 1;
	process_metadata_stack(&e, sp);
	*ext_out = sp->extensions; *bhl = sp->base_header_level; *lang = sp->language; *ql = sp->quotes_lang; *fmt_out = sp->output_format; *spo = sp;
}
int main(void) {
	IN_LOAD();
	ASSUME(IN.n >= 0 && IN.n <= NMAX);
	for (int i = 0; i < NMAX; i++) ASSUME(IN.k[i] >= 0 && IN.k[i] < NK);
	ASSUME((IN.ext & ~0x1ffffUL) == 0);
	ASSUME(IN.fmt >= 0 && IN.fmt <= FORMAT_MMD);
	unsigned long e1, e2; short b1, b2, l1, l2, q1, q2, f1, f2; scratch_pad *s1, *s2;
	run(0, &e1, &b1, &l1, &q1, &f1, &s1);
	int off = (IN.ext & EXT_NO_METADATA) || (IN.ext & EXT_COMPATIBILITY);
	int other = 0; for (int i = 0; i < NMAX; i++) if (i < IN.n && !RENDER_CONTROL(IN.k[i])) other = 1;
	unsigned long expect = IN.ext; if (!off && other && !(IN.ext & EXT_SNIPPET)) expect |= EXT_COMPLETE;
	CHECK(e1 == expect, "complete exactly when it was requested or the document carries metadata beyond the rendering-control keys (and no snippet switch)");
	/* frame: everything else in the scratch pad is untouched */
	CHECK(s1->padded == 2 && s1->label_counter == 7 && s1->random_seed_base == 11 && s1->skip_token == 3 && s1->recurse_depth == 1, "frame: unrelated scratch state untouched");
	if (off) CHECK(b1 == 1 && f1 == IN.fmt && l1 == LC_EN && q1 == ENGLISH && s1->bibtex_file == 0, "metadata disabled: nothing is read from it");
	CHECK(f1 == IN.fmt || (IN.fmt == FORMAT_LATEX && (f1 == FORMAT_BEAMER || f1 == FORMAT_MEMOIR)), "output format changes only latex -> beamer/memoir (latexmode)");
	int has_level = 0, has_lang = 0, has_ql = 0; for (int i = 0; i < NMAX; i++) if (i < IN.n) { if (IN.k[i] <= 5) has_level = 1; if (IN.k[i] == 6) has_lang = 1; if (IN.k[i] == 8) has_ql = 1; }
	if (!has_level) CHECK(b1 == 1, "base header level changes only through the header-level keys");
	if (!has_lang) CHECK(l1 == LC_EN, "language changes only through the language key");
	if (!has_lang && !has_ql) CHECK(q1 == ENGLISH, "quotes language changes only through language / quoteslanguage");
	/* what the body writers see does not depend on the wrapper switches: the bibtex file is recorded whether or not a snippet was requested */
	{ int has_bib = 0; for (int i = 0; i < NMAX; i++) if (i < IN.n && IN.k[i] == 9) has_bib = 1;
	  if (!off) CHECK((s1->bibtex_file != 0) == (has_bib != 0), "bibtex key is passed to the body writers exactly when present, independent of --snippet/--full"); }
	/* the decision does not depend on the order of the keys */
	if (IN.swap) { run(1, &e2, &b2, &l2, &q2, &f2, &s2); CHECK(e2 == e1, "complete/snippet decision independent of key order"); }
	COVER(e1 != IN.ext); COVER(other && e1 == IN.ext && !off); COVER(b1 != 1); COVER_OPT(f1 != IN.fmt); COVER(l1 != LC_EN); COVER(IN.n == NMAX && IN.swap);
	COVER(1);
	return 0;
}
