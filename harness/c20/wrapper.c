/* C20: the export driver (real writer.c mmd_engine_export_token_tree) places the document wrapper strictly before and after the body
   and nowhere else: for html / latex / beamer / memoir the output is  [H] B L* [F]  with H and F present exactly when EXT_COMPLETE is
   set after metadata processing, and the body and list exporters are called with the same arguments in both modes -- so the snippet
   rendering is literally contained in the complete one.  Every start/end/body/list exporter and the pre-passes are marker stubs. */
#include "vh.h"
#include <stdlib.h>
#include <string.h>
#include "libMultiMarkdown.h"
#include "mmd.h"
#include "d_string.h"
#include "token.h"
#include "stack.h"
#include "writer.h"
struct in { unsigned long ext; short fmt; unsigned char meta_complete; } IN;
#include "vh_in.h"
static char seq[16]; static int ns; static unsigned long body_ext; static short body_fmt;
static void mark(char c) { if (ns < 15) seq[ns++] = c; }
#define W(name, ch) void name(DString *out, const char *source, scratch_pad *scratch) { mark(ch); }
#define B(name) void name(DString *out, const char *source, token *t, scratch_pad *scratch) { mark('B'); body_ext = scratch->extensions; body_fmt = scratch->output_format; }
W(mmd_start_complete_html, 'H') W(mmd_end_complete_html, 'F') W(mmd_start_complete_latex, 'H') W(mmd_end_complete_latex, 'F') W(mmd_end_complete_beamer, 'F')
B(mmd_export_token_tree_html) B(mmd_export_token_tree_latex) B(mmd_export_token_tree_beamer) B(mmd_export_token_tree_memoir) B(mmd_export_token_tree_opendocument) B(mmd_export_token_tree_opml) B(mmd_export_token_tree_itmz)
W(mmd_export_footnote_list_html, 'L') W(mmd_export_glossary_list_html, 'L') W(mmd_export_citation_list_html, 'L') W(mmd_export_citation_list_latex, 'L') W(mmd_export_citation_list_beamer, 'L')
void mmd_outline_add_beamer(DString *out, token *current, scratch_pad *scratch) { mark('L'); }
/* pre-passes (removed from the writer.c unit): only process_metadata_stack can change the mode, by its documented rule (checked in c20_decision) */
void process_definition_stack(mmd_engine *e) {} void process_header_stack(mmd_engine *e) {} void process_table_stack(mmd_engine *e) {}
void identify_global_search_terms(mmd_engine *e, scratch_pad *scratch) {}
void process_metadata_stack(mmd_engine *e, scratch_pad *scratch) { if ((IN.meta_complete & 1) && !(scratch->extensions & EXT_SNIPPET)) scratch->extensions |= EXT_COMPLETE; }
int main(void) {
	IN_LOAD();
	ASSUME((IN.ext & ~0x1ffffUL) == 0);
	short fmt = IN.fmt; ASSUME(fmt == FORMAT_HTML || fmt == FORMAT_LATEX || fmt == FORMAT_BEAMER || fmt == FORMAT_MEMOIR || fmt == FORMAT_HTML_WITH_ASSETS);
	static mmd_engine e; e.extensions = IN.ext; e.dstr = d_string_new("x");
	e.abbreviation_stack = stack_new(0); e.citation_stack = stack_new(0); e.critic_stack = stack_new(0); e.definition_stack = stack_new(0); e.footnote_stack = stack_new(0);
	e.glossary_stack = stack_new(0); e.header_stack = stack_new(0); e.link_stack = stack_new(0); e.metadata_stack = stack_new(0); e.table_stack = stack_new(0);
	static token root; e.root = &root;
	DString *out = d_string_new("");
	mmd_engine_export_token_tree(out, &e, fmt);
	int complete = ((IN.ext & EXT_COMPLETE) != 0) || ((IN.meta_complete & 1) && !(IN.ext & EXT_SNIPPET));
	/* shape: optional H, exactly one B, then only L, optional F as the very last */
	int i = 0;
	if (complete) { CHECK(ns > 0 && seq[0] == 'H', "complete: the header comes first"); i = 1; } else CHECK(ns > 0 && seq[0] != 'H', "snippet: no header");
	CHECK(i < ns && seq[i] == 'B', "the body export follows immediately"); i++;
	for (int k = 0; k < 15; k++) if (k >= i && k < ns - 1) CHECK(seq[k] == 'L', "only the note/citation lists follow the body");
	if (complete) CHECK(seq[ns - 1] == 'F' && ns - 1 >= i, "complete: the footer is the very last piece"); else CHECK(seq[ns - 1] != 'F' && seq[ns - 1] != 'H', "snippet: no footer");
	int nb = 0, nh = 0, nf = 0; for (int k = 0; k < 15; k++) if (k < ns) { nb += seq[k] == 'B'; nh += seq[k] == 'H'; nf += seq[k] == 'F'; }
	CHECK(nb == 1 && nh == (complete ? 1 : 0) && nf == (complete ? 1 : 0), "exactly one body, at most one header and footer");
	/* the body sees the same scratch in both modes except the complete bit itself */
	CHECK((body_ext & ~(unsigned long) EXT_COMPLETE) == (IN.ext & ~(unsigned long) EXT_COMPLETE), "the body exporter sees the caller's extensions (only the complete bit may differ)");
	COVER(complete && fmt == FORMAT_BEAMER); COVER(!complete && fmt == FORMAT_HTML); COVER((IN.meta_complete & 1) && (IN.ext & EXT_SNIPPET));
	COVER(1);
	return 0;
}
