/* C01 (+C02): the fenced-code-block case of a writer (real mmd_export_token_<w>, case BLOCK_CODE_FENCED) on an arbitrary block of 1..3
   lines: whatever kinds the lines have (a block may consist of the opening fence alone -- `fenced_block ::= fenced_3.` -- or lack the
   closing fence), whatever the info string is (none, a language, a raw-source filter that matches or not), the case dereferences no
   missing line and copies only bytes of the block.  The tree walkers are stubs; the info-string helpers are abstract (any string);
   the raw copy (d_string_append_c_array) checks its range against the source. */
#include "vh.h"
#include <stdlib.h>
#include <string.h>
#include <stdbool.h>
#include "libMultiMarkdown.h"
#include "mmd.h"
#include "d_string.h"
#include "token.h"
#include "stack.h"
#include "writer.h"
#include "parser.h"
#define N 10
void EXPORT(DString *out, const char *source, token *t, scratch_pad *scratch);
struct in { unsigned char nlines, spec, match; unsigned short lt[3]; size_t s0, l[3]; char sp[5]; unsigned long ext; } IN;
#include "vh_in.h"
static char src[N + 1] = "``` x\nab\n``";
static size_t blk_start, blk_end; static int copies;
void TREE1(DString *out, const char *source, token *t, scratch_pad *scratch) {}
void TREE2(DString *out, const char *source, token *t, scratch_pad *scratch) {}
void TREE3(DString *out, const char *source, token *t, scratch_pad *scratch) {}
void pad(DString *d, short n, scratch_pad *scratch) {}
char *get_fence_language_specifier(token *fence, const char *source) {
	CHECK(fence != 0, "the info string is looked up on an existing fence token");
	if ((IN.spec & 3) == 0) return 0;
	char *r = malloc(6); ASSUME(r != 0);
	for (int i = 0; i < 5; i++) r[i] = IN.sp[i];
	r[5] = 0;
	if ((IN.spec & 3) == 1) { r[0] = '{'; r[1] = '='; }        /* a raw-source filter */
	return r;
}
bool raw_filter_text_matches(char *pattern, short format) { return IN.match & 1; }
void d_string_append_c_array(DString *d, const char *s, size_t n) {
	if (!__CPROVER_same_object(s, src)) return;          /* print_const(): a string literal of the writer */
	copies++;
	CHECK(n <= N, "raw copy length does not wrap");
	CHECK(__CPROVER_POINTER_OFFSET(s) >= blk_start && __CPROVER_POINTER_OFFSET(s) + n <= blk_end, "the raw copy takes only bytes of the block");
}
int main(void) {
	IN_LOAD();
	unsigned nl = IN.nlines; ASSUME(nl >= 1 && nl <= 3);
	ASSUME(IN.s0 <= 1);
	size_t pos = IN.s0; token *line[3];
	token *blk = token_new(BLOCK_CODE_FENCED, IN.s0, 0);
	for (unsigned i = 0; i < 3; i++) {
		ASSUME(IN.l[i] >= 1 && IN.l[i] <= 3);
		ASSUME(IN.lt[i] >= 1 && IN.lt[i] < 230);
		line[i] = token_new(IN.lt[i], pos, IN.l[i]);
		token_append_child(line[i], token_new(i == 0 ? CODE_FENCE : TEXT_PLAIN, pos, IN.l[i]));
		if (i < nl) { token_append_child(blk, line[i]); pos += IN.l[i]; }
	}
	blk_start = IN.s0; blk_end = pos;
	CHECK(blk->len == pos - IN.s0, "harness: block spans its lines");
	token *nx = token_new(BLOCK_PARA, pos, 0); blk->next = nx; nx->prev = blk;
	scratch_pad *sp = calloc(1, sizeof(scratch_pad)); ASSUME(sp != 0);
	sp->extensions = IN.ext & 0x1ffff; sp->padded = 2; sp->base_header_level = 1; sp->output_format = FORMAT_HTML; sp->odf_para_type = BLOCK_PARA;
	DString *out = d_string_new("");
	EXPORT(out, src, blk, sp);
	COVER(copies == 1 && nl == 3); COVER(copies == 0 && (IN.spec & 3) == 1 && (IN.match & 1) && nl == 1); COVER((IN.spec & 3) == 2); COVER((IN.spec & 3) == 0);
	COVER(copies == 1 && nl == 2 && IN.lt[1] == LINE_PLAIN);
	return 0;
}
