/* C01 / C14: OPML/ITMZ import reads attributes with xml_extract_named_attribute (real xml.c).  Arbitrary source bytes; the re2c scanners
   xml_scan_* are abstract (any answer that stays inside the text; Engine B covers scanners of that shape): for every attribute name/value
   split they can report, the extraction stays inside its heap copies -- in particular when an attribute name is SHORTER than the name
   searched for. */
#include "vh.h"
#include <stdlib.h>
#include <string.h>
#include "d_string.h"
#include "xml.h"
#ifndef N
#define N 6
#endif
struct in { char s[N]; size_t ret[8]; } IN;
#include "vh_in.h"
static const char *g_src; static int n_scan;
static size_t answer(const char *c, int value) {
	size_t off = (size_t) (c - g_src); size_t r = IN.ret[n_scan < 8 ? n_scan : 7]; n_scan++;
	if (off > N) return 0;
	if (r > N - off) r = N - off;
	if (value && r == 1) r = 0;          /* a value is at least the two quotes */
	return r;
}
size_t xml_scan_wsnl(const char *c) { return answer(c, 0); }
size_t xml_scan_attribute_name(const char *c) { return answer(c, 0); }
size_t xml_scan_until_value(const char *c) { return answer(c, 0); }
size_t xml_scan_value(const char *c) { return answer(c, 1); }
int main(void) {
	IN_LOAD();
	char *buf = malloc(N + 1); ASSUME(buf != 0);
	for (int i = 0; i < N; i++) { ASSUME(IN.s[i] != 0); buf[i] = IN.s[i]; }
	buf[N] = 0; g_src = buf;
	char *v = xml_extract_named_attribute(buf, 0, "text");
	if (v) { size_t l = 0; while (v[l] && l <= N) l++; CHECK(l <= N, "extracted value is a piece of the source"); free(v); }
	COVER_OPT(v != 0); COVER(n_scan >= 4);
	COVER(1);
	return 0;
}
