/* C01: fixed-size scratch array table_alignment[kMaxTableColumns] (real writer.c read_table_column_alignments) for a separator line with an
   ARBITRARY number of cells, including more than the array holds.  The array lives inside the heap-allocated scratch pad, where CBMC's
   bounds check is object-granular, so the obligation is explicit: the recorded column count stays inside the array and nothing behind the
   array in the scratch pad is modified.  The cell chain is built at its maximal length and cut at a symbolic index. */
#include "vh.h"
#include <stdlib.h>
#include <string.h>
#include <stddef.h>
#include "libMultiMarkdown.h"
#include "token.h"
#include "writer.h"
#include "scanners.h"
#include "parser.h"
#ifndef CMAX
#define CMAX 52
#endif
struct in { int n; unsigned char align; } IN;
#include "vh_in.h"
size_t scan_alignment_string(const char *c) { return IN.align & 15; }
int main(void) {
	IN_LOAD();
	int n = IN.n; ASSUME(n >= 0 && n <= CMAX);
	static char src[2 * CMAX + 8];
	scratch_pad *sp = malloc(sizeof(scratch_pad)); ASSUME(sp != 0);
	memset(sp, 0x5a, sizeof(scratch_pad));
	token *sep = token_new(LINE_TABLE_SEPARATOR, 0, 0);
	static token *cell[CMAX + 1];
	for (int i = 0; i <= CMAX; i++) { cell[i] = token_new(TABLE_CELL, 2 * i, 1); token_append_child(sep, cell[i]); }
	if (n == 0) sep->child = 0; else cell[n - 1]->next = 0;            /* cut the maximal chain after n cells */
	token *hdr = token_new(BLOCK_TABLE_HEADER, 0, 0); token_append_child(hdr, sep);
	token *table = token_new(BLOCK_TABLE, 0, 0); token_append_child(table, hdr);
	read_table_column_alignments(src, table, sp);
	CHECK(sp->table_column_count >= 0 && sp->table_column_count < kMaxTableColumns, "recorded column count indexes inside table_alignment[] (terminator included)");
	size_t off = offsetof(scratch_pad, table_alignment) + kMaxTableColumns;
	for (size_t i = off; i < sizeof(scratch_pad); i++) CHECK(((unsigned char *) sp)[i] == 0x5a, "nothing behind table_alignment[] in the scratch pad is overwritten");
	CHECK(sp->table_alignment[sp->table_column_count] == 0, "alignment string is terminated inside the array");
	COVER(n == CMAX); COVER(n == kMaxTableColumns - 1); COVER(n == 0);
	COVER(1);
	return 0;
}
