/* C01: attribute parsing (real writer.c parse_attributes + attr_new) on an arbitrary attribute string.  The four scanners are abstract, constrained
   only by the lemma c01_attr_lemma proves on their IR: when scan_attr accepts, spnl/key/value measure pieces that lie inside the string, the key
   is non-empty and followed by '=', and -- after the blanks parse_attributes skips -- the value is non-empty and inside the string.  Under that contract no copy leaves its buffer and attr_new's
   value[len-1] is inside the copy. */
#include "vh.h"
#include <stdlib.h>
#include <string.h>
#include "libMultiMarkdown.h"
#include "token.h"
#include "writer.h"
attr *parse_attributes(char *source);
#ifndef N
#define N 6
#endif
struct in { size_t len; char s[N]; size_t acc[3], p[3], k[3], v[3]; } IN;
#include "vh_in.h"
static const char *g_buf; static size_t g_len; static int round_;
static size_t rem(const char *c) { return g_len - (size_t) (c - g_buf); }
static int R(void) { return round_ < 3 ? round_ : 2; }
/* the contract, each piece relative to the position the scanner is asked about (c01_attr_lemma) */
size_t scan_attr(const char *c) { return (IN.acc[R()] & 1) ? 1 : 0; }
size_t scan_spnl(const char *c) { size_t p = IN.p[R()]; ASSUME(p <= rem(c)); return p; }
size_t scan_key(const char *c) { size_t k = IN.k[R()]; ASSUME(k >= 1 && k < rem(c) && c[k] == '='); return k; }
/* the value is non-empty where it starts (after the blanks that may follow '='); asked about such a blank, scan_value reports 0 (both by the lemma) */
size_t scan_value(const char *c) { if (c[0] == ' ' || c[0] == '\t') { round_++; return 0; } size_t v = IN.v[R()]; ASSUME(v <= rem(c)); round_++; return v; }      /* 0 is possible (lemma): attr_new must cope with an empty value */
int main(void) {
	IN_LOAD();
	size_t len = IN.len; ASSUME(len <= N);
	char *obj = malloc(N + 1); ASSUME(obj != 0);
	char *buf = obj + (N - len);
	for (size_t i = 0; i < N; i++) if (i < len) { ASSUME(IN.s[i] != 0); buf[i] = IN.s[i]; }
	buf[len] = 0; g_buf = buf; g_len = len;
	attr *a = parse_attributes(buf);
	int n = 0; for (attr *w = a; w && n < 4; w = w->next) { CHECK(w->key != 0 && w->value != 0, "every parsed attribute has a key and a value"); n++; }
	COVER(n == 1); COVER(n == 2);
	COVER(1);
	return 0;
}
