/* C01: look-behind / look-ahead of mmd_assign_ambidextrous_tokens_in_block (real mmd.c) on an arbitrary source and a delimiter token
   at an arbitrary position, including the first and the last byte.  The source is end-aligned in a constant-size object: a read past
   the NUL is out of bounds, and when the source fills the object so is a read before its first byte. */
#include "vh.h"
#include <stdlib.h>
#include <string.h>
#include "libMultiMarkdown.h"
#include "mmd.h"
#include "d_string.h"
#include "token.h"
#ifndef N
#define N 4
#endif
void mmd_assign_ambidextrous_tokens_in_block(mmd_engine *e, token *block, size_t start_offset);
struct in { size_t len; char s[N]; unsigned long ext; int k; size_t off, tl; } IN;
#include "vh_in.h"
static const unsigned short kinds[] = { STAR, UL, BACKTICK, QUOTE_SINGLE, QUOTE_DOUBLE, DASH_N, DASH_M, MATH_DOLLAR_SINGLE, MATH_DOLLAR_DOUBLE, SUPERSCRIPT, SUBSCRIPT, APOSTROPHE, ELLIPSIS, TEXT_NUMBER_POSS_LIST };
#define NK (sizeof kinds / sizeof kinds[0])
int main(void) {
	IN_LOAD();
	size_t len = IN.len; ASSUME(len >= 1 && len <= N);
	char *obj = malloc(N + 1); ASSUME(obj != 0);
	char *buf = obj + (N - len);
	for (size_t i = 0; i < N; i++) if (i < len) { ASSUME(IN.s[i] != 0); buf[i] = IN.s[i]; }
	buf[len] = 0;
	DString ds; ds.str = buf; ds.currentStringLength = len; ds.currentStringBufferSize = len + 1;
	static mmd_engine e; e.dstr = &ds; e.extensions = IN.ext & 0x1ffff;
	ASSUME(IN.k >= 0 && IN.k < (int) NK);
	size_t off = IN.off, tl = IN.tl;
	ASSUME(off < len && tl >= 1 && tl <= 2 && tl <= len - off);
	/* the token's bytes agree with its kind for the single-character kinds (the lexer guarantees it) */
	if (kinds[IN.k] == STAR) ASSUME(buf[off] == '*' && tl == 1);
	if (kinds[IN.k] == UL) ASSUME(buf[off] == '_' && tl == 1);
	if (kinds[IN.k] == QUOTE_SINGLE) ASSUME(buf[off] == '\'' && tl == 1);
	if (kinds[IN.k] == QUOTE_DOUBLE) ASSUME(buf[off] == '"' && tl == 1);
	token *block = token_new(BLOCK_PARA, 0, len);
	token *t = token_new(kinds[IN.k], off, tl);
	token_append_child(block, t);
	mmd_assign_ambidextrous_tokens_in_block(&e, block, 0);
	COVER(off == 0 && len == N && kinds[IN.k] == QUOTE_SINGLE); COVER(off + tl == len && kinds[IN.k] == STAR); COVER(kinds[IN.k] == MATH_DOLLAR_SINGLE && off == 0);
	COVER(1);
	return 0;
}
