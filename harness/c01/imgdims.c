/* C01: image dimension attributes (real mmd_export_image_<w> incl. its static correct_dimension_units) for EVERY attribute value of VL
   bytes: `![a](b width=5)` hands a 1-byte value to code that looks at the last TWO bytes of its private copy.  The value is non-empty
   (contract of attr_new, c01_attrs) and NUL-terminated in an exact-size block; keys are width / height / other. */
#include "vh.h"
#include <stdlib.h>
#include <string.h>
#include "libMultiMarkdown.h"
#include "mmd.h"
#include "d_string.h"
#include "token.h"
#include "stack.h"
#include "writer.h"
#ifndef VL
#define VL 1
#endif
void EXPORT_IMAGE(DString *out, const char *source, token *text, link *link, scratch_pad *scratch, bool is_figure);
struct in { char v[VL]; unsigned char key, fig; } IN;
#include "vh_in.h"
void TREE1(DString *out, const char *source, token *t, scratch_pad *scratch) {}
void store_asset(scratch_pad *scratch, char *url) {}
void mmd_print_string_opendocument(DString *out, const char *str, bool line_breaks) {}
double strtod(const char *s, char **end) { return 0.5; }    /* the number itself is not judged */
char *label_from_token(const char *source, token *t) { char *r = malloc(2); ASSUME(r != 0); r[0] = 'l'; r[1] = 0; return r; }
int main(void) {
	IN_LOAD();
	char *val = malloc(VL + 1); ASSUME(val != 0);
	for (int i = 0; i < VL; i++) { ASSUME(IN.v[i] != 0); val[i] = IN.v[i]; }
	val[VL] = 0;
	static char kw[] = "width", kh[] = "height", ko[] = "class";
	static attr a; a.key = (IN.key % 3) == 0 ? kw : ((IN.key % 3) == 1 ? kh : ko); a.value = val; a.next = 0;
	static link l; static char url[] = "u"; l.url = url; l.attributes = &a; l.title = 0; l.label = 0;
	static char src[8] = "![a](u)";
	token *text = token_new(PAIR_BRACKET_IMAGE, 0, 4);
	scratch_pad *sp = calloc(1, sizeof(scratch_pad)); ASSUME(sp != 0);
	DString *out = d_string_new("");
	EXPORT_IMAGE(out, src, text, &l, sp, IN.fig & 1);
	COVER((IN.key % 3) == 0); COVER((IN.key % 3) == 1 && IN.v[VL - 1] == '%'); COVER((IN.key % 3) == 2);
#if VL >= 2
	COVER(IN.v[VL - 2] == 'P' && IN.v[VL - 1] == 'x' && (IN.key % 3) == 0);
#endif
	return 0;
}
