/* C01: TextBundle asset substitution (real textbundle.c sub_asset_paths + traverse_for_images) on a document holding an inline image
   `![a](url)` whose destination has ANY length up to PMAX bytes: the url is copied out of the text without leaving the buffer that
   receives it (the caller's stack buffer) or the text.  clean_string is abstract; the asset hash is empty (no substitution follows). */
#include "vh.h"
#include <stdlib.h>
#include <string.h>
#include "libMultiMarkdown.h"
#include "mmd.h"
#include "d_string.h"
#include "token.h"
#include "stack.h"
#include "writer.h"
#ifndef PMAX
#define PMAX 1200
#endif
void sub_asset_paths(DString *text, mmd_engine *e);
struct in { size_t plen; unsigned char nested; } IN;
#include "vh_in.h"
static char body[PMAX + 16];
char *clean_string(const char *str, bool lowercase, bool clean_html) { char *r = malloc(2); ASSUME(r != 0); r[0] = 'u'; r[1] = 0; return r; }
int main(void) {
	IN_LOAD();
	size_t plen = IN.plen; ASSUME(plen >= 2 && plen <= PMAX);           /* a PAIR_PAREN spans at least its two delimiters */
	for (int i = 0; i < 8; i++) body[i] = "![a](xx)"[i];
	body[PMAX + 15] = 0;
	DString text; text.str = body; text.currentStringLength = PMAX + 15; text.currentStringBufferSize = sizeof body;
	static mmd_engine e; e.metadata_stack = stack_new(0); e.definition_stack = stack_new(0); e.link_stack = stack_new(0);
	token *root = token_new(0, 0, 4 + plen), *para = token_new(BLOCK_PARA, 0, 4 + plen);
	token *img = token_new(PAIR_BRACKET_IMAGE, 0, 4), *par = token_new(PAIR_PAREN, 4, plen);
	token_append_child(para, img); token_append_child(para, par);
	if (IN.nested & 1) { token *q = token_new(BLOCK_BLOCKQUOTE, 0, 4 + plen); token_append_child(q, para); token_append_child(root, q); } else token_append_child(root, para);
	e.root = root;
	sub_asset_paths(&text, &e);
	COVER(plen == PMAX); COVER(plen == 2); COVER((IN.nested & 1) && plen == 1002);
	return 0;
}
