/* C18: one step of the token-pool protocol from an ARBITRARY protocol state (inductive; covers well-bracketed histories of any
   length).  Real token.c (#included: static token_pool / token_pool_count reachable), object_pool.c, stack.c. */
#include "vh.h"
#include <stdlib.h>
#include "token.c"
#ifndef NOBJ
#define NOBJ 4
#endif
struct in { short c; int have_pool, drained, op; size_t k; size_t nprev; } IN;
#include "vh_in.h"
int main(void) {
	IN_LOAD();
	short c = IN.c; ASSUME(c >= 0 && c < 1000);
	ASSUME(c == 0 || IN.have_pool);                         /* PROTOINV: outstanding inits imply a pool */
	char *slab = 0, *slab0 = 0; size_t nslabs = 0;
	if (IN.have_pool) {
		token_pool = malloc(sizeof(pool)); ASSUME(token_pool != 0);
		token_pool->object_size = sizeof(token);
		token_pool->allocated = stack_new(8); ASSUME(token_pool->allocated != 0);       /* capacity is irrelevant to the protocol; 8 slots keep the object small */
		if (IN.drained) { token_pool->next = 0; token_pool->last = 0; }
		else {
			ASSUME(IN.nprev <= 1);
			if (IN.nprev) { slab0 = malloc(sizeof(token) * NOBJ); ASSUME(slab0 != 0); stack_push(token_pool->allocated, slab0); nslabs++; }   /* an older, full slab */
			slab = malloc(sizeof(token) * NOBJ); ASSUME(slab != 0); stack_push(token_pool->allocated, slab); nslabs++;
			ASSUME(IN.k <= NOBJ);
			token_pool->next = slab + IN.k * sizeof(token); token_pool->last = slab + NOBJ * sizeof(token);   /* POOLINV */
		}
	} else token_pool = 0;
	token_pool_count = c;
#if OP == 0
	{                        /* init */
		token_pool_init();
		COVER(IN.have_pool); COVER(!IN.have_pool);
		CHECK(token_pool != 0, "init: a pool exists afterwards");
		CHECK(token_pool_count == c + 1, "init: use counter incremented");
		if (IN.have_pool) { CHECK(token_pool->allocated->size == nslabs, "init on an existing pool touches no slab"); if (slab) slab[0] = 1; if (slab0) slab0[0] = 1; }
		else CHECK(token_pool->allocated->size == 1 && token_pool->next != 0 && (char *) token_pool->last == (char *) token_pool->next + sizeof(token) * NOBJ, "init creates a fresh pool with one empty slab");
	}
#elif OP == 1
	{                 /* token_new inside a bracket */
		ASSUME(c > 0);
		token *t = token_new(3, 1, 2);
		CHECK(t != 0, "token_new returns a token");
		t->len = 5; t->mate = 0; t->tail = t;                  /* wholly writable */
		CHECK(token_pool->allocated->size >= nslabs && token_pool->allocated->size <= nslabs + 1, "allocation frees nothing, adds at most one slab");
		if (slab) slab[0] = 1; if (slab0) slab0[0] = 1;         /* earlier slabs (earlier tokens) are still live */
		if (slab && IN.k < NOBJ) CHECK((char *) t == slab + IN.k * sizeof(token), "bump allocation hands out the next free slot");
		if (slab && IN.k == NOBJ) CHECK((char *) t == (char *) stack_peek(token_pool->allocated) && (char *) t != slab && token_pool->allocated->size == nslabs + 1, "a full slab is never reused: the token is the first slot of a NEW slab");
		if (!slab) CHECK((char *) t == (char *) stack_peek(token_pool->allocated) && token_pool->allocated->size == 1, "a drained pool gets a new slab");
		CHECK((char *) token_pool->next == (char *) t + sizeof(token), "bump pointer advanced by one object");
		COVER(slab != 0 && IN.k == NOBJ); COVER(slab == 0); COVER(slab != 0 && IN.k == NOBJ - 1);
	}
#elif OP == 2
	{                 /* drain */
		ASSUME(c > 0);
		token_pool_drain();
		CHECK(token_pool_count == c - 1, "drain: use counter decremented");
		if (c > 1) { CHECK(token_pool->allocated->size == nslabs, "inner drain releases nothing"); if (slab) slab[1] = 1; if (slab0) slab0[1] = 1; }
		else { CHECK(token_pool->allocated->size == 0, "outermost drain releases every slab"); CHECK(token_pool->next == 0 && token_pool->last == 0, "outermost drain leaves a clean pool"); }
		COVER(c == 1 && nslabs == 2); COVER(c > 1 && nslabs == 2);
	}
#elif OP == 3
	{                 /* free */
		ASSUME(c == 0);
		token_pool_free();
		CHECK(token_pool == 0, "free: no pool afterwards (a later init starts clean)");
		COVER(IN.have_pool && !IN.drained); COVER(!IN.have_pool);
	}
#endif
	/* PROTOINV re-established */
	CHECK(token_pool_count == 0 || token_pool != 0, "PROTOINV: outstanding inits imply a pool");
	if (token_pool) {
		if (token_pool->allocated->size == 0) CHECK(token_pool->next == 0 && token_pool->last == 0, "POOLINV: a pool without slabs has next == last == NULL");
		else {
			char *top = (char *) stack_peek(token_pool->allocated);
			size_t used = (size_t) ((char *) token_pool->next - top);
			CHECK((char *) token_pool->last == top + sizeof(token) * NOBJ, "POOLINV: last is one past the newest slab");
			CHECK(used <= sizeof(token) * NOBJ && used % sizeof(token) == 0, "POOLINV: next is a slot boundary inside the newest slab");
		}
	}
	COVER(1);
	return 0;
}
