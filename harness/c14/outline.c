/* C14: OPML outline construction (real opml.c mmd_outline_add_opml) for an arbitrary pair/triple of headings:
   (a) the text stored as the previous item's note is EXACTLY the source span between the end of that heading and the start of the next
       one (nothing of the body lost or duplicated);
   (b) an item is closed exactly when its heading level is >= the new heading's level -- whatever the `base header level` metadata says
       (the offset applies to both sides), so sibling headings stay siblings on re-import.
   mmd_print_source_opml is replaced by a recorder of (start, len); the DString is a counter of the literal pieces written. */
#include "vh.h"
#include <stdlib.h>
#include <string.h>
#include "libMultiMarkdown.h"
#include "d_string.h"
#include "token.h"
#include "stack.h"
#include "writer.h"
#ifndef FN
#define FN mmd_outline_add_opml
#define SRCFN mmd_print_source_opml
#define OPENCH 'o'          /* "<outline"; the iThoughts twin (itmz.c) writes "<topic " */
#endif
void FN(DString *out, const char *source, token *current, scratch_pad *scratch);
struct in { unsigned char ka, kb, kc; short base; size_t a_start, a_len, gap1, b_len, gap2, c_len; unsigned char two, doc_end, closed; } IN;
#include "vh_in.h"
static int n_src; static size_t src_start, src_len; static int n_close, n_open, n_quote;
void SRCFN(DString *out, const char *source, size_t start, size_t len) { n_src++; src_start = start; src_len = len; }
DString *d_string_new(const char *s) { DString *d = malloc(sizeof(DString)); ASSUME(d != 0); d->str = 0; d->currentStringLength = 0; d->currentStringBufferSize = 1; return d; }
void d_string_append_c_array(DString *d, const char *s, size_t n) { if (s[0] == '<' && s[1] == '/') n_close++; else if (s[0] == '<' && s[1] == OPENCH) n_open++; else if (s[0] == '"' && s[1] == '>') n_quote++; }
void d_string_append(DString *d, const char *s) {}
char *uuid_new(void) { char *r = malloc(4); ASSUME(r != 0); r[0] = 'u'; r[1] = 0; return r; }      /* the iThoughts twin gives every topic a fresh uuid */
void d_string_append_c(DString *d, char c) {}
static const unsigned short KIND[8] = { BLOCK_H1, BLOCK_H2, BLOCK_H3, BLOCK_H4, BLOCK_H5, BLOCK_H6, BLOCK_SETEXT_1, BLOCK_SETEXT_2 };
static int lvl(unsigned k) { return k < 6 ? (int) k + 1 : (int) k - 5; }
int main(void) {
	IN_LOAD();
	ASSUME(IN.ka < 8 && IN.kb < 8 && IN.kc < 8 && IN.base >= -8 && IN.base <= 8);        /* atoi() of the metadata value: any sign */
	ASSUME(IN.a_start <= 4 && IN.a_len >= 1 && IN.a_len <= 4 && IN.gap1 <= 4 && IN.b_len >= 1 && IN.b_len <= 4 && IN.gap2 <= 4 && IN.c_len >= 1 && IN.c_len <= 4);
	static scratch_pad sp; sp.base_header_level = IN.base; sp.outline_stack = stack_new(0); sp.opml_item_closed = IN.closed & 1;
	token *a = token_new(KIND[IN.ka], IN.a_start, IN.a_len);
	size_t b_start = IN.a_start + IN.a_len + IN.gap1;
	token *b = token_new(KIND[IN.kb], b_start, IN.b_len);
	size_t c_start = b_start + IN.b_len + IN.gap2;
	token *c = (IN.doc_end & 1) ? token_new(DOC_START_TOKEN, 0, c_start + IN.c_len) : token_new(KIND[IN.kc], c_start, IN.c_len);
	/* body blocks follow their heading: setext headings take the next block's start as the start of their body */
	token *body_b = token_new(BLOCK_PARA, b_start + IN.b_len, IN.gap2); b->next = body_b; body_b->prev = b;
	/* stack holds a (optionally) and b, as left by earlier calls for a well-nested prefix: a is an ancestor of b */
	int two = IN.two & 1;
	if (two) { ASSUME(lvl(IN.ka) < lvl(IN.kb)); stack_push(sp.outline_stack, a); }
	stack_push(sp.outline_stack, b);
	DString *out = d_string_new("");
	FN(out, "", c, &sp);
	/* (a) the note of the last open item */
	if (!(IN.closed & 1)) {
		size_t body_start = (IN.kb >= 6) ? body_b->start : b_start + IN.b_len;
		CHECK(n_src == 1 && src_start == body_start, "the item's note starts right after its heading");
		if (IN.doc_end & 1) CHECK(src_start + src_len == c->start + c->len, "the last item's note runs to the end of the document");
		else CHECK(src_start + src_len == c_start, "the item's note ends exactly where the next heading starts: no body character lost or repeated");
		CHECK(n_quote == 1, "the note attribute is closed once");
	} else CHECK(n_src == 0, "a closed item gets no second note");
	/* (b) which items are closed */
	int cur = (IN.doc_end & 1) ? 0 : lvl(IN.kc);
	int expect = 0;
	if (lvl(IN.kb) >= cur) { expect = 1; if (two && lvl(IN.ka) >= cur) expect = 2; }
	CHECK(n_close == expect, "an item is closed exactly when its heading level is >= the new heading's level, independent of base header level");
	CHECK(n_open == ((IN.doc_end & 1) ? 0 : 1), "every heading opens exactly one outline item");
	CHECK(sp.outline_stack->size == (size_t) ((two ? 2 : 1) - expect + ((IN.doc_end & 1) ? 0 : 1)), "outline stack tracks the open items");
	COVER(IN.base > 1 && expect == 1 && lvl(IN.kb) == cur); COVER(expect == 2); COVER(expect == 0); COVER(IN.kb >= 6 && !(IN.closed & 1)); COVER(IN.doc_end & 1);
	COVER(1);
	return 0;
}
