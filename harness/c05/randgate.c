/* C05: libc's rand()/srand() (process-global, history dependent) are consulted by the export prologue only when random anchors/labels
   were requested; otherwise the seeds are the constant 0.  Real writer.c scratch_pad_new. */
#include "vh.h"
#include <stdlib.h>
#include "libMultiMarkdown.h"
#include "mmd.h"
#include "d_string.h"
#include "token.h"
#include "stack.h"
#include "writer.h"
struct in { unsigned long ext; short fmt; int r; } IN;
#include "vh_in.h"
static int n_rand;
int rand(void) { n_rand++; ASSUME(IN.r >= 0); return IN.r; }
void srand(unsigned s) { n_rand++; }
int main(void) {
	IN_LOAD();
	ASSUME((IN.ext & ~0x1ffffUL) == 0); ASSUME(IN.fmt >= 0 && IN.fmt <= FORMAT_MMD);
	static mmd_engine e;
	e.extensions = IN.ext; e.language = 0; e.quotes_lang = 0;
	e.abbreviation_stack = stack_new(0); e.citation_stack = stack_new(0); e.critic_stack = stack_new(0); e.definition_stack = stack_new(0); e.footnote_stack = stack_new(0);
	e.glossary_stack = stack_new(0); e.header_stack = stack_new(0); e.link_stack = stack_new(0); e.metadata_stack = stack_new(0); e.table_stack = stack_new(0);
	e.asset_hash = 0;
	scratch_pad *p = scratch_pad_new(&e, IN.fmt);
	CHECK(p != 0, "scratch pad created");
	if (!(IN.ext & (EXT_RANDOM_FOOT | EXT_RANDOM_LABELS))) CHECK(n_rand == 0, "rand()/srand() not consulted unless random anchors or labels were requested");
	if (!(IN.ext & EXT_RANDOM_FOOT)) CHECK(p->random_seed_base == 0, "footnote seed base is the constant 0 without --random");
	if (!(IN.ext & EXT_RANDOM_LABELS)) CHECK(p->random_seed_base_labels == 0, "label seed base is the constant 0 without --unique");
	CHECK(p->label_counter == 0 && p->recurse_depth == 0 && p->skip_token == 0 && p->footnote_being_printed == 0 && p->citation_being_printed == 0 && p->glossary_being_printed == 0, "per-export writer state starts from constants");
	CHECK(p->used_footnotes->size == 0 && p->used_citations->size == 0 && p->used_glossaries->size == 0 && p->used_abbreviations->size == 0, "no used-note state inherited");
	COVER(n_rand == 2); COVER(n_rand == 0);
	COVER(1);
	return 0;
}
