/* C05: a parse leaves the engine's option word exactly as the caller set it and starts from a reset engine: real mmd.c
   mmd_engine_parse_substring with the tokeniser, block parser and pairing passes as observer stubs.  The temporary EXT_NO_METADATA used for
   sub-range parses must not survive the call (it would change the next conversion on the same engine). */
#include "vh.h"
#include <stdlib.h>
#include <string.h>
#include "libMultiMarkdown.h"
#include "mmd.h"
#include "d_string.h"
#include "token.h"
#include "stack.h"
#include "token_pairs.h"
struct in { unsigned long ext; size_t start, len; unsigned char stale; } IN;
#include "vh_in.h"
static int n_reset, n_tok, order_ok = 1; static unsigned long ext_during; static token doc;
void mmd_engine_reset(mmd_engine *e) { n_reset++; e->root = 0; }
token *mmd_tokenize_string(mmd_engine *e, size_t start, size_t len, bool stop_on_empty_line) { n_tok++; if (n_reset != 1) order_ok = 0; ext_during = e->extensions; return &doc; }
void mmd_parse_token_chain(mmd_engine *e, token *chain) {}
void mmd_assign_ambidextrous_tokens_in_block(mmd_engine *e, token *block, size_t start_offset) {}
void mmd_pair_tokens_in_block(token *block, token_pair_engine *e, stack *s) {}
void pair_emphasis_tokens(token *t) {}
void mmd_convert_opml_string(mmd_engine *e, size_t start, size_t len) {}
void mmd_convert_itmz_string(mmd_engine *e, size_t start, size_t len) {}
int main(void) {
	IN_LOAD();
	ASSUME((IN.ext & ~0x1ffffUL) == 0);
	static mmd_engine e; e.extensions = IN.ext; e.dstr = d_string_new("abcd");
	ASSUME(IN.start <= 4 && (IN.len == (size_t) -1 || IN.len <= 4 - IN.start));
	static token stale; if (IN.stale & 1) e.root = &stale;
	token *r = mmd_engine_parse_substring(&e, IN.start, IN.len);
	CHECK(e.extensions == IN.ext, "the engine's extension word is exactly what the caller set, after every parse");
	CHECK(n_reset == 1 && n_tok == 1 && order_ok, "the engine is reset before the text is tokenised (nothing of an earlier parse is visible)");
	if (IN.start != 0) CHECK(ext_during & EXT_NO_METADATA, "a sub-range parse does not look for metadata"); else if (!(IN.ext & EXT_NO_METADATA)) CHECK(!(ext_during & EXT_NO_METADATA), "a whole-text parse looks for metadata unless told not to");
	CHECK(r == &doc, "the new tree is returned");
	COVER(IN.start != 0 && !(IN.ext & EXT_NO_METADATA)); COVER(IN.ext & EXT_PARSE_OPML); COVER(IN.stale & 1);
	COVER(1);
	return 0;
}
