/* C05: mmd_engine_reset leaves nothing of a previous parse behind, whatever the engine held (real mmd.c + writer.c free functions). */
#include "vh.h"
#include <stdlib.h>
#include <string.h>
#include "libMultiMarkdown.h"
#include "mmd.h"
#include "d_string.h"
#include "token.h"
#include "stack.h"
#include "writer.h"
struct in { unsigned char n[10]; unsigned char has_root; unsigned short depth; } IN;
#include "vh_in.h"
static char *dup1(char c) { char *s = malloc(2); ASSUME(s != 0); s[0] = c; s[1] = 0; return s; }
static footnote *mk_note(void) { footnote *f = calloc(1, sizeof(footnote)); ASSUME(f != 0); f->clean_text = dup1('c'); f->label_text = dup1('l'); return f; }
static link *mk_link(void) { link *l = calloc(1, sizeof(link)); ASSUME(l != 0); l->label_text = dup1('l'); l->clean_text = dup1('c'); l->url = dup1('u'); l->title = dup1('t'); return l; }
static meta *mk_meta(void) { meta *m = calloc(1, sizeof(meta)); ASSUME(m != 0); m->key = dup1('k'); m->value = dup1('v'); return m; }
int main(void) {
	IN_LOAD();
#ifdef OWNERSHIP
	for (int i = 0; i < 10; i++) IN.n[i] = IN.n[i] & 1 & (i == 7 || i == 8);      /* only links/metadata vary; the notes are set up below */
#endif
	for (int i = 0; i < 10; i++) ASSUME(IN.n[i] <= 2);
	static mmd_engine e; static token dummy[4];
	e.abbreviation_stack = stack_new(0); e.citation_stack = stack_new(0); e.critic_stack = stack_new(0); e.definition_stack = stack_new(0); e.footnote_stack = stack_new(0);
	e.glossary_stack = stack_new(0); e.header_stack = stack_new(0); e.link_stack = stack_new(0); e.metadata_stack = stack_new(0); e.table_stack = stack_new(0);
	e.asset_hash = 0; e.recurse_depth = 0;
	for (int k = 0; k < 2; k++) {
		if (k < IN.n[0]) stack_push(e.abbreviation_stack, mk_note());
		if (k < IN.n[1]) stack_push(e.citation_stack, mk_note());
		if (k < IN.n[2]) stack_push(e.critic_stack, &dummy[0]);
		if (k < IN.n[3]) stack_push(e.definition_stack, &dummy[1]);
		if (k < IN.n[4]) stack_push(e.footnote_stack, mk_note());
		if (k < IN.n[5]) stack_push(e.glossary_stack, mk_note());
		if (k < IN.n[6]) stack_push(e.header_stack, &dummy[2]);
		if (k < IN.n[7]) stack_push(e.link_stack, mk_link());
		if (k < IN.n[8]) stack_push(e.metadata_stack, mk_meta());
		if (k < IN.n[9]) stack_push(e.table_stack, &dummy[3]);
	}
#ifdef OWNERSHIP
	/* C01 ownership: a reference-style note's content block lives in the document tree (free_para == false) and is freed with the tree;
	   an inline note owns a detached paragraph (free_para == true).  With the pool disabled every token is freed individually:
	   reset must free each exactly once (CBMC: double free / use after free). */
	{
		token *root = token_new(DOC_START_TOKEN, 0, 8), *blk = token_new(BLOCK_PARA, 0, 4), *txt = token_new(TEXT_PLAIN, 0, 4);
		ASSUME(root && blk && txt); token_append_child(blk, txt); token_append_child(root, blk);
		e.root = root;
		footnote *f = mk_note(); f->content = blk; f->free_para = false; stack_push(e.footnote_stack, f);
		/* inline note: footnote_new() wrapped tokens that still belong to the tree in a BLOCK_PARA of its own -- only the wrapper is the note's */
		token *inl = token_new(TEXT_PLAIN, 4, 2); ASSUME(inl != 0); token_append_child(blk, inl);
		footnote *g = mk_note(); g->content = token_new(BLOCK_PARA, 4, 2); ASSUME(g->content != 0); g->content->child = inl; g->free_para = true; stack_push(e.citation_stack, g);
		footnote *h = mk_note(); h->content = blk; h->free_para = false; stack_push(e.glossary_stack, h);
		footnote *a = mk_note(); a->content = blk; a->free_para = false; stack_push(e.abbreviation_stack, a);
	}
#else
	if (IN.has_root) { e.root = malloc(sizeof(token)); ASSUME(e.root != 0); memset(e.root, 0, sizeof(token)); e.root->tail = e.root; } else e.root = 0;
#endif
	mmd_engine_reset(&e);
	CHECK(e.root == 0, "reset: no parse tree of the previous conversion survives");
	CHECK(e.abbreviation_stack->size == 0 && e.citation_stack->size == 0 && e.footnote_stack->size == 0 && e.glossary_stack->size == 0, "reset: no note definitions survive");
	CHECK(e.link_stack->size == 0 && e.metadata_stack->size == 0, "reset: no link definitions or metadata survive");
	CHECK(e.critic_stack->size == 0 && e.definition_stack->size == 0 && e.header_stack->size == 0 && e.table_stack->size == 0, "reset: no block bookkeeping survives");
	CHECK(e.asset_hash == 0, "reset: no assets survive");
#ifndef OWNERSHIP
	COVER(IN.n[4] == 2 && IN.n[1] == 2 && IN.n[7] == 2); COVER(IN.has_root);
#endif
	COVER(1);
	return 0;
}
