/* C05: the e-mail obfuscation stream does not depend on earlier conversions in the process.
   rng.c's contract is modelled exactly: ran_start(seed) restarts the stream of that seed, ran_num_next() returns element k of the
   current stream (an uninterpreted function UF[seed][k]); a stream that is never restarted continues where the previous export left
   it -- that is the history dependence.  Real writer.c scratch_pad_new (export prologue) and html.c mmd_print_string_html. */
#include "vh.h"
#include <stdarg.h>
#include <stdlib.h>
#include <string.h>
#include "libMultiMarkdown.h"
#include "mmd.h"
#include "d_string.h"
#include "token.h"
#include "stack.h"
#include "writer.h"
#include "html.h"
#include <stdio.h>
int verif_fprintf(FILE *f, const char *fmt, ...) { return 0; }
void verif_exit(int c) { ASSUME(0); }
void mmd_export_token_tree_html(DString *out, const char *source, token *t, scratch_pad *scratch) {}
void mmd_export_token_tree_html_raw(DString *out, const char *source, token *t, scratch_pad *scratch) {}
void mmd_export_token_tree_html_math(DString *out, const char *source, token *t, scratch_pad *scratch) {}
/* the autolink `<xy>` is an e-mail address: writer.c url_accept / scanners.c scan_email answer accordingly */
char *url_accept(const char *source, size_t start, size_t max_len, size_t *end_pos, bool validate) { char *r = malloc(10); ASSUME(r != 0); const char *m = "mailto:"; for (int i = 0; i < 7; i++) r[i] = m[i]; r[7] = source[start]; r[8] = source[start + 1]; r[9] = 0; return r; }
size_t scan_email(const char *c) { return 1; }
struct in { unsigned long ext; long uf[2][40]; char s[2]; unsigned char prior; } IN;
#include "vh_in.h"
static int cur_seed_idx = 0, pos = 0; static long seeds[2] = { 314159L, 0 }; static int n_seeds = 1;   /* stream 0 = the default (never started) stream */
void ran_start(long seed) { int k = -1; for (int i = 0; i < 2; i++) if (i < n_seeds && seeds[i] == seed) k = i; if (k < 0) { ASSUME(n_seeds < 2); k = n_seeds; seeds[n_seeds++] = seed; } cur_seed_idx = k; pos = 0; }
long ran_num_next(void) { ASSUME(pos < 40); long v = IN.uf[cur_seed_idx][pos++]; ASSUME(v >= 0); return v; }
static long drawn[2][20]; static int nd[2]; static int which;
void d_string_append_printf(DString *d, const char *f, ...) { va_list ap; va_start(ap, f); int v = va_arg(ap, int); va_end(ap); if (nd[which] < 20) drawn[which][nd[which]++] = (f[2] == 'x' ? 1000 : 0) + v; }
static void mk_engine(mmd_engine *e) {
	memset(e, 0, sizeof *e); e->extensions = IN.ext | EXT_OBFUSCATE;
	e->abbreviation_stack = stack_new(0); e->citation_stack = stack_new(0); e->critic_stack = stack_new(0); e->definition_stack = stack_new(0); e->footnote_stack = stack_new(0);
	e->glossary_stack = stack_new(0); e->header_stack = stack_new(0); e->link_stack = stack_new(0); e->metadata_stack = stack_new(0); e->table_stack = stack_new(0);
}
static void one_export(int w) {
	static mmd_engine e; mk_engine(&e);
	which = w;
	scratch_pad *p = scratch_pad_new(&e, FORMAT_HTML);          /* export prologue */
	char src[5]; src[0] = '<'; src[1] = IN.s[0]; src[2] = IN.s[1]; src[3] = '>'; src[4] = 0;
	DString *out = d_string_new("");
	token *t = token_new(PAIR_ANGLE, 0, 4);
	mmd_export_token_html(out, src, t, p);                        /* an e-mail autolink being obfuscated (real PAIR_ANGLE case) */
}
int main(void) {
	IN_LOAD();
	ASSUME((IN.ext & ~0x1ffffUL) == 0 && !(IN.ext & (EXT_RANDOM_FOOT | EXT_RANDOM_LABELS)));
	ASSUME(IN.s[0] > 32 && IN.s[0] < 127 && IN.s[1] > 32 && IN.s[1] < 127 && IN.s[0] != '"' && IN.s[0] != '&' && IN.s[0] != '<' && IN.s[0] != '>' && IN.s[1] != '"' && IN.s[1] != '&' && IN.s[1] != '<' && IN.s[1] != '>');
	/* an arbitrary earlier history: 0..3 numbers already drawn by previous conversions in this process */
	ASSUME(IN.prior <= 3); for (int i = 0; i < 3; i++) if (i < IN.prior) (void) ran_num_next();
	int pos_before = pos;
	one_export(0);
	/* the same conversion as the FIRST thing a fresh process does */
	cur_seed_idx = 0; pos = 0;
	one_export(1);
	CHECK(nd[0] == 18 && nd[1] == 18, "href and text (mailto: + 2 characters, twice) obfuscated in both runs");
	for (int i = 0; i < 20; i++) if (i < nd[0]) CHECK(drawn[0][i] == drawn[1][i], "obfuscated bytes identical whatever was converted earlier in the process");
	COVER(IN.prior == 3); COVER(drawn[0][0] >= 1000);
	COVER(1);
	return 0;
}
