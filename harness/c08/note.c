/* C08: the short and long form of an abbreviation (and the clean text of a glossary entry) are document text placed into XML by the
   note cases of the writers; first use, re-use, reference and inline definitions take different code paths.  Real
   mmd_export_token_<writer> (PAIR_BRACKET_ABBREVIATION / PAIR_BRACKET_GLOSSARY), writer.c bookkeeping as contract stubs, output fed to
   the streaming recogniser.  Oracle as in attr.c: same number of `"` and `<` as for harmless text, every `&` a reference. */
#include "vh.h"
#include <stdlib.h>
#include <string.h>
#include <stdarg.h>
#include "libMultiMarkdown.h"
#include "d_string.h"
#include "token.h"
#include "stack.h"
#include "writer.h"
void EXPORT(DString *out, const char *source, token *t, scratch_pad *scratch);
#ifndef N
#define N 2
#endif
struct in { unsigned char reuse, inline_def; } IN;
#include "vh_in.h"
/* Taint-style oracle: the note's short and long form are the only document text this case handles.  Every way of writing to the output
   other than the format's escaper (mmd_print_string_<fmt>, body removed; its escaping is what c08_text_* prove) is checked not to be handed
   those strings: a raw append / %s of note text is exactly an unescaped placement. */
static const char *T1, *T2; static int n_escaped, n_raw;
static int tainted(const char *s) { return s != 0 && (s == T1 || s == T2); }
DString *d_string_new(const char *s) { DString *d = malloc(sizeof(DString)); ASSUME(d != 0); d->str = 0; d->currentStringLength = 0; d->currentStringBufferSize = 1; return d; }
char *d_string_free(DString *d, bool f) { free(d); return 0; }
void d_string_append_c(DString *d, char c) {}
void d_string_append(DString *d, const char *s) { if (tainted(s)) n_raw++; }
void d_string_append_c_array(DString *d, const char *s, size_t n) { if (tainted(s)) n_raw++; }
void d_string_erase(DString *d, size_t pos, size_t len) {}
void d_string_append_printf(DString *d, const char *f, ...) {
	va_list ap; va_start(ap, f);
	for (size_t i = 0; f[i]; i++) {
		if (f[i] == '%' && f[i + 1] == 's') { const char *s = va_arg(ap, const char *); if (tainted(s)) n_raw++; i++; }
		else if (f[i] == '%' && f[i + 1] == 'd') { (void) va_arg(ap, int); i++; }
		else if (f[i] == '%' && f[i + 1] == '%') i++;
	}
	va_end(ap);
}
void ESCAPER(DString *out, const char *str, bool a, bool b) { if (tainted(str)) n_escaped++; }
#ifdef ESCAPER3
void ESCAPER3(DString *out, const char *str, bool a) { if (tainted(str)) n_escaped++; }
#endif
void TREE1(DString *out, const char *source, token *t, scratch_pad *scratch) {}
#ifdef TREE2
void TREE2(DString *out, const char *source, token *t, scratch_pad *scratch) {}
#endif
#ifdef TREE3
void TREE3(DString *out, const char *source, token *t, scratch_pad *scratch) {}
#endif
static footnote the_note; static int g_reuse, g_inline;
static void from_bracket(scratch_pad *scratch, stack *used, stack *inl, short *num) {
	if (!g_reuse) { stack_push(used, &the_note); if (g_inline) stack_push(inl, &the_note); }
	*num = used->size;
}
void abbreviation_from_bracket(const char *source, scratch_pad *scratch, token *t, short *num) { from_bracket(scratch, scratch->used_abbreviations, scratch->inline_abbreviations_to_free, num); }
void glossary_from_bracket(const char *source, scratch_pad *scratch, token *t, short *num) { from_bracket(scratch, scratch->used_glossaries, scratch->inline_glossaries_to_free, num); }
void pad(DString *d, short num, scratch_pad *scratch) {}
static void render(const char *label, const char *clean) {
	scratch_pad *sp = calloc(1, sizeof(scratch_pad)); ASSUME(sp != 0);
	sp->extensions = EXT_NOTES; sp->padded = 2; sp->close_para = 1; sp->odf_para_type = BLOCK_PARA;
	sp->used_abbreviations = stack_new(0); sp->inline_abbreviations_to_free = stack_new(0); sp->used_glossaries = stack_new(0); sp->inline_glossaries_to_free = stack_new(0);
	the_note.label_text = (char *) label; the_note.clean_text = (char *) clean; the_note.content = token_new(BLOCK_PARA, 0, 0);
	if (IN.reuse & 1) { stack_push(sp->used_abbreviations, &the_note); stack_push(sp->used_glossaries, &the_note); }
	g_reuse = IN.reuse & 1; g_inline = IN.inline_def & 1;
	T1 = label; T2 = clean;
	token *t = token_new(NOTEKIND, 0, 4);
	token *o = token_new(BRACKET_ABBREVIATION_LEFT, 0, 2), *x = token_new(TEXT_PLAIN, 2, 1), *c = token_new(BRACKET_RIGHT, 3, 1);
	token_append_child(t, o); token_append_child(t, x); token_append_child(t, c); o->mate = c; c->mate = o;
	DString *out = d_string_new("");
	EXPORT(out, "[>a]", t, sp);
}
int main(void) {
	IN_LOAD();
	static char a[2] = "s", b[2] = "l";
	render(a, b);
	CHECK(n_raw == 0, "note text reaches the output only through the format's escaper, on every path (first use / re-use, reference / inline definition)");
	CHECK(n_escaped >= 1, "the note text is written");
	COVER((IN.reuse & 1) && !(IN.inline_def & 1)); COVER(!(IN.reuse & 1) && (IN.inline_def & 1)); COVER_OPT(n_escaped >= 2);
	COVER(1);
	return 0;
}
