/* C08: the short and long form of an abbreviation (and the clean text of a glossary entry) are document text placed into XML by the
   note cases of the writers; first use, re-use, reference and inline definitions take different code paths.  Real
   mmd_export_token_<writer> (PAIR_BRACKET_ABBREVIATION / PAIR_BRACKET_GLOSSARY), writer.c bookkeeping as contract stubs, output fed to
   the streaming recogniser.  Oracle as in attr.c: same number of `"` and `<` as for harmless text, every `&` a reference. */
#include "vh.h"
#include <stdlib.h>
#include <string.h>
#include <stdarg.h>
#include "libMultiMarkdown.h"
#include "d_string.h"
#include "token.h"
#include "stack.h"
#include "writer.h"
void EXPORT(DString *out, const char *source, token *t, scratch_pad *scratch);
#ifndef N
#define N 2
#endif
struct in { char a[N], b[N]; unsigned char reuse, inline_def; } IN;
#include "vh_in.h"
struct stat_ { int q, lt, badamp, amp, el; char ent[6]; size_t n; } ST;
static void feed(char c) {
	ST.n++;
	if (ST.amp) {
		if (c == ';') { ST.ent[ST.el < 6 ? ST.el : 5] = 0; const char *e = ST.ent;
			int ok = (e[0]=='a'&&e[1]=='m'&&e[2]=='p'&&e[3]==0) || (e[0]=='l'&&e[1]=='t'&&e[2]==0) || (e[0]=='g'&&e[1]=='t'&&e[2]==0) || (e[0]=='q'&&e[1]=='u'&&e[2]=='o'&&e[3]=='t'&&e[4]==0) || (e[0]=='a'&&e[1]=='p'&&e[2]=='o'&&e[3]=='s'&&e[4]==0) || e[0]=='#';
			if (!ok) ST.badamp++; ST.amp = 0; return; }
		if (ST.el >= 5 || !((c >= 'a' && c <= 'z') || (c >= '0' && c <= '9') || c == '#')) { ST.badamp++; ST.amp = 0; }
		else { ST.ent[ST.el++] = c; return; }
	}
	if (c == '"') ST.q++;
	if (c == '<') ST.lt++;
	if (c == '&') { ST.amp = 1; ST.el = 0; }
}
DString *d_string_new(const char *s) { DString *d = malloc(sizeof(DString)); ASSUME(d != 0); d->str = 0; d->currentStringLength = 0; d->currentStringBufferSize = 1; return d; }
char *d_string_free(DString *d, bool f) { free(d); return 0; }
void d_string_append_c(DString *d, char c) { if (c) feed(c); }
void d_string_append(DString *d, const char *s) { if (s) for (size_t i = 0; s[i]; i++) feed(s[i]); }
void d_string_append_c_array(DString *d, const char *s, size_t n) { if (s) { if (n == (size_t) -1) d_string_append(d, s); else for (size_t i = 0; i < n; i++) feed(s[i]); } }
void d_string_erase(DString *d, size_t pos, size_t len) {}
void d_string_append_printf(DString *d, const char *f, ...) {
	va_list ap; va_start(ap, f);
	for (size_t i = 0; f[i]; i++) {
		if (f[i] == '%' && f[i + 1] == 's') { const char *s = va_arg(ap, const char *); d_string_append(d, s); i++; }
		else if (f[i] == '%' && f[i + 1] == 'd') { (void) va_arg(ap, int); feed('1'); i++; }
		else if (f[i] == '%' && f[i + 1] == '%') { feed('%'); i++; }
		else feed(f[i]);
	}
	va_end(ap);
}
#include <stdio.h>
int verif_fprintf(FILE *f, const char *fmt, ...) { return 0; }
void verif_exit(int c) { ASSUME(0); }
void TREE1(DString *out, const char *source, token *t, scratch_pad *scratch) {}
#ifdef TREE2
void TREE2(DString *out, const char *source, token *t, scratch_pad *scratch) {}
#endif
#ifdef TREE3
void TREE3(DString *out, const char *source, token *t, scratch_pad *scratch) {}
#endif
static footnote the_note; static int g_reuse, g_inline;
static void from_bracket(scratch_pad *scratch, stack *used, stack *inl, short *num) {
	if (!g_reuse) { stack_push(used, &the_note); if (g_inline) stack_push(inl, &the_note); }
	*num = used->size;
}
void abbreviation_from_bracket(const char *source, scratch_pad *scratch, token *t, short *num) { from_bracket(scratch, scratch->used_abbreviations, scratch->inline_abbreviations_to_free, num); }
void glossary_from_bracket(const char *source, scratch_pad *scratch, token *t, short *num) { from_bracket(scratch, scratch->used_glossaries, scratch->inline_glossaries_to_free, num); }
void pad(DString *d, short num, scratch_pad *scratch) {}
static void render(const char *label, const char *clean) {
	scratch_pad *sp = calloc(1, sizeof(scratch_pad)); ASSUME(sp != 0);
	sp->extensions = EXT_NOTES; sp->padded = 2; sp->close_para = 1; sp->odf_para_type = BLOCK_PARA;
	sp->used_abbreviations = stack_new(0); sp->inline_abbreviations_to_free = stack_new(0); sp->used_glossaries = stack_new(0); sp->inline_glossaries_to_free = stack_new(0);
	the_note.label_text = (char *) label; the_note.clean_text = (char *) clean; the_note.content = token_new(BLOCK_PARA, 0, 0);
	if (IN.reuse & 1) { stack_push(sp->used_abbreviations, &the_note); stack_push(sp->used_glossaries, &the_note); }
	g_reuse = IN.reuse & 1; g_inline = IN.inline_def & 1;
	memset(&ST, 0, sizeof ST);
	token *t = token_new(NOTEKIND, 0, 4);
	token *o = token_new(BRACKET_ABBREVIATION_LEFT, 0, 2), *x = token_new(TEXT_PLAIN, 2, 1), *c = token_new(BRACKET_RIGHT, 3, 1);
	token_append_child(t, o); token_append_child(t, x); token_append_child(t, c); o->mate = c; c->mate = o;
	DString *out = d_string_new("");
	EXPORT(out, "[>a]", t, sp);
	if (ST.amp) ST.badamp++;
}
int main(void) {
	IN_LOAD();
	char a[N + 1], b[N + 1], ha[N + 1], hb[N + 1];
	for (int i = 0; i < N; i++) { ASSUME(IN.a[i] != 0 && (unsigned char) IN.a[i] >= 32 && IN.b[i] != 0 && (unsigned char) IN.b[i] >= 32); a[i] = IN.a[i]; b[i] = IN.b[i]; ha[i] = 'a'; hb[i] = 'a'; }
	a[N] = b[N] = ha[N] = hb[N] = 0;
	render(a, b); int q1 = ST.q, l1 = ST.lt, b1 = ST.badamp;
	render(ha, hb); int q2 = ST.q, l2 = ST.lt;
	CHECK(q1 == q2, "note text can never close an attribute (no unescaped double quote)");
	CHECK(l1 == l2, "note text can never open markup (no unescaped <)");
	CHECK(b1 == 0, "every & in the output starts a character or entity reference");
	COVER((IN.reuse & 1) && !(IN.inline_def & 1)); COVER(!(IN.reuse & 1) && (IN.inline_def & 1));
	COVER(1);
	return 0;
}
