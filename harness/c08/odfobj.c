/* C08: links and images of the OpenDocument writer (real mmd_export_link_opendocument / mmd_export_image_opendocument) for every shape of
   link record the parser can hand over -- destination present or absent (`[e](` newline `)` yields none), title present or absent,
   width/height attributes present or absent, figure or inline: what is emitted is balanced XML (streaming recogniser: element names match,
   every start tag is closed by '>'), and attribute values taken from the document -- here the hostile constants `1<2` -- reach the output
   only through the escaper (an unescaped `<` derails the recogniser). */
#include "vh.h"
#include <stdlib.h>
#include <string.h>
#include "libMultiMarkdown.h"
#include "mmd.h"
#include "d_string.h"
#include "token.h"
#include "stack.h"
#include "writer.h"
void mmd_export_link_opendocument(DString *out, const char *source, token *text, link *link, scratch_pad *scratch);
void mmd_export_image_opendocument(DString *out, const char *source, token *text, link *link, scratch_pad *scratch, bool is_figure);
struct in { unsigned char has_url, has_title, has_w, has_h, fig, op, store; } IN;
#include "vh_in.h"
#define DEPTH 8
static unsigned stk[DEPTH]; static int sp_, bad, opened, st, closing, selfc, escaped; static unsigned name; static char prev;
void vh_sink(char c) {
	if (st == 0) { if (c == '<') { st = 1; name = 0; closing = 0; selfc = 0; } else if (c == '>') bad = 1; }
	else if (st == 1) { if (c == '/') { closing = 1; st = 2; } else if (c == '!' || c == '?') st = 4; else { name = (unsigned char) c; st = 2; } }
	else if (st == 2) { if (c == '>') goto done; if (c == '<') bad = 1; if (c == ' ' || c == '\n' || c == '\t' || c == '/') { st = 3; prev = c; } else name = name * 31 + (unsigned char) c; }
	else if (st == 3) { if (c == '>') { selfc = (prev == '/'); goto done; } if (c == '<') bad = 1; prev = c; }
	else if (st == 4) { if (c == '>') st = 0; }
	return;
done:
	if (closing) { if (sp_ > 0 && stk[sp_ - 1] == name) sp_--; else bad = 1; }
	else if (!selfc) { if (sp_ < DEPTH) stk[sp_++] = name; else bad = 1; opened++; }
	st = 0;
}
void vh_sink_unsupported(void) { CHECK(0, "harness: only appending is expected"); }
void mmd_print_string_opendocument(DString *out, const char *str, bool line_breaks) { escaped++; }      /* proved harmless for every string by c08_text_odf */
void mmd_export_token_tree_opendocument(DString *out, const char *source, token *t, scratch_pad *scratch) {}
void store_asset(scratch_pad *scratch, char *url) {}
static asset the_asset;
asset *extract_asset(scratch_pad *scratch, char *url) { static char p[] = "x.png"; the_asset.asset_path = p; return &the_asset; }
int main(void) {
	IN_LOAD();
	static char src[16] = "[ab](u \"t\")";
	static char url[] = "u", title[] = "t", kw[] = "width", kh[] = "height", v1[] = "1<2", v2[] = "3<4px";
	static attr aw, ah; aw.key = kw; aw.value = v1; ah.key = kh; ah.value = v2;
	aw.next = (IN.has_h & 1) ? &ah : (attr *) 0; ah.next = 0;
	static link l; l.url = (IN.has_url & 1) ? &url[0] : (char *) 0; l.title = (IN.has_title & 1) ? &title[0] : (char *) 0; l.attributes = (IN.has_w & 1) ? &aw : ((IN.has_h & 1) ? &ah : (attr *) 0);
	token *text = token_new(PAIR_BRACKET, 0, 4); token_append_child(text, token_new(BRACKET_LEFT, 0, 1)); token_append_child(text, token_new(TEXT_PLAIN, 1, 2)); token_append_child(text, token_new(BRACKET_RIGHT, 3, 1));
	scratch_pad *sp = calloc(1, sizeof(scratch_pad)); ASSUME(sp != 0); sp->store_assets = IN.store & 1;
	DString *out = d_string_new("");
	if (IN.op & 1) mmd_export_image_opendocument(out, src, text, &l, sp, IN.fig & 1); else mmd_export_link_opendocument(out, src, text, &l, sp);
	CHECK(!bad, "tags match and no raw '<' or '>' from the document inside a tag");
	CHECK(sp_ == 0 && st == 0, "every element opened for the link/image is closed, every start tag ends with '>'");
	COVER(!(IN.op & 1) && !(IN.has_url & 1)); COVER((IN.op & 1) && !(IN.has_url & 1)); COVER((IN.op & 1) && (IN.has_w & 1) && (IN.has_h & 1) && escaped >= 3); COVER(!(IN.op & 1) && escaped == 2);
	return 0;
}
