/* C08: URLs and titles placed in attribute values cannot break out of the attribute / element.
   Real link / image exporters of the XML-producing writers with symbolic url and title.  Oracle: the output for arbitrary (url, title)
   contains exactly as many `"` and `<` as the output for a harmless (url, title) of the same lengths, and every `&` starts an entity.
   OP: 0 mmd_export_link_opendocument, 1 mmd_export_image_opendocument, 2 mmd_export_link_html (EPUB xhtml), 3 mmd_export_image_html */
#include "vh.h"
#include <stdlib.h>
#include <string.h>
#include "libMultiMarkdown.h"
#include "d_string.h"
#include "token.h"
#include "writer.h"
#include "html.h"
#include "opendocument-content.h"
void mmd_export_link_html(DString *out, const char *source, token *text, link *link, scratch_pad *scratch);
void mmd_export_image_html(DString *out, const char *source, token *text, link *link, scratch_pad *scratch, bool is_figure);
void mmd_export_link_opendocument(DString *out, const char *source, token *text, link *link, scratch_pad *scratch);
void mmd_export_image_opendocument(DString *out, const char *source, token *text, link *link, scratch_pad *scratch, bool is_figure);
#ifndef N
#define N 3
#endif
struct in { size_t ul, tl; char u[N], t[N]; } IN;
#include "vh_in.h"
void mmd_export_token_tree_opendocument(DString *out, const char *source, token *t, scratch_pad *scratch) {}
void mmd_export_token_tree_html(DString *out, const char *source, token *t, scratch_pad *scratch) {}
/* ---- streaming output model: the writers' output is not stored, it is fed to a recogniser that counts the characters that matter.
   Template text is concrete, so symbolic execution folds it away; only the bytes that came from url/title stay symbolic. ---- */
#include <stdarg.h>
struct stat_ { int q, lt, badamp, amp, el; char ent[6]; size_t n; } ST;
static void feed(char c) {
	ST.n++;
	if (ST.amp) {
		if (c == ';') { ST.ent[ST.el < 6 ? ST.el : 5] = 0;
			const char *e = ST.ent;
			int ok = (e[0]=='a'&&e[1]=='m'&&e[2]=='p'&&e[3]==0) || (e[0]=='l'&&e[1]=='t'&&e[2]==0) || (e[0]=='g'&&e[1]=='t'&&e[2]==0) || (e[0]=='q'&&e[1]=='u'&&e[2]=='o'&&e[3]=='t'&&e[4]==0) || (e[0]=='a'&&e[1]=='p'&&e[2]=='o'&&e[3]=='s'&&e[4]==0) || e[0]=='#';
			if (!ok) ST.badamp++; ST.amp = 0; return; }
		if (ST.el >= 5 || !((c >= 'a' && c <= 'z') || (c >= '0' && c <= '9') || c == '#')) { ST.badamp++; ST.amp = 0; }
		else { ST.ent[ST.el++] = c; return; }
	}
	if (c == '"') ST.q++;
	if (c == '<') ST.lt++;
	if (c == '&') { ST.amp = 1; ST.el = 0; }
}
DString *d_string_new(const char *s) { DString *d = malloc(sizeof(DString)); ASSUME(d != 0); d->str = 0; d->currentStringLength = 0; d->currentStringBufferSize = 1; return d; }
char *d_string_free(DString *d, bool f) { free(d); return 0; }
void d_string_append_c(DString *d, char c) { if (c) feed(c); }
void d_string_append(DString *d, const char *s) { if (s) for (size_t i = 0; s[i]; i++) feed(s[i]); }
void d_string_append_c_array(DString *d, const char *s, size_t n) { if (s) { if (n == (size_t) -1) d_string_append(d, s); else for (size_t i = 0; i < n; i++) feed(s[i]); } }
void d_string_erase(DString *d, size_t pos, size_t len) {}
void d_string_append_printf(DString *d, const char *f, ...) {
	va_list ap; va_start(ap, f);
	for (size_t i = 0; f[i]; i++) {
		if (f[i] == '%' && f[i + 1] == 's') { const char *s = va_arg(ap, const char *); d_string_append(d, s); i++; }
		else if (f[i] == '%' && f[i + 1] == '%') { feed('%'); i++; }
		else feed(f[i]);
	}
	va_end(ap);
}
static void render(const char *url, const char *title) {
	static scratch_pad sp; memset(&sp, 0, sizeof sp);
	link l; memset(&l, 0, sizeof l); l.url = (char *) url; l.title = (char *) title;
	memset(&ST, 0, sizeof ST);
	DString *out = d_string_new("");
#if OP == 0
	mmd_export_link_opendocument(out, "", 0, &l, &sp);
#elif OP == 1
	mmd_export_image_opendocument(out, "", 0, &l, &sp, false);
#elif OP == 2
	mmd_export_link_html(out, "", 0, &l, &sp);
#else
	mmd_export_image_html(out, "", 0, &l, &sp, false);
#endif
	if (ST.amp) ST.badamp++;
}
int main(void) {
	IN_LOAD();
	ASSUME(IN.ul <= N && IN.tl <= N && IN.ul >= 1);
	char u[N + 1], t[N + 1], hu[N + 1], ht[N + 1];
	for (size_t i = 0; i < N; i++) { u[i] = i < IN.ul ? IN.u[i] : 0; t[i] = i < IN.tl ? IN.t[i] : 0; hu[i] = i < IN.ul ? 'a' : 0; ht[i] = i < IN.tl ? 'a' : 0;
		if (i < IN.ul) ASSUME(IN.u[i] != 0 && (unsigned char) IN.u[i] >= 32); if (i < IN.tl) ASSUME(IN.t[i] != 0 && (unsigned char) IN.t[i] >= 32); }
	u[N] = t[N] = hu[N] = ht[N] = 0;
#ifdef KF_url_unescaped
	for (size_t i = 0; i < N; i++) { ASSUME(u[i] != '"' && u[i] != '<' && u[i] != '&'); }
#endif
#ifdef KF_title_unescaped
	for (size_t i = 0; i < N; i++) { ASSUME(t[i] != '"' && t[i] != '<' && t[i] != '&'); }
#endif
	render(u, t); int q1 = ST.q, l1 = ST.lt, b1 = ST.badamp; size_t n1 = ST.n;
	render(hu, ht); int q2 = ST.q, l2 = ST.lt, b2 = ST.badamp; size_t n2 = ST.n;
	CHECK(q1 == q2, "a URL or title can never close the attribute it is placed in (no unescaped double quote)");
	CHECK(l1 == l2, "a URL or title can never open markup (no unescaped <)");
	CHECK(b1 == 0, "every & in the output starts a character or entity reference");
	COVER_OPT(n1 > n2); COVER(IN.tl == N && IN.ul == N);
	COVER(1);
	return 0;
}
