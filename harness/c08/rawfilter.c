/* C08/C04: the raw-source gate (real writer.c raw_filter_text_matches).  The OpenDocument / HTML / LaTeX writers copy a `{=fmt}` block or span
   into their output *unescaped* exactly when this gate says the filter addresses them, so for XML outputs it is part of the escaping
   argument: for every filter text up to PL bytes and every output format the gate opens iff the filter is the wildcard ("*" or "{=*}") or
   names the writer's own family (html / odt / epub / latex), as the Raw Source section of the guide documents.  A filter addressed to a
   different family never opens the gate. */
#include "vh.h"
#include <stdlib.h>
#include <string.h>
#include <stdbool.h>
#include "libMultiMarkdown.h"
#include "writer.h"
#ifndef PL
#define PL 7
#endif
struct in { char p[PL]; int len; short fmt; } IN;
#include "vh_in.h"
static int contains(const char *s, int n, const char *w) {
	int wl = 0; while (w[wl]) wl++;
	for (int i = 0; i < PL; i++) { if (i + wl > n) break; int ok = 1; for (int j = 0; j < 5; j++) { if (j >= wl) break; if (s[i + j] != w[j]) ok = 0; } if (ok) return 1; }
	return 0;
}
static int equals(const char *s, int n, const char *w) { int wl = 0; while (w[wl]) wl++; return wl == n && contains(s, n, w); }
int main(void) {
	IN_LOAD();
	int n = IN.len; ASSUME(n >= 0 && n <= PL);
	static char buf[PL + 1];
	char *pat = buf + (PL - n);                       /* end-aligned: the terminator is at a fixed address */
	for (int i = 0; i < PL; i++) if (i < n) { ASSUME(IN.p[i] != 0); pat[i] = IN.p[i]; }
	buf[PL] = 0;
	short f = IN.fmt; ASSUME(f >= FORMAT_HTML && f <= FORMAT_ITMZ);
	bool r = raw_filter_text_matches(pat, f);
	const char *fam = 0;
	switch (f) {
		case FORMAT_HTML: case FORMAT_HTML_WITH_ASSETS: fam = "html"; break;
		case FORMAT_ODT: case FORMAT_FODT: fam = "odt"; break;
		case FORMAT_EPUB: fam = "epub"; break;
		case FORMAT_LATEX: case FORMAT_BEAMER: case FORMAT_MEMOIR: fam = "latex"; break;
		default: fam = 0;
	}
	int wild = equals(pat, n, "*") || equals(pat, n, "{=*}");
	int expect = wild || (fam && contains(pat, n, fam));
	CHECK((r != 0) == (expect != 0), "the raw-source gate opens iff the filter is the wildcard or names the writer's own format family");
	CHECK(!raw_filter_text_matches(0, f), "no filter, no raw copy");
	COVER(r && !wild && (f == FORMAT_FODT)); COVER(!r && n == PL && f == FORMAT_ODT); COVER(r && f == FORMAT_EPUB && !wild); COVER(wild && n == 4); COVER(!r && f == FORMAT_OPML);
	COVER(r && f == FORMAT_MEMOIR && !wild);
	return 0;
}
