/* C08 (EPUB's main.xhtml is the HTML writer's output): "document text, URLs, titles ... can never break out of the element or attribute they
   are placed in".  Four places of html.c where a string taken from the document is put into an attribute or into element content:
     OP 0  mmd_export_link_html    -- attribute values of a link  ([l](u key="v"))
     OP 1  mmd_export_image_html   -- alt text (the bracket content) and attribute values of an image
     OP 2  mmd_export_token_html, BLOCK_CODE_FENCED -- the info string that becomes class="..."
     OP 3  mmd_export_token_html, citation with locator ([p. 5][#key]) -- the locator text
   The strings are tracked by identity (attribute values, info string, locator: the pointer; alt text: any pointer into the source): they may
   reach the output only through the escapers mmd_print_string_html / mmd_print_char_html (proved harmless for every string by c08_text_html);
   handing them to print() / printf("%s") / a raw source copy is a failed obligation.  Attribute KEYS are exempt: attr_new only stores what
   scan_key accepted (letters, digits, - _ . :). */
#include "vh.h"
#include <stdlib.h>
#include <string.h>
#include "libMultiMarkdown.h"
#include "mmd.h"
#include "d_string.h"
#include "token.h"
#include "stack.h"
#include "writer.h"
#include "parser.h"
void mmd_export_link_html(DString *out, const char *source, token *text, link *link, scratch_pad *scratch);
void mmd_export_image_html(DString *out, const char *source, token *text, link *link, scratch_pad *scratch, bool is_figure);
void mmd_export_token_html(DString *out, const char *source, token *t, scratch_pad *scratch);
struct in { unsigned char fig, has_title, has_label, two; unsigned long ext; char v[3]; } IN;
#include "vh_in.h"
static char src[24] = "![a<b](u) [p. <5][#k]";
static char val1[4], val2[4], spec[4], loc[4];
static int escaped;
DString *vh_sink_target;
void vh_sink(char c) {}
void vh_sink_unsupported(void) {}          /* the figure case erases the paragraph opener it replaces: not this harness's subject */
void vh_sink_ptr(const char *s) {
	CHECK(s != val1 && s != val2 && s != spec && s != loc, "an attribute value / info string / locator reaches the output only through the escaper");
	CHECK(!__CPROVER_same_object(s, src), "source text (the alt text of an image) reaches the output only through the escaper");
}
void mmd_print_string_html(DString *out, const char *str, bool obfuscate, bool line_breaks) { escaped++; }
void mmd_print_char_html(DString *out, char c, bool obfuscate) { escaped++; }
void mmd_export_token_tree_html(DString *out, const char *source, token *t, scratch_pad *scratch) {}
void mmd_export_token_tree_html_raw(DString *out, const char *source, token *t, scratch_pad *scratch) {}
void pad(DString *d, short n, scratch_pad *scratch) {}
void store_asset(scratch_pad *scratch, char *url) {}
char *label_from_token(const char *source, token *t) { char *r = malloc(2); ASSUME(r != 0); r[0] = 'l'; r[1] = 0; return r; }
char *get_fence_language_specifier(token *fence, const char *source) { return spec; }
bool raw_filter_text_matches(char *pattern, short format) { return 0; }
char *text_inside_pair(const char *source, token *pair) { return loc; }
char *label_from_string(const char *str) { char *r = malloc(2); ASSUME(r != 0); r[0] = 'p'; r[1] = 0; return r; }
void citation_from_bracket(const char *source, scratch_pad *scratch, token *t, short *num) { *num = 1; if (IN.two & 1) stack_push(scratch->used_citations, t); }
char *strip_dimension_units(char *original) { char *r = malloc(4); ASSUME(r != 0); r[0] = original[0]; r[1] = 0; return r; }
const char *Translate(unsigned long x, int l) { return "see"; }       /* localisation table: a harmless constant */
void verif_free(void *p) { if (p != spec && p != loc) free(p); }
int main(void) {
	IN_LOAD();
	for (int i = 0; i < 3; i++) { val1[i] = IN.v[i]; val2[i] = IN.v[2 - i]; spec[i] = IN.v[i]; loc[i] = IN.v[i]; }
	ASSUME(spec[0] != 0 && !(spec[0] == '{' && spec[1] == '=') && loc[0] != 0);
	static char url[] = "u", title[] = "t", k1[] = "class", k2[] = "width";
	static attr a1, a2; a1.key = k1; a1.value = val1; a1.next = &a2; a2.key = k2; a2.value = val2; a2.next = 0;
	static link l; l.url = url; l.title = (IN.has_title & 1) ? &title[0] : (char *) 0; l.attributes = &a1;
	token *text = token_new(PAIR_BRACKET_IMAGE, 0, 6);
	token_append_child(text, token_new(BRACKET_IMAGE_LEFT, 0, 2)); token_append_child(text, token_new(TEXT_PLAIN, 2, 1)); token_append_child(text, token_new(ANGLE_LEFT, 3, 1)); token_append_child(text, token_new(TEXT_PLAIN, 4, 1)); token_append_child(text, token_new(BRACKET_RIGHT, 5, 1));
	if (IN.has_label & 1) l.label = text;
	scratch_pad *sp = calloc(1, sizeof(scratch_pad)); ASSUME(sp != 0);
	sp->extensions = (IN.ext & 0x1ffff) | EXT_NOTES; sp->padded = 2; sp->used_citations = stack_new(0);
	DString *out = d_string_new(""); vh_sink_target = out;
#if OP == 0
	mmd_export_link_html(out, src, text, &l, sp);
	COVER(escaped >= 3);
#elif OP == 1
	mmd_export_image_html(out, src, text, &l, sp, IN.fig & 1);
	COVER(escaped >= 4); COVER(IN.fig & 1);
#elif OP == 2
	{ token *blk = token_new(BLOCK_CODE_FENCED, 0, 9), *l1 = token_new(CODE_FENCE_LINE, 0, 4), *l2 = token_new(LINE_PLAIN, 4, 5);
	  token_append_child(l1, token_new(CODE_FENCE, 0, 3)); token_append_child(blk, l1); token_append_child(blk, l2);
	  mmd_export_token_html(out, src, blk, sp); }
	COVER(escaped >= 1);
#else
	{ token *para = token_new(BLOCK_PARA, 10, 12), *lc = token_new(PAIR_BRACKET, 10, 7), *ct = token_new(PAIR_BRACKET_CITATION, 17, 4);
	  token_append_child(lc, token_new(BRACKET_LEFT, 10, 1)); token_append_child(lc, token_new(TEXT_PLAIN, 11, 5)); token_append_child(lc, token_new(BRACKET_RIGHT, 16, 1));
	  token_append_child(ct, token_new(BRACKET_CITATION_LEFT, 17, 2)); token_append_child(ct, token_new(TEXT_PLAIN, 19, 1)); token_append_child(ct, token_new(BRACKET_RIGHT, 20, 1));
	  token_append_child(para, lc); token_append_child(para, ct);
	  mmd_export_token_html(out, src, lc, sp); }
	COVER(escaped >= 1); COVER(IN.two & 1);
#endif
	return 0;
}
