/* C08 (EPUB main.xhtml is the HTML writer's complete document): the document head (real html.c mmd_start_complete_html) for ARBITRARY
   metadata.  The metadata table is a one-entry list whose key is any of the keys the function treats specially or a generic one, its value
   arbitrary bytes tracked by pointer identity: key and value reach the output only through the escaper mmd_print_string_html -- except
   htmlheader / xhtmlheader, which are raw HTML by design (documented passthrough, outside the property). */
#include "vh.h"
#include <stdlib.h>
#include <string.h>
#include "libMultiMarkdown.h"
#include "mmd.h"
#include "d_string.h"
#include "token.h"
#include "stack.h"
#include "writer.h"
void mmd_start_complete_html(DString *out, const char *source, scratch_pad *scratch);
struct in { unsigned char k; char v[3]; unsigned long ext; short lang; } IN;
#include "vh_in.h"
static const char *KEYS[] = { "language", "title", "css", "author", "htmlheader", "xhtmlheader", "quoteslanguage", "zzz" };
#define NK 8
static meta M; static char val[4], key[16]; static int escaped, raw_ok;
void *verif_hash_find_str(const char *k) { for (int i = 0; i < 15; i++) { if (k[i] != key[i]) return 0; if (!k[i]) break; } return &M; }
void vh_sink_ptr(const char *s) { if (s == val || s == key) CHECK(raw_ok, "a metadata key or value reaches the document head only through the escaper"); }
void vh_sink(char c) {}
void vh_sink_unsupported(void) { CHECK(0, "harness: only appending is expected"); }
void mmd_print_string_html(DString *out, const char *str, bool obfuscate, bool line_breaks) { escaped++; }
void store_asset(scratch_pad *scratch, char *url) {}
static asset the_asset;
asset *extract_asset(scratch_pad *scratch, char *url) { static char p[] = "x.css"; the_asset.asset_path = p; return &the_asset; }
int main(void) {
	IN_LOAD();
	ASSUME(IN.k < NK);
	for (int i = 0; i < 15; i++) { key[i] = KEYS[IN.k][i]; if (!key[i]) break; }
	for (int i = 0; i < 3; i++) val[i] = IN.v[i];
	val[3] = 0;
	M.key = key; M.value = val; M.hh.next = 0;
	raw_ok = (IN.k == 4 || IN.k == 5);
	scratch_pad *sp = calloc(1, sizeof(scratch_pad)); ASSUME(sp != 0);
	sp->meta_hash = &M; sp->extensions = IN.ext & 0x1ffff; sp->language = IN.lang;
	DString *out = d_string_new("");
	mmd_start_complete_html(out, "x", sp);
	COVER(IN.k == 0); COVER(IN.k == 7 && escaped == 2); COVER(IN.k == 4); COVER(IN.k == 2 && escaped >= 1);
	return 0;
}
