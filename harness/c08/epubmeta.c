/* C08: the EPUB package document and navigation document (real epub.c epub_package_document / epub_nav) for ARBITRARY metadata values:
   "metadata keys and values can never break out of the element they are placed in".  The metadata lookups are answered by the harness
   (each of uuid / title / author / language / date present or absent, values of arbitrary bytes tracked by pointer identity); a value may
   reach the output only through the escaper mmd_print_string_html (whose output is proved harmless for every string by c08_text_html) --
   handing it to d_string_append / printf("%s") / print() is a failed obligation.  Everything else the functions emit is streamed through
   the XML nesting recogniser and must be balanced. */
#include "vh.h"
#include <stdlib.h>
#include <string.h>
#include <time.h>
#include "libMultiMarkdown.h"
#include "mmd.h"
#include "d_string.h"
#include "token.h"
#include "stack.h"
#include "writer.h"
#include "epub.h"
char *epub_nav(mmd_engine *e, scratch_pad *scratch); char *epub_package_document(scratch_pad *scratch);
struct in { unsigned char present[5]; char v[5][3]; short lang; unsigned char which; } IN;
#include "vh_in.h"
static meta M[5]; static char val[5][4]; static const char *KEYS[5] = { "uuid", "title", "author", "language", "date" };
static int escaped_calls, raw_leak;
void *verif_hash_find_str(const char *key) {
	for (int k = 0; k < 5; k++) { int eq = 1; for (int i = 0; i < 9; i++) { if (key[i] != KEYS[k][i]) { eq = 0; break; } if (!key[i]) break; } if (eq) return (IN.present[k] & 1) ? &M[k] : 0; }
	return 0;
}
static int tainted(const char *s) { for (int k = 0; k < 5; k++) if (s == val[k]) return 1; return 0; }
void vh_sink_ptr(const char *s) { if (tainted(s)) { raw_leak = 1; CHECK(0, "a metadata value reaches the XML output only through the escaper"); } }
void mmd_print_string_html(DString *out, const char *str, bool obfuscate, bool line_breaks) { escaped_calls++; }
/* XML nesting recogniser (as harness/c04/nesting.c, FAMILY 1) */
#define DEPTH 8
static unsigned stk[DEPTH]; static int sp_, bad, opened, st, closing, selfc; static unsigned name; static char prev;
void vh_sink(char c) {
	if (st == 0) { if (c == '<') { st = 1; name = 0; closing = 0; selfc = 0; } }
	else if (st == 1) { if (c == '/') { closing = 1; st = 2; } else if (c == '!' || c == '?') st = 4; else { name = (unsigned char) c; st = 2; } }
	else if (st == 2) { if (c == '>') goto done; if (c == ' ' || c == '\n' || c == '\t' || c == '/') { st = 3; prev = c; } else name = name * 31 + (unsigned char) c; }
	else if (st == 3) { if (c == '>') { selfc = (prev == '/'); goto done; } prev = c; }
	else if (st == 4) { if (c == '>') st = 0; }
	return;
done:
	if (closing) { if (sp_ > 0 && stk[sp_ - 1] == name) sp_--; else bad = 1; }
	else if (!selfc) { if (sp_ < DEPTH) stk[sp_++] = name; else bad = 1; opened++; }
	st = 0;
}
void vh_sink_unsupported(void) { CHECK(0, "harness: only appending is expected"); }
char *uuid_new(void) { char *r = malloc(4); ASSUME(r != 0); r[0] = 'u'; r[1] = 0; return r; }
time_t time(time_t *t) { return 0; }
struct tm *localtime(const time_t *t) { static struct tm x; x.tm_year = 100; x.tm_mon = 1; x.tm_mday = 2; return &x; }
void epub_export_nav(DString *out, mmd_engine *e, scratch_pad *scratch) {}
int main(void) {
	IN_LOAD();
	for (int k = 0; k < 5; k++) { for (int i = 0; i < 3; i++) val[k][i] = IN.v[k][i]; val[k][3] = 0; M[k].key = (char *) KEYS[k]; M[k].value = val[k]; }
	scratch_pad *sp = calloc(1, sizeof(scratch_pad)); ASSUME(sp != 0);
	sp->language = IN.lang;
	static mmd_engine e;
	char *doc = (IN.which & 1) ? epub_nav(&e, sp) : epub_package_document(sp);
	CHECK(!raw_leak, "no metadata value was appended raw");
	CHECK(!bad && sp_ == 0 && st == 0, "the generated member is balanced: every element opened is closed, in order");
	COVER(!(IN.which & 1) && escaped_calls == 5); COVER((IN.which & 1) && escaped_calls == 1); COVER(!(IN.which & 1) && escaped_calls == 0 && opened >= 8);
	return 0;
}
