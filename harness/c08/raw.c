/* C08 / C04: verbatim exporters (code, math) must escape delimiter tokens that contain markup characters.  Every token kind whose text the
   lexer fixes literally (table generated from the current lexer.re: "<<}" CRITIC_COM_CLOSE, "<!--" HTML_COMMENT_START, "&" AMPERSAND ...)
   is handed, with exactly that text, to the real raw exporter; the output is fed to a recogniser: no `<` other than the writer's own
   <text:.../> elements, every `&` starts a reference. */
#include "vh.h"
#include <stdlib.h>
#include <string.h>
#include <stdarg.h>
#include "libMultiMarkdown.h"
#include "d_string.h"
#include "token.h"
#include "stack.h"
#include "writer.h"
#include "lit_table.h"      /* LIT_TXT[], LIT_KIND[], N_LIT, LIT_MAX */
void EXPORT(DString *out, const char *source, token *t, scratch_pad *scratch);
struct in { unsigned idx; char after; } IN;
#include "vh_in.h"
static int n_lt, n_own, n_badamp, amp, el; static char ent[6]; static char win[6];
static void feed(char c) {
	for (int i = 0; i < 5; i++) win[i] = win[i + 1];
	win[5] = c;
	if (amp) {
		if (c == ';') { ent[el < 6 ? el : 5] = 0; const char *e = ent;
			int ok = (e[0]=='a'&&e[1]=='m'&&e[2]=='p'&&e[3]==0) || (e[0]=='l'&&e[1]=='t'&&e[2]==0) || (e[0]=='g'&&e[1]=='t'&&e[2]==0) || (e[0]=='q'&&e[1]=='u'&&e[2]=='o'&&e[3]=='t'&&e[4]==0) || (e[0]=='a'&&e[1]=='p'&&e[2]=='o'&&e[3]=='s'&&e[4]==0) || e[0]=='#';
			if (!ok) n_badamp++; amp = 0; return; }
		if (el >= 5 || !((c >= 'a' && c <= 'z') || (c >= '0' && c <= '9') || c == '#')) { n_badamp++; amp = 0; }
		else { ent[el++] = c; return; }
	}
	if (c == '<') n_lt++;
	if (win[0] == '<' && win[1] == 't' && win[2] == 'e' && win[3] == 'x' && win[4] == 't' && win[5] == ':') n_own++;     /* the writer's own elements */
	if (c == '&') { amp = 1; el = 0; }
}
DString *d_string_new(const char *s) { DString *d = malloc(sizeof(DString)); ASSUME(d != 0); d->str = 0; d->currentStringLength = 0; d->currentStringBufferSize = 1; return d; }
void d_string_append_c(DString *d, char c) { if (c) feed(c); }
void d_string_append(DString *d, const char *s) { if (s) for (size_t i = 0; s[i]; i++) feed(s[i]); }
void d_string_append_c_array(DString *d, const char *s, size_t n) { if (s) { if (n == (size_t) -1) d_string_append(d, s); else for (size_t i = 0; i < n; i++) feed(s[i]); } }
void d_string_append_printf(DString *d, const char *f, ...) { for (size_t i = 0; f[i]; i++) feed(f[i]); }
void d_string_erase(DString *d, size_t pos, size_t len) {}
void TREE1(DString *out, const char *source, token *t, scratch_pad *scratch) {}
#ifdef TREE2
void TREE2(DString *out, const char *source, token *t, scratch_pad *scratch) {}
#endif
#ifdef TREE3
void TREE3(DString *out, const char *source, token *t, scratch_pad *scratch) {}
#endif
int main(void) {
	IN_LOAD();
	ASSUME(IN.idx < N_LIT);
#ifdef KF_critic_comment_raw
	ASSUME(LIT_KIND[IN.idx] != CRITIC_COM_CLOSE);      /* listed finding: "<<}" is printed raw by the OpenDocument verbatim exporters */
#endif
	char *src = malloc(LIT_MAX + 3); ASSUME(src != 0);
	size_t n = 0; const char *lit = LIT_TXT[IN.idx];
	for (size_t i = 0; i < LIT_MAX; i++) if (lit[i] && n == i) src[n++] = lit[i];
	ASSUME(IN.after != 0 && IN.after != '<' && IN.after != '&');
	src[n] = IN.after; src[n + 1] = 0;
	static scratch_pad sp; sp.padded = 2;
	token *t = token_new((unsigned short) LIT_KIND[IN.idx], 0, n);
	DString *out = d_string_new("");
	EXPORT(out, src, t, &sp);
	if (amp) n_badamp++;
	CHECK(n_lt == n_own, "verbatim text never opens markup: every < in the output belongs to one of the writer's own elements");
	CHECK(n_badamp == 0, "verbatim text: every & in the output starts a character or entity reference");
	COVER(LIT_KIND[IN.idx] == ANGLE_LEFT); COVER(LIT_KIND[IN.idx] == AMPERSAND); COVER(IN.idx == N_LIT - 1);
	COVER(1);
	return 0;
}
