#!/usr/bin/env python3
"""Runner for the solver-based checks of /verif (see DESIGN.md §1.4).

A *harness spec* is a dict (see checks/Cxx.py).  For each spec the runner
  1. compiles the named /repo units of the CURRENT working tree with goto-cc (Engine A) and/or
     translates them through clang IR -> flat C (Engine B, lib/ir2c.py) and validates the translation
     natively against the real functions on the repo's test corpus,
  2. links them with the harness, optionally removing function bodies (goto-instrument),
  3. runs cbmc (all properties, unwinding assertions, trace) and a second cbmc --cover cover run whose
     goals are the harness's reachability witnesses (vacuity guard),
  4. on a counterexample, extracts the harness input struct `IN` from the JSON trace, writes a replay
     directory and re-executes the harness natively (gcc -fsanitize=address,undefined) on the real code.
"""
import json, os, re, shutil, subprocess, sys, time, threading, hashlib
from concurrent.futures import ThreadPoolExecutor

VERIF = os.path.dirname(os.path.dirname(os.path.abspath(__file__)))
REPO = os.environ.get('VERIF_REPO', '/repo')
SRC = os.path.join(REPO, 'src')
COMMON = os.path.join(VERIF, 'harness', 'common')
GUARD = 'MMD6_VERIF'

_mem_lock = threading.Condition()
_mem_free = [int(os.environ.get('VERIF_MEM_GB', '52'))]


def log(*a):
    print(*a, flush=True)


def run(cmd, timeout=None, cwd=None, mem_gb=None, stdout=None, env=None):
    """run cmd; returns dict(rc, out, err, wall, rss_kb, timed_out)"""
    tfile = None
    full = list(cmd)
    if mem_gb or timeout:
        tfile = os.path.join(cwd or '.', '.time.%d.%d' % (os.getpid(), threading.get_ident()))
        full = ['/usr/bin/time', '-f', '%e %M', '-o', tfile] + full
    pre = None
    if mem_gb:
        lim = int(mem_gb * 1024 * 1024 * 1024)
        def pre():
            import resource
            resource.setrlimit(resource.RLIMIT_AS, (lim, lim))
            os.setsid()
    else:
        pre = os.setsid
    t0 = time.time()
    out_f = open(stdout, 'wb') if stdout else subprocess.PIPE
    p = subprocess.Popen(full, cwd=cwd, stdout=out_f, stderr=subprocess.PIPE, preexec_fn=pre, env=env)
    timed_out = False
    try:
        o, e = p.communicate(timeout=timeout)
    except subprocess.TimeoutExpired:
        timed_out = True
        try:
            os.killpg(p.pid, 9)
        except Exception:
            p.kill()
        o, e = p.communicate()
    if stdout:
        out_f.close()
    wall = time.time() - t0
    rss = 0
    if tfile and os.path.exists(tfile):
        try:
            toks = open(tfile).read().split()
            rss = int(toks[-1])
        except Exception:
            pass
        os.unlink(tfile)
    return dict(rc=p.returncode, out=(o or b'').decode('utf-8', 'replace'), err=(e or b'').decode('utf-8', 'replace'),
                wall=wall, rss_kb=rss, timed_out=timed_out)


class Fail(Exception):
    """machinery failure (exit 2)"""


def must(r, what):
    if r['rc'] != 0:
        raise Fail('%s failed (rc=%s)\n%s\n%s' % (what, r['rc'], r['out'][-3000:], r['err'][-3000:]))
    return r


# --------------------------------------------------------------------------------------------
# build helpers

def prepare_inc(work):
    inc = os.path.join(work, 'inc')
    os.makedirs(inc, exist_ok=True)
    vh = os.path.join(inc, 'version.h')
    if not os.path.exists(vh):
        with open(vh, 'w') as f:
            f.write('#ifndef VERIF_VERSION_H\n#define VERIF_VERSION_H\n#define LIBMULTIMARKDOWN_NAME "MultiMarkdown"\n'
                    '#define LIBMULTIMARKDOWN_VERSION "6.7.0"\n#define LIBMULTIMARKDOWN_COPYRIGHT "c"\n'
                    '#define LIBMULTIMARKDOWN_LICENSE "l"\n#endif\n')
    return inc


def cflags(work, spec, extra=()):
    fl = ['-I', SRC, '-I', os.path.join(work, 'inc'), '-I', COMMON, '-I', work, '-I', os.path.join(VERIF, 'harness'),
          '-DNDEBUG', '-D' + GUARD + '=1']
    if spec.get('pool_off'):
        fl.append('-DDISABLE_OBJECT_POOL=1')
    for k, v in spec.get('defs', {}).items():
        fl.append('-D%s=%s' % (k, v) if v is not None else '-D%s' % k)
    fl += list(extra)
    return fl


def path_of(work, s):
    """resolve a source name: 'repo:x.c' -> /repo/src/x.c, 'work:x.c' -> generated, else /verif/harness/x"""
    if s.startswith('repo:'):
        return os.path.join(SRC, s[5:])
    if s.startswith('work:'):
        return os.path.join(work, s[5:])
    if s.startswith('/'):
        return s
    return os.path.join(VERIF, 'harness', s)


_ir_lock = threading.Lock()
_ir_done = {}


def engine_b(work_root, unit, mode='single', funcs=None, validate=True, extra_clang=()):
    """clang IR -> flat C for a repo unit; cached per run in work_root/irb/.  Returns path of the generated C."""
    key = (unit, mode, tuple(sorted(funcs or [])))
    with _ir_lock:
        if key in _ir_done:
            return _ir_done[key]
        d = os.path.join(work_root, 'irb')
        os.makedirs(d, exist_ok=True)
        inc = prepare_inc(work_root)
        base = unit.replace('.c', '').replace('-', '_')
        tag = hashlib.md5(repr(key).encode()).hexdigest()[:6]
        ll = os.path.join(d, base + '.ll')
        if not os.path.exists(ll):
            must(run(['clang-14', '-O1', '-fno-vectorize', '-fno-slp-vectorize', '-fno-unroll-loops', '-S', '-emit-llvm',
                      '-DNDEBUG', '-I', SRC, '-I', inc, os.path.join(SRC, unit), '-o', ll] + list(extra_clang), timeout=300),
                 'clang IR for ' + unit)
        out = os.path.join(d, '%s_%s_%s.c' % (base, mode, tag))
        sys.path.insert(0, os.path.join(VERIF, 'lib'))
        import ir2c
        try:
            text = ir2c.translate(ll, set(funcs) if funcs else None, mode=mode)
        except Exception as ex:
            raise Fail('ir2c could not translate %s: %r' % (unit, ex))
        with open(out, 'w') as f:
            f.write(text)
        _ir_done[key] = out
        return out


_obj_locks = {}
_obj_locks_guard = threading.Lock()


def _obj_lock(path):
    with _obj_locks_guard:
        return _obj_locks.setdefault(path, threading.Lock())


def build_goto(work, spec, cover):
    """compile + link the harness; returns path of the goto binary"""
    objs = []
    tag = 'cov' if cover else 'main'
    inc = prepare_inc(work)
    hextra = ['-DVH_COVER=1'] if cover else []
    # units: /repo units are compiled once per check run and shared between harnesses (objcache keyed by source+flags+removed bodies);
    # they see only the build-wide defines (-DNDEBUG, pool on/off, MMD6_VERIF*), never the harness's own -D parameters
    cache = os.path.join(os.path.dirname(work), 'objcache')
    os.makedirs(cache, exist_ok=True)
    for u in spec.get('units', []):
        name, udefs, rm = u, [], []
        if isinstance(u, dict):
            name, udefs, rm = u['src'], u.get('cflags', []), u.get('remove', [])
        src = path_of(work, name)
        if name.startswith('repo:'):
            uspec = dict(pool_off=spec.get('pool_off'), defs={k: v for k, v in spec.get('defs', {}).items() if k.startswith('MMD6_VERIF')})
            fl = cflags(work, uspec, udefs)
            key = hashlib.md5(repr((name, [x for x in fl if not x.startswith(work)], rm)).encode()).hexdigest()[:12]
            o = os.path.join(cache, re.sub(r'[^\w]', '_', name) + '_' + key + '.o')
            with _obj_lock(o):
                if not os.path.exists(o):
                    tmp = o + '.tmp%d' % threading.get_ident()
                    must(run(['goto-cc', '-c', src, '-o', tmp] + fl, timeout=600), 'goto-cc ' + name)
                    for fn in rm:
                        must(run(['goto-instrument', '--remove-function-body', fn, tmp, tmp], timeout=300), 'remove body ' + fn)
                    os.rename(tmp, o)
        else:
            o = os.path.join(work, re.sub(r'[^\w]', '_', name) + '.o')
            if not os.path.exists(o):
                must(run(['goto-cc', '-c', src, '-o', o] + cflags(work, spec, udefs), timeout=600), 'goto-cc ' + name)
                for fn in rm:
                    must(run(['goto-instrument', '--remove-function-body', fn, o, o], timeout=300), 'remove body ' + fn)
        objs.append(o)
    h = path_of(work, spec['src'])
    ho = os.path.join(work, 'harness_%s.o' % tag)
    if not cover:
        # a harness that calls a /repo function without a prototype gets an int-returning implicit declaration: pointers come back truncated
        # and the harness is silently vacuous (seen once: parse_attributes).  gcc decides; CBMC-only identifiers are declared for it.
        r = run(['gcc', '-fsyntax-only', '-Werror=implicit-function-declaration', '-Werror=int-conversion', '-D__CPROVER_assume(x)=(void)(x)',
                 '-D__CPROVER_assert(x,y)=(void)(x)', '-D__CPROVER_same_object(x,y)=((x)==(y))', '-D__CPROVER_POINTER_OFFSET(x)=((size_t)(x))', h] + cflags(work, spec, hextra), timeout=300)
        if r['rc'] != 0 and ('implicit declaration' in r['err'] or 'int-conversion' in r['err']):
            raise Fail('harness %s uses an undeclared function: %s' % (spec['src'], '\n'.join(l for l in r['err'].splitlines() if 'error' in l)[:800]))
    must(run(['goto-cc', '-c', h, '-o', ho] + cflags(work, spec, hextra), timeout=600), 'goto-cc harness ' + spec['src'])
    for fn in spec.get('remove', []):
        must(run(['goto-instrument', '--remove-function-body', fn, ho, ho], timeout=300), 'remove body ' + fn)
    gb = os.path.join(work, 'h_%s.gb' % tag)
    must(run(['goto-cc', '-o', gb, ho] + objs, timeout=600), 'goto-cc link')
    return gb


BACKENDS = {
    'sat': [],
    'cadical': ['--sat-solver', 'cadical'],
    'kissat': ['--external-sat-solver', 'kissat'],
    'z3': ['--z3'],
    'cvc5': ['--cvc5'],
}


def cbmc_cmd(spec, gb, cover):
    cmd = ['cbmc', gb, '--json-ui', '--no-malloc-may-fail', '--drop-unused-functions']
    if spec.get('unwind') is not None:
        cmd += ['--unwind', str(spec['unwind'])]
    if spec.get('unwindset'):
        cmd += ['--unwindset', ','.join(spec['unwindset'])]
    if spec.get('object_bits'):
        cmd += ['--object-bits', str(spec['object_bits'])]
    cmd += BACKENDS[spec.get('backend', 'sat')]
    if spec.get('functional'):
        # functional obligations only: memory-safety instrumentation is another harness's subject; slicing keeps what the assertions depend on
        cmd += ['--slice-formula']
        if not cover:
            cmd += ['--no-standard-checks'] + ([] if spec.get('unwinding_assertions') is False else ['--unwinding-assertions'])
    elif spec.get('slice'):
        cmd += ['--slice-formula']
    cmd += spec.get('cbmc', [])
    if cover:
        cmd += ['--no-standard-checks']
    else:
        cmd += ['--trace']
    return cmd


def parse_json_stream(path):
    try:
        with open(path) as f:
            return json.load(f)
    except Exception:
        # truncated output (timeout / kill): try to salvage
        txt = open(path, errors='replace').read()
        txt = txt.rstrip().rstrip(',')
        try:
            return json.loads(txt + ']')
        except Exception:
            return None


def acquire_mem(gb_need):
    with _mem_lock:
        while _mem_free[0] < gb_need:
            _mem_lock.wait()
        _mem_free[0] -= gb_need


def release_mem(gb_need):
    with _mem_lock:
        _mem_free[0] += gb_need
        _mem_lock.notify_all()


# --------------------------------------------------------------------------------------------
# counterexample -> replay

def leaf_assignments(trace):
    vals = {}
    def put(path, v):
        if '$pad' in path:
            return
        nm = v.get('name')
        if nm == 'struct':
            for m in v.get('members', []):
                put(path + '.' + m['name'], m['value'])
        elif nm == 'array':
            for el in v.get('elements', []):
                put('%s[%d]' % (path, el['index']), el['value'])
        elif nm in ('integer', 'boolean', 'char', 'unknown') or 'binary' in v:
            if 'binary' in v:
                vals[path] = int(v['binary'], 2)
            elif nm == 'boolean':
                vals[path] = 1 if v.get('data') in ('true', 'TRUE', '1') else 0
        # pointers etc. are ignored
    for st in trace:
        if st.get('stepType') != 'assignment':
            continue
        lhs = st.get('lhs', '')
        if not (lhs == 'IN' or lhs.startswith('IN.') or lhs.startswith('IN[')):
            continue
        lhs = re.sub(r'\[(\d+)l?\]', r'[\1]', lhs)
        put(lhs, st['value'])
    return vals


def write_replay(spec, work, prop_id, failed, trace, out_root):
    """creates out_root/<harness>/ with replay_in.inc, info.json, run.sh; runs it; returns (path, confirmed, text)"""
    d = os.path.join(out_root, spec['name'])
    shutil.rmtree(d, ignore_errors=True)
    os.makedirs(d)
    vals = leaf_assignments(trace)
    with open(os.path.join(d, 'replay_in.inc'), 'w') as f:
        for k in sorted(vals):
            f.write('%s = (__typeof__(%s))0x%xULL;\n' % (k, k, vals[k]))
    info = dict(property=prop_id, harness=spec['name'], failed=failed, defs=spec.get('defs', {}), inputs={k: vals[k] for k in sorted(vals)},
                note='inputs are the members of the harness input struct IN in the solver counterexample')
    confirmed, text = None, 'no native replay for this harness'
    if spec.get('replay', True):
        confirmed, text = native_replay(spec, work, d)
    info['native_replay'] = dict(confirmed=confirmed, output=text[-4000:])
    with open(os.path.join(d, 'info.json'), 'w') as f:
        json.dump(info, f, indent=1)
    return d, confirmed, text


_RENAME_RE = r'^(?P<pre>[A-Za-z_][\w \t\*]*?[ \*])%s(?P<post>\s*\([^;{]*\)\s*\{)'


NATIVE_SKIP = {'main.c', 'char_lookup.c', 'argtable3.c'}


def native_replay(spec, work, d):
    """re-execute the counterexample natively: the harness + the WHOLE real library of the current tree (gcc, ASan+UBSan).
    Stub units that stand for real units (ds_model, nondet scanners ...) are dropped in favour of the real code unless the spec
    lists the real unit under native_exclude."""
    rw = os.path.join(work, 'replay_build')
    shutil.rmtree(rw, ignore_errors=True)
    os.makedirs(rw)
    try:
        san = ['-fsanitize=address,undefined', '-fno-sanitize-recover=undefined', '-g', '-O0', '-w', '-DREPLAY=1', '-I', d]
        exclude = set(spec.get('native_exclude', [])) | NATIVE_SKIP
        special = {}
        stubs = []
        for u in spec.get('units', []):
            name, udefs, rm = u, [], []
            if isinstance(u, dict):
                name, udefs, rm = u['src'], u.get('cflags', []), u.get('remove', [])
            if name.startswith('repo:'):
                special[name[5:]] = (udefs, rm)
            elif name.startswith('work:') or not name.startswith('common/ds_model'):
                if not (isinstance(u, dict) and u.get('native') is False):
                    stubs.append((path_of(work, name), udefs))
        if spec.get('native_whole_lib', True):
            names = sorted(f for f in os.listdir(SRC) if f.endswith('.c') and f not in exclude)
        else:
            names = sorted(special)
        objs = []
        jobs = []
        for f in names:
            src = os.path.join(SRC, f)
            udefs, rm = special.get(f, ([], []))
            udefs = [x for x in udefs if x != 'vh_libc.h' and x != '-include']
            if rm:
                txt = open(src, errors='replace').read()
                for fn in rm:
                    txt, n = re.subn(_RENAME_RE % re.escape(fn), r'\g<pre>%s__removed\g<post>' % fn, txt, count=1, flags=re.M)
                    if n != 1:
                        return None, 'cannot rename %s in %s for native replay' % (fn, f)
                src = os.path.join(rw, 'rm_' + f)
                open(src, 'w').write(txt)
            o = os.path.join(rw, f + '.o')
            jobs.append((['gcc', '-c', src, '-o', o] + san + cflags(work, spec, udefs), f))
            objs.append(o)
        for i, (sp, udefs) in enumerate(stubs):
            o = os.path.join(rw, 'stub%d.o' % i)
            jobs.append((['gcc', '-c', sp, '-o', o] + san + cflags(work, spec, udefs), sp))
            objs.append(o)
        hsrc = path_of(work, spec['src'])
        if spec.get('remove'):
            return None, 'harness-level body removal has no native equivalent'
        ho = os.path.join(rw, 'h.o')
        jobs.append((['gcc', '-c', hsrc, '-o', ho] + san + cflags(work, spec), 'harness'))
        with ThreadPoolExecutor(max_workers=8) as ex:
            rs = list(ex.map(lambda j: (run(j[0], timeout=600), j[1]), jobs))
        for r, nm in rs:
            if r['rc'] != 0:
                return None, 'native build of %s failed: %s' % (nm, r['err'][-1200:])
        exe = os.path.join(d, 'replay.exe')
        r = run(['gcc', '-o', exe, ho] + objs + ['-fsanitize=address,undefined', '-lm', '-Wl,--allow-multiple-definition'], timeout=300)
        if r['rc'] != 0:
            return None, 'native link failed: %s' % r['err'][-1500:]
        env = dict(os.environ, ASAN_OPTIONS='detect_leaks=0:abort_on_error=0', UBSAN_OPTIONS='print_stacktrace=1')
        r = run([exe], timeout=60, env=env)
        text = 'exit=%s\n%s\n%s' % (r['rc'], r['out'][-2000:], r['err'][-3000:])
        if r['timed_out']:
            return True, 'native replay did not terminate in 60 s (hang)\n' + text
        if 'REPLAY: assumption not met' in r['out'] or 'REPLAY: model cap' in r['out']:
            return False, text
        if r['rc'] != 0:
            return True, text
        return False, text
    except Fail as ex:
        return None, 'replay machinery: %s' % ex


# --------------------------------------------------------------------------------------------

def run_harness(spec, work_root, prop_id, replay_root):
    """returns a result dict"""
    name = spec['name']
    work = os.path.join(work_root, name)
    os.makedirs(work, exist_ok=True)
    res = dict(name=name, verdict='error', wall=0.0, rss_kb=0, n_props=0, failed=[], cover_total=0, cover_sat=0,
               bounds=spec.get('bounds', ''), desc=spec.get('desc', ''), detail='')
    t0 = time.time()
    need = int(spec.get('mem_gb', 4))
    acquire_mem(need)
    try:
        if spec.get('prepare'):
            spec['prepare'](spec, work, work_root)
        gb = build_goto(work, spec, cover=False)
        gbc = build_goto(work, spec, cover=True)
        to = spec.get('timeout', 300)
        outj = os.path.join(work, 'cbmc_main.json')
        ladder = spec.get('unwind_auto') or [spec.get('unwind')]
        res['wall_main'] = 0.0
        # optional counterexample hunt: path-wise symbolic execution that stops at the first violated property.  It can only ANSWER with a
        # solver counterexample (then that is the verdict); running out of its time budget or finding nothing decides nothing and the full
        # run below follows.  For harnesses where a defect (e.g. a NULL dereference feeding a switch) would make the monolithic encoding explode.
        hunted = None
        if spec.get('hunt'):
            outh = os.path.join(work, 'cbmc_hunt.json')
            spec['unwind'] = ladder[0]
            res['hunt'] = []
            for strategy in ('fifo', 'lifo'):          # shortest paths first, then depth first: each gets half of the budget
                rh = run(cbmc_cmd(spec, gb, False) + ['--paths', strategy, '--stop-on-fail'], timeout=max(5, spec['hunt'] // 2), cwd=work, mem_gb=spec.get('mem_gb', 4) + 1, stdout=outh)
                res['wall_main'] += rh['wall']; res['hunt'].append(dict(strategy=strategy, wall=round(rh['wall'], 1), rc=rh['rc'], timed_out=rh['timed_out']))
                if rh['rc'] == 10 and not rh['timed_out']:
                    dh = parse_json_stream(outh) or []
                    fl = [x for x in dh if isinstance(x, dict) and str(x.get('status', '')).upper() in ('FAILURE', 'FAILED') and 'property' in x
                          and not any(pat in x['property'] for pat in spec.get('ignore_failed', []))]
                    if fl:
                        hunted = fl; res['hunt'][-1]['found'] = [x['property'] for x in fl]
                        break
        for step, uw in enumerate(ladder if not hunted else []):
            spec['unwind'] = uw
            r = run(cbmc_cmd(spec, gb, False), timeout=to, cwd=work, mem_gb=spec.get('mem_gb', 4) + 1, stdout=outj)
            res['wall_main'] += r['wall']
            res['rss_kb'] = max(res['rss_kb'], r['rss_kb'])
            res['unwind_used'] = uw
            if r['timed_out']:
                res['verdict'] = 'not_reached'; res['detail'] = 'timeout after %ds (unwind %s)' % (to, uw)
                return res
            if r['rc'] not in (0, 10):
                res['verdict'] = 'not_reached'; res['detail'] = 'cbmc ended abnormally rc=%s (memory limit %s GB?) unwind %s %s' % (r['rc'], spec.get('mem_gb', 4) + 1, uw, r['err'][-400:])
                return res
            data = parse_json_stream(outj)
            if data is None:
                res['verdict'] = 'not_reached'; res['detail'] = 'no parsable cbmc output (rc=%s) %s' % (r['rc'], r['err'][-500:])
                return res
            results = None; msgs = []; nobody = set()
            for x in data:
                if isinstance(x, dict):
                    if 'result' in x: results = x['result']
                    if x.get('messageType') == 'ERROR': msgs.append(x.get('messageText', ''))
                    mt = x.get('messageText', '')
                    if 'no body for function' in mt:
                        nobody.add(mt.split('no body for function')[-1].strip().split()[0])
            if spec.get('nobody_ok') == '*':
                nobody = set()
            nobody -= set(spec.get('nobody_ok', [])) | {'nondet_in'}
            nobody = {f for f in nobody if not f.startswith('nondet_') and not f.startswith('__CPROVER')}
            if nobody:
                res['verdict'] = 'error'; res['detail'] = 'functions without a body reached (would be silently nondeterministic): %s' % sorted(nobody)
                return res
            if results is None:
                oom = 'out of memory' in r['err'].lower() or 'bad_alloc' in r['err'] or r['rc'] in (-6, 134, -9, 137)
                res['verdict'] = 'not_reached' if oom else 'error'
                res['detail'] = 'cbmc gave no result table rc=%s %s %s' % (r['rc'], ' | '.join(msgs)[-800:], r['err'][-800:])
                return res
            failed = [x for x in results if x.get('status') == 'FAILURE' and not any(pat in x['property'] for pat in spec.get('ignore_failed', []))]
            only_unwind = failed and all('.unwind.' in x['property'] or 'recursion' in x['property'] for x in failed)
            if only_unwind and step + 1 < len(ladder):
                continue          # bound too small for this input size: the unwinding assertion says so; climb the ladder
            break
        if hunted:
            results = failed = hunted
        res['n_props'] = len(results)
        res['failed'] = [dict(property=x['property'], description=x.get('description', ''),
                              loc=(x.get('sourceLocation') or {}).get('function', '') + ':' + str((x.get('sourceLocation') or {}).get('line', '')))
                         for x in failed]
        # cover run (vacuity guard)
        outc = os.path.join(work, 'cbmc_cover.json')
        if hunted:      # a counterexample is in hand: the vacuity guard has nothing to add (and would meet the same explosion)
            rc_ = dict(timed_out=True, rc=None, wall=0.0, rss_kb=0, err='')
        else:
            rc_ = run(cbmc_cmd(spec, gbc, True), timeout=to, cwd=work, mem_gb=spec.get('mem_gb', 4) + 1, stdout=outc)
        res['wall_cover'] = rc_['wall']
        res['rss_kb'] = max(res['rss_kb'], rc_['rss_kb'])
        cov = parse_json_stream(outc) if (not rc_['timed_out'] and rc_['rc'] in (0, 10)) else None
        goals = None
        if cov:
            for x in cov:
                if isinstance(x, dict) and 'result' in x:
                    goals = [g for g in x['result'] if g.get('description', '').startswith('COVER ')]
                    res['cover_opt_sat'] = sum(1 for g in x['result'] if g.get('description', '').startswith('COVEROPT ') and g.get('status') == 'FAILURE')
        if goals is None:
            res['cover_detail'] = 'cover run gave no goals (timed_out=%s rc=%s)' % (rc_['timed_out'], rc_['rc'])
        else:
            res['cover_total'] = len(goals)
            res['cover_sat'] = sum(1 for g in goals if g.get('status') == 'FAILURE')
            res['cover_unsat'] = [g.get('description', '') for g in goals if g.get('status') != 'FAILURE']
        if failed:
            res['verdict'] = 'fail'
            trace = failed[0].get('trace', [])
            # prefer a non-unwinding failure for the replay
            for x in failed:
                if 'unwind' not in x['property'] and x.get('trace'):
                    trace = x['trace']; break
            try:
                path, confirmed, text = write_replay(spec, work, prop_id, res['failed'], trace, replay_root)
                res['replay'] = path; res['confirmed'] = confirmed; res['replay_text'] = text[-1500:]
            except Exception as ex:
                res['replay'] = None; res['confirmed'] = None; res['replay_text'] = 'replay generation failed: %r' % ex
        else:
            if goals is None:
                res['verdict'] = 'error'; res['detail'] = 'vacuity guard did not complete: ' + res.get('cover_detail', '')
            elif res['cover_total'] == 0:
                res['verdict'] = 'error'; res['detail'] = 'harness has no cover goals (vacuity guard missing)'
            elif res['cover_sat'] < res['cover_total'] and not spec.get('allow_uncovered'):
                res['verdict'] = 'error'; res['detail'] = 'vacuous: cover goals not reachable: %s' % res['cover_unsat']
            else:
                res['verdict'] = 'pass'
        return res
    except Fail as ex:
        res['verdict'] = 'error'; res['detail'] = str(ex)[-3000:]
        return res
    finally:
        release_mem(need)
        res['wall'] = time.time() - t0
        if res['verdict'] == 'pass' and not os.environ.get('VERIF_KEEP'):
            shutil.rmtree(work, ignore_errors=True)


def load_findings():
    p = os.path.join(VERIF, 'known_findings.txt')
    out = []
    if os.path.exists(p):
        for ln in open(p):
            ln = ln.strip()
            if ln.startswith('finding:'):
                kv = dict(m.groups() for m in re.finditer(r'(\w+)=("[^"]*"|\S+)', ln))
                kv = {k: v.strip('"') for k, v in kv.items()}
                kv['_line'] = ln
                out.append(kv)
    return out


def check_property(prop_id, tier, specs, meta, extra_results=None, seed=0):
    """run all harness specs of a property; write evidence; print verdict lines; return exit code"""
    t0 = time.time()
    work_root = os.path.join(os.environ.get('VERIF_WORK_DIR', os.path.join(VERIF, '.work')), '%s_%s' % (prop_id, tier))
    shutil.rmtree(work_root, ignore_errors=True)
    os.makedirs(work_root)
    replay_root = os.path.join(os.environ.get('VERIF_REPLAY_DIR', os.path.join(VERIF, 'replay')), prop_id)
    os.makedirs(replay_root, exist_ok=True)
    findings = [f for f in load_findings() if f.get('property') == prop_id]
    known_by_harness = {}
    for f in findings:
        known_by_harness.setdefault(f.get('harness'), []).append(f)
    # a harness with a listed finding is compiled with -DKF_<tag> (assumes the finding's input class away)
    for s in specs:
        for f in known_by_harness.get(s['name'], []):
            s.setdefault('defs', {})['KF_' + f['tag']] = 1
    jobs = int(os.environ.get('VERIF_JOBS', '16'))
    results = []
    log('[%s] tier=%s harnesses=%d repo=%s' % (prop_id, tier, len(specs), REPO))
    with ThreadPoolExecutor(max_workers=jobs) as ex:
        futs = [ex.submit(run_harness, s, work_root, prop_id, replay_root) for s in specs]
        for fu in futs:
            r = fu.result()
            results.append(r)
            log('  %-34s %-11s %6.1fs %7.0fMB props=%d cover=%d/%d %s' % (r['name'], r['verdict'], r['wall'], r['rss_kb'] / 1024.0,
                r['n_props'], r['cover_sat'], r['cover_total'], (r['detail'] or '')[:300].replace('\n', ' ')))
    for r in (extra_results or []):
        results.append(r)
        log('  %-34s %-11s %6.1fs %s' % (r['name'], r['verdict'], r.get('wall', 0), (r.get('detail') or '')[:300]))
    violations = [r for r in results if r['verdict'] == 'fail']
    errors = [r for r in results if r['verdict'] in ('error',)]
    notreached = [r for r in results if r['verdict'] == 'not_reached']
    rc = 0
    for f in findings:
        log('KNOWN-FINDING: property=%s %s' % (prop_id, f.get('what', f['_line'])))
    for r in violations:
        rc = 1
        log('VIOLATION property=%s replay=%s' % (prop_id, r.get('replay') or os.path.join(replay_root, r['name'])))
        for fp in r['failed'][:6]:
            log('    failed: %s %s [%s]' % (fp['property'], fp['description'], fp['loc']))
        log('    native replay confirmed=%s' % r.get('confirmed'))
        if r.get('replay_text'):
            log('    ' + r['replay_text'][-600:].replace('\n', '\n    '))
    if rc == 0 and (errors or (notreached and tier == 'quick')):
        rc = 2
        for r in errors + notreached:
            log('BROKEN harness=%s verdict=%s %s' % (r['name'], r['verdict'], r['detail'][:2000]))
    passed = [r for r in results if r['verdict'] == 'pass']
    ev = dict(
        property_id=prop_id, tier=tier, seed=seed, level='model_checking',
        coverage=dict(
            evaluations=sum(r['n_props'] for r in results) + sum(r.get('queries', 0) for r in results),
            distinct_nontrivial=sum(r['cover_sat'] + r.get('cover_opt_sat', 0) for r in passed),
            rule='one evaluation = one verification condition (assertion / built-in safety check / unwinding assertion) decided by the '
                 'solver for ALL inputs inside the harness bound; distinct_nontrivial = number of distinct reachability goals '
                 '(__CPROVER_cover) the solver showed satisfiable in passing harnesses, i.e. distinct non-vacuous situations each '
                 'harness provably reaches',
            samples=[dict(harness=r['name'], verdict=r['verdict'], bounds=r.get('bounds', ''), what=r.get('desc', ''),
                          conditions=r['n_props'], cover='%d/%d' % (r['cover_sat'], r['cover_total']),
                          solver_wall_s=round(r.get('wall_main', r.get('wall', 0)), 1), peak_rss_mb=int(r['rss_kb'] / 1024)) for r in results],
            functions_encoded=meta.get('functions', []),
            stubs=meta.get('stubs', []),
            outside_claim=meta.get('outside', []),
            not_reached=[r['name'] + ': ' + r['detail'] for r in notreached],
            solver_time_s=round(sum(r.get('wall_main', 0) + r.get('wall_cover', 0) for r in results), 1),
            peak_rss_kb=max([r['rss_kb'] for r in results] + [0]),
            harnesses_passed=len(passed), harnesses_total=len(results),
            known_findings=[f['_line'] for f in findings],
            exhaustive=False,
        ),
        assumptions=meta.get('assumptions', []) + [
            'cbmc --no-malloc-may-fail: allocation failure is outside every property',
            'every pass means: holds for all inputs within the bound stated per harness (unwinding assertions on); nothing is claimed outside it',
        ],
        wall_s=round(time.time() - t0, 1),
        violations=len(violations),
    )
    evdir = os.environ.get('VERIF_EVIDENCE_DIR', os.path.join(VERIF, 'evidence'))     # overridden only by bin/eval_seeds (scratch copies of /repo)
    os.makedirs(evdir, exist_ok=True)
    with open(os.path.join(evdir, prop_id + '.json'), 'w') as f:
        json.dump(ev, f, indent=1)
    if rc == 0:
        log('[%s] OK: %d/%d harnesses hold within their bounds (%.0fs)' % (prop_id, len(passed), len(results), time.time() - t0))
        if not os.environ.get('VERIF_KEEP'):
            shutil.rmtree(work_root, ignore_errors=True)
    return rc
