"""Engine B helpers: generate + validate IR-derived C for the re2c scanners of the current tree."""
import os, re, glob, threading
import vrun

_val_lock = threading.Lock()
_validated = {}

SCANNER_UNITS = {
    'scanners.c': dict(header='scanners.h', proto='size_t (*)(const char *)'),
}

def scanner_names(unit='scanners.c'):
    txt = open(os.path.join(vrun.SRC, unit)).read()
    return re.findall(r'^size_t (scan_\w+)\(const char \* c\) \{', txt, re.M)

def xml_scanner_names():
    txt = open(os.path.join(vrun.SRC, 'xml.c')).read()
    return re.findall(r'^size_t (xml_scan_\w+)\(const char \* c\) \{', txt, re.M)

def validate_scanners(work_root, unit, names, gen):
    """translation validation: generated C (native memory macros) vs the real functions on every byte offset of tests/MMD6Tests/*.text"""
    key = (unit, tuple(names))
    with _val_lock:
        if key in _validated:
            return _validated[key]
        d = os.path.join(work_root, 'irb')
        inc = vrun.prepare_inc(work_root)
        drv = os.path.join(d, 'diff_%s.c' % unit.replace('.', '_').replace('-', '_'))
        hdr = 'scanners.h' if unit == 'scanners.c' else 'xml.h'
        with open(drv, 'w') as f:
            f.write('#include <stdio.h>\n#include <string.h>\n#include <stdlib.h>\n#include "d_string.h"\n#include "%s"\n#include "ir_native.h"\n#include "%s"\n' % (hdr, gen))
            f.write('typedef size_t (*F)(const char*); typedef uint64_t (*G)(uint64_t);\nstruct {const char*nm; F f; G g;} T[] = {%s};\n' %
                    ','.join('{"%s", %s, ir_%s}' % (n, n, n) for n in names))
            f.write(r'''int main(int argc,char**argv){ long n=0,bad=0,nz=0;
  for(int a=1;a<argc;a++){ FILE*f=fopen(argv[a],"rb"); if(!f) continue; static char buf[1<<21]; size_t len=fread(buf,1,sizeof buf-1,f); buf[len]=0; fclose(f);
    for(size_t i=0;i<=len;i++) for(unsigned k=0;k<sizeof T/sizeof T[0];k++){ size_t r1=T[k].f(buf+i); size_t r2=T[k].g((uint64_t)(uintptr_t)(buf+i)); n++; nz+=r1!=0; if(r1!=r2){bad++; if(bad<5)printf("DIFF %s %s@%zu %zu %zu\n",T[k].nm,argv[a],i,r1,r2);} } }
  printf("calls=%ld nonzero=%ld bad=%ld\n",n,nz,bad); return bad!=0; }
''')
        exe = os.path.join(d, 'diff_%s' % unit.replace('.', '_'))
        srcs = [drv, os.path.join(vrun.SRC, unit)]
        if unit == 'xml.c':
            srcs += [os.path.join(vrun.SRC, 'd_string.c')]
        r = vrun.run(['gcc', '-O1', '-w', '-DNDEBUG', '-I', vrun.SRC, '-I', inc, '-I', vrun.COMMON] + srcs + ['-o', exe], timeout=600)
        if r['rc'] != 0:
            raise vrun.Fail('translation-validation build failed for %s: %s' % (unit, r['err'][-1500:]))
        files = sorted(glob.glob(os.path.join(vrun.REPO, 'tests', 'MMD6Tests', '*.text'))) + sorted(glob.glob(os.path.join(vrun.REPO, 'tests', 'MMD6Tests', '*.opml')))
        r = vrun.run([exe] + files, timeout=600)
        m = re.search(r'calls=(\d+) nonzero=(\d+) bad=(\d+)', r['out'])
        if r['rc'] != 0 or not m or int(m.group(3)) != 0 or int(m.group(1)) < 1000:
            raise vrun.Fail('translation validation FAILED for %s: %s %s' % (unit, r['out'][-800:], r['err'][-300:]))
        _validated[key] = dict(calls=int(m.group(1)), nonzero=int(m.group(2)))
        return _validated[key]

_lex_lock = threading.Lock()
_lex_done = {}

def prepare_lexer(spec, work, work_root):
    """Engine B for lexer.c scan(); translation validated natively against the real scan() on the test corpus (token stream equality)"""
    gen = vrun.engine_b(work_root, 'lexer.c', funcs=['scan'])
    with _lex_lock:
        if 'ok' not in _lex_done:
            d = os.path.join(work_root, 'irb'); inc = vrun.prepare_inc(work_root)
            drv = os.path.join(d, 'lexdiff.c')
            with open(drv, 'w') as f:
                f.write('#include <stdio.h>\n#include <string.h>\n#include <stdlib.h>\n#include "lexer.h"\n#include "ir_native.h"\n#include "%s"\n' % gen)
                f.write(r'''int main(int argc,char**argv){ long n=0,bad=0;
  for(int a=1;a<argc;a++){ FILE*f=fopen(argv[a],"rb"); if(!f) continue; static char buf[1<<21]; size_t len=fread(buf,1,sizeof buf-1,f); buf[len]=0; fclose(f);
    Scanner s1={buf,buf,buf,buf}, s2={buf,buf,buf,buf}; int t1,t2;
    do { t1=scan(&s1,buf+len); t2=(int)ir_scan((uint64_t)(uintptr_t)&s2,(uint64_t)(uintptr_t)(buf+len)); n++;
      if(t1!=t2||s1.cur!=s2.cur||s1.start!=s2.start){bad++; printf("DIFF %s t1=%d t2=%d\n",argv[a],t1,t2); break;} } while(t1); }
  printf("tokens=%ld bad=%ld\n",n,bad); return bad!=0; }
''')
            exe = os.path.join(d, 'lexdiff')
            r = vrun.run(['gcc', '-O1', '-w', '-DNDEBUG', '-I', vrun.SRC, '-I', inc, '-I', vrun.COMMON, drv, os.path.join(vrun.SRC, 'lexer.c'), '-o', exe], timeout=600)
            if r['rc'] != 0:
                raise vrun.Fail('lexer translation-validation build failed: %s' % r['err'][-1500:])
            files = sorted(glob.glob(os.path.join(vrun.REPO, 'tests', 'MMD6Tests', '*.text')))
            r = vrun.run([exe] + files, timeout=600)
            m = re.search(r'tokens=(\d+) bad=(\d+)', r['out'])
            if r['rc'] != 0 or not m or int(m.group(2)) != 0 or int(m.group(1)) < 1000:
                raise vrun.Fail('lexer translation validation FAILED: %s %s' % (r['out'][-500:], r['err'][-300:]))
            _lex_done['ok'] = int(m.group(1))
    spec.setdefault('defs', {})['IRFILE'] = '"%s"' % gen
    spec['tv'] = dict(tokens=_lex_done['ok'])

def prepare_scanner(spec, work, work_root):
    unit = spec.get('ir_unit', 'scanners.c')
    names = scanner_names(unit) if unit == 'scanners.c' else xml_scanner_names()
    gen = vrun.engine_b(work_root, unit, funcs=(names if unit != 'scanners.c' else None))
    info = validate_scanners(work_root, unit, names, gen)
    spec.setdefault('defs', {})['IRFILE'] = '"%s"' % gen
    spec['tv'] = info
