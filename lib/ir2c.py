#!/usr/bin/env python3
"""LLVM-14 textual IR -> single-dispatch-loop C (probe).  Subset: integer/pointer code."""
import re, sys

def split_top(s, sep=','):
    out, depth, cur = [], 0, ''
    for ch in s:
        if ch in '([{<': depth += 1
        elif ch in ')]}>': depth -= 1
        if ch == sep and depth == 0:
            out.append(cur.strip()); cur = ''
        else: cur += ch
    if cur.strip(): out.append(cur.strip())
    return out

class Mod:
    def __init__(self, text):
        self.structs = {}
        self.globals = {}   # name -> (ctype decl string)
        self.text = text
        for m in re.finditer(r'^(%[\w.]+) = type \{(.*)\}\s*$', text, re.M):
            self.structs[m.group(1)] = split_top(m.group(2).strip())
        for m in re.finditer(r'^(%[\w.]+) = type opaque', text, re.M):
            self.structs[m.group(1)] = None

    def size_align(self, ty):
        ty = ty.strip()
        if ty.endswith('*'): return 8, 8
        m = re.fullmatch(r'i(\d+)', ty)
        if m:
            b = max(1, (int(m.group(1)) + 7) // 8)
            return b, min(b, 8)
        m = re.fullmatch(r'\[(\d+) x (.*)\]', ty)
        if m:
            s, a = self.size_align(m.group(2)); return s * int(m.group(1)), a
        if ty in self.structs or ty.startswith('{'):
            fields = self.structs[ty] if ty in self.structs else split_top(ty[1:-1].strip())
            off, al = 0, 1
            for f in fields:
                s, a = self.size_align(f); off = (off + a - 1) // a * a + s; al = max(al, a)
            return (off + al - 1) // al * al, al
        if ty == 'double': return 8, 8
        if ty == 'float': return 4, 4
        raise ValueError('size of ' + ty)

    def field_off(self, ty, idx):
        fields = self.structs[ty] if ty in self.structs else split_top(ty[1:-1].strip())
        off = 0
        for i, f in enumerate(fields):
            s, a = self.size_align(f); off = (off + a - 1) // a * a
            if i == idx: return off, f
            off += s
        raise IndexError

def ctype(ty):
    ty = ty.strip()
    if ty.endswith('*'): return 'uint64_t'
    m = re.fullmatch(r'i(\d+)', ty)
    if m:
        n = int(m.group(1))
        return {1: 'uint8_t', 8: 'uint8_t', 16: 'uint16_t', 32: 'uint32_t', 64: 'uint64_t'}[n]
    if ty == 'void': return 'void'
    raise ValueError('ctype ' + ty)

def sctype(ty):
    return ctype(ty).replace('uint', 'int')

def bits(ty):
    return int(ty[1:])

def cname(v):
    return 'v_' + re.sub(r'[^\w]', '_', v[1:])

class Fn:
    def __init__(self, mod, header, body, known):
        self.mod, self.known = mod, known
        m = re.match(r'define\s+(?:[\w()]+\s+)*?((?:%?[\w.]+|void)\**)\s+@([\w.]+)\((.*)\)', header)
        self.ret, self.name = m.group(1), m.group(2)
        self.params = []
        for p in split_top(m.group(3)):
            if not p: continue
            toks = p.split()
            self.params.append((toks[0], toks[-1]))
        self.blocks = []  # (label, [lines])
        cur = None
        first = True
        for ln in body:
            ln = ln.split(' ; ')[0].rstrip() if not ln.strip().startswith(';') else ''
            if not ln.strip(): continue
            m = re.match(r'^([\w.]+):', ln)
            if m:
                cur = (m.group(1), []); self.blocks.append(cur); continue
            if cur is None:
                # entry block label = number of params (unnamed) -- find via first use; use 'entry'
                cur = ('entry', []); self.blocks.append(cur)
            cur[1].append(ln.strip())
        # join multi-line switch
        for lab, lines in self.blocks:
            out, i = [], 0
            while i < len(lines):
                l = lines[i]
                if l.startswith('switch') and l.endswith('['):
                    while not lines[i].endswith(']'):
                        i += 1; l += ' ' + lines[i]
                out.append(l); i += 1
            lines[:] = out
        # entry label: implicit numbered label = len(params) if params unnamed numeric
        self.entry_alias = None
        if self.blocks and self.blocks[0][0] == 'entry':
            nums = [int(p[1][1:]) for p in self.params if re.fullmatch(r'%\d+', p[1])]
            self.entry_alias = str((max(nums) + 1) if nums else 0)
        self.lab_id = {}
        for i, (lab, _) in enumerate(self.blocks):
            self.lab_id[lab] = i
        if self.entry_alias: self.lab_id[self.entry_alias] = 0
        self.decls = {}

    # operand rendering -------------------------------------------------
    def val(self, ty, v):
        v = v.strip()
        if v.startswith('%'): return cname(v)
        if v.startswith('@'): return 'IR_GADDR(g_' + re.sub(r'[^\w]', '_', v[1:]) + ')'
        if v in ('null',): return '((uint64_t)0)'
        if v in ('undef', 'poison'): return '0'
        if v == 'true': return '1'
        if v == 'false': return '0'
        if v.startswith('getelementptr'):
            m = re.match(r'getelementptr (?:inbounds )?\((.*)\)$', v)
            parts = split_top(m.group(1))
            return self.gep(parts[0], parts[1].rsplit(' ', 1)[1], parts[1].rsplit(' ', 1)[0], parts[2:])
        if v.startswith('bitcast'):
            m = re.match(r'bitcast \((.*) (\S+) to (.*)\)$', v)
            return self.val(m.group(1), m.group(2))
        if re.fullmatch(r'-?\d+', v):
            n = int(v)
            if ty.endswith('*'): return '((uint64_t)%d)' % n
            b = bits(ty); n &= (1 << b) - 1
            return '((%s)%dULL)' % (ctype(ty), n)
        raise ValueError('operand ' + v)

    def gep(self, basety, base, basept, idxs):
        expr = self.val(basept, base)
        ty = basety
        first = True
        for ix in idxs:
            ity, iv = ix.split()[-2], ix.split()[-1]
            if first:
                s, _ = self.mod.size_align(ty)
                expr = '(%s + (uint64_t)((int64_t)(%s)%s * %d))' % (expr, sctype(ity), self.val(ity, iv), s)
                first = False
            elif ty in self.mod.structs or ty.startswith('{'):
                off, fty = self.mod.field_off(ty, int(iv)); expr = '(%s + %d)' % (expr, off); ty = fty
            else:
                m = re.fullmatch(r'\[(\d+) x (.*)\]', ty)
                ty = m.group(2); s, _ = self.mod.size_align(ty)
                expr = '(%s + (uint64_t)((int64_t)(%s)%s * %d))' % (expr, sctype(ity), self.val(ity, iv), s)
        return expr

    def declare(self, v, ty):
        self.decls[cname(v)] = ctype(ty)

    def goto(self, cur, lab):
        return 'prev = %d; %s' % (self.lab_id[cur], self.jump(cur, lab.lstrip('%')))

    def jump(self, cur, lab):
        # resolved textually later: @@J<src>:<dst>@@
        return '@@J%d:%d@@' % (self.lab_id[cur], self.lab_id[lab])

    def instr(self, cur, l):
        m = re.match(r'(%[\w.]+) = (.*)', l)
        dst, rhs = (m.group(1), m.group(2)) if m else (None, l)
        op = rhs.split()[0]
        if op == 'tail' or op == 'notail' or op == 'musttail':
            rhs = rhs.split(' ', 1)[1]; op = 'call'
        if op == 'getelementptr':
            m = re.match(r'getelementptr (?:inbounds )?(.*)', rhs); parts = split_top(m.group(1))
            pt, pv = parts[1].rsplit(' ', 1)
            self.declare(dst, 'i8*'); return '%s = %s;' % (cname(dst), self.gep(parts[0], pv, pt, parts[2:]))
        if op == 'load':
            m = re.match(r'load (?:volatile )?(.*?), (.*?\*) (\S+?)(?:,.*)?$', rhs)
            ty = m.group(1); self.declare(dst, ty)
            ct = ctype(ty)
            return '%s = IR_LD%d(%s);' % (cname(dst), 64 if ty.endswith('*') else max(8, bits(ty)), self.val(m.group(2), m.group(3)))
        if op == 'store':
            m = re.match(r'store (?:volatile )?(.*?) (\S+), (.*?\*) (\S+?)(?:,.*)?$', rhs)
            ty = m.group(1)
            return 'IR_ST%d(%s, %s);' % (64 if ty.endswith('*') else max(8, bits(ty)), self.val(m.group(3), m.group(4)), self.val(ty, m.group(2)))
        if op == 'icmp':
            m = re.match(r'icmp (\w+) (.*?) (\S+), (\S+)$', rhs)
            pred, ty, a, b = m.groups(); self.declare(dst, 'i1')
            A, B = self.val(ty, a), self.val(ty, b)
            if ty.endswith('*'):
                sg = pred
                cop = {'eq': '==', 'ne': '!=', 'ult': '<', 'ule': '<=', 'ugt': '>', 'uge': '>='}[sg]
                return '%s = (%s %s %s);' % (cname(dst), A, cop, B)
            if pred[0] == 's':
                A, B = '(%s)%s' % (sctype(ty), A), '(%s)%s' % (sctype(ty), B)
            cop = {'eq': '==', 'ne': '!=', 'lt': '<', 'le': '<=', 'gt': '>', 'ge': '>='}[pred if pred in ('eq', 'ne') else pred[1:]]
            return '%s = (%s %s %s);' % (cname(dst), A, cop, B)
        if op in ('add', 'sub', 'mul', 'and', 'or', 'xor', 'shl', 'lshr', 'ashr', 'udiv', 'urem', 'sdiv', 'srem'):
            m = re.match(r'\w+ (?:nuw |nsw |exact )*(\S+) (\S+), (\S+)$', rhs)
            ty, a, b = m.groups(); self.declare(dst, ty); A, B = self.val(ty, a), self.val(ty, b)
            ct = ctype(ty); b_ = bits(ty)
            wide = 'uint64_t' if b_ == 64 else 'uint32_t'
            cop = {'add': '+', 'sub': '-', 'mul': '*', 'and': '&', 'or': '|', 'xor': '^', 'shl': '<<', 'lshr': '>>', 'udiv': '/', 'urem': '%'}.get(op)
            if cop:
                e = '(%s)((%s)%s %s (%s)%s)' % (ct, wide, A, cop, wide, B)
            elif op == 'ashr':
                e = '(%s)((%s)%s >> %s)' % (ct, sctype(ty), A, B)
            else:
                e = '(%s)((%s)%s %s (%s)%s)' % (ct, sctype(ty), A, '/' if op == 'sdiv' else '%', sctype(ty), B)
            if b_ == 1: e = '(%s & 1)' % e
            return '%s = %s;' % (cname(dst), e)
        if op in ('zext', 'trunc', 'sext', 'ptrtoint', 'inttoptr', 'bitcast'):
            m = re.match(r'\w+ (.*?) (\S+) to (.*)$', rhs)
            fty, v, tty = m.groups(); self.declare(dst, tty); V = self.val(fty, v)
            if op == 'sext':
                if fty == 'i1': e = '(%s)(%s ? -1 : 0)' % (ctype(tty), V)
                else: e = '(%s)(%s)(%s)%s' % (ctype(tty), sctype(tty), sctype(fty), V)
            elif op == 'trunc' and tty == 'i1': e = '(%s & 1)' % V
            else: e = '(%s)%s' % (ctype(tty), V)
            return '%s = %s;' % (cname(dst), e)
        if op == 'select':
            m = re.match(r'select i1 (\S+), (.*?) (\S+), (.*?) (\S+)$', rhs)
            c, ty, a, ty2, b = m.groups(); self.declare(dst, ty)
            return '%s = %s ? %s : %s;' % (cname(dst), self.val('i1', c), self.val(ty, a), self.val(ty, b))
        if op == 'alloca':
            m = re.match(r'alloca (.*?)(?:, .*)?$', rhs); s, _ = self.mod.size_align(m.group(1))
            self.declare(dst, 'i8*'); self.decls['a_' + cname(dst)] = ('ALLOCA', s)
            return '%s = IR_ALLOCA(a_%s);' % (cname(dst), cname(dst))
        if op == 'br' and getattr(self, 'flat', False):
            m = re.match(r'br i1 (\S+), label (%[\w.]+), label (%[\w.]+)', rhs)
            if m:
                return 'npc = %s ? %d : %d;' % (self.val('i1', m.group(1)), self.lab_id[m.group(2)[1:]], self.lab_id[m.group(3)[1:]])
            m = re.match(r'br label (%[\w.]+)', rhs); return 'npc = %d;' % self.lab_id[m.group(1)[1:]]
        if op == 'switch' and getattr(self, 'flat', False):
            m = re.match(r'switch (\S+) (\S+), label (%[\w.]+) \[(.*)\]', rhs)
            ty, v, dflt, cases = m.groups()
            groups = {}
            for cm in re.finditer(r'(\S+) (-?\d+), label (%[\w.]+)', cases):
                groups.setdefault(self.lab_id[cm.group(3)[1:]], []).append(int(cm.group(2)) & ((1 << bits(ty)) - 1))
            V = self.val(ty, v); e = '%d' % self.lab_id[dflt[1:]]
            for tgt, vals in groups.items():
                vals.sort(); rs = []; i = 0
                while i < len(vals):
                    j = i
                    while j + 1 < len(vals) and vals[j + 1] == vals[j] + 1: j += 1
                    rs.append('(%s == %dU)' % (V, vals[i]) if i == j else '(%s >= %dU && %s <= %dU)' % (V, vals[i], V, vals[j])); i = j + 1
                e = '((%s) ? %d : %s)' % (' || '.join(rs), tgt, e)
            return 'npc = %s;' % e
        if op == 'br':
            m = re.match(r'br i1 (\S+), label (%[\w.]+), label (%[\w.]+)', rhs)
            if m:
                return 'prev = %d; if (%s) { %s } else { %s }' % (self.lab_id[cur], self.val('i1', m.group(1)), self.jump(cur, m.group(2)[1:]), self.jump(cur, m.group(3)[1:]))
            m = re.match(r'br label (%[\w.]+)', rhs); return self.goto(cur, m.group(1))
        if op == 'switch':
            m = re.match(r'switch (\S+) (\S+), label (%[\w.]+) \[(.*)\]', rhs)
            ty, v, dflt, cases = m.groups()
            s = 'prev = %d; switch (%s) {' % (self.lab_id[cur], self.val(ty, v))
            for cm in re.finditer(r'(\S+) (-?\d+), label (%[\w.]+)', cases):
                s += ' case %s: %s' % (self.val(cm.group(1), cm.group(2)), self.jump(cur, cm.group(3)[1:]))
            s += ' default: %s }' % self.jump(cur, dflt[1:])
            return s
        if op == 'ret':
            if rhs.strip() == 'ret void': return 'return;'
            m = re.match(r'ret (.*?) (\S+)$', rhs); return 'return %s;' % self.val(m.group(1), m.group(2))
        if op == 'unreachable':
            return '__builtin_unreachable();'
        if op == 'call':
            m = re.match(r'call (?:[\w()]+ )*?((?:%?[\w.]+|void)\**) (?:\(.*?\) )?@([\w.]+)\((.*)\)', rhs)
            rty, fn, args = m.groups()
            if fn.startswith('llvm.lifetime') or fn.startswith('llvm.dbg'): return ''
            al = []
            for a in split_top(args):
                toks = a.split(); al.append(self.val(toks[0], toks[-1]))
            callee = ('ir_' + fn) if fn in self.known else fn
            if fn.startswith('llvm.'): callee = 'irx_' + fn[5:].replace('.', '_')
            call = '%s(%s)' % (callee, ', '.join(al))
            if not (fn in self.known):
                self.mod.externs.setdefault(fn, (rty, [split_top(args)[i].split()[0] for i in range(len(al))]))
            if dst:
                self.declare(dst, rty); return '%s = (%s)%s;' % (cname(dst), ctype(rty), call)
            return call + ';'
        raise ValueError('instr: ' + l)

    def block_code(self, lab, lines):
        body = []
        phis = [l for l in lines if re.match(r'%[\w.]+ = phi ', l)]
        rest = [l for l in lines if not re.match(r'%[\w.]+ = phi ', l)]
        if phis:
            body.append('{')
            for i, l in enumerate(phis):
                m = re.match(r'(%[\w.]+) = phi (.*?) (\[.*)$', l); dst, ty, inc = m.groups()
                self.declare(dst, ty)
                body.append('  %s t%d; switch (prev) {' % (ctype(ty), i))
                seen = set()
                for im in re.finditer(r'\[ (.*?), (%[\w.]+) \]', inc):
                    if im.group(2) in seen: continue
                    seen.add(im.group(2))
                    body.append('    case %d: t%d = %s; break;' % (self.lab_id[im.group(2)[1:]], i, self.val(ty, im.group(1))))
                body.append('    default: t%d = 0; break; }' % i)
            for i, l in enumerate(phis):
                dst = re.match(r'(%[\w.]+) = ', l).group(1)
                body.append('  %s = t%d;' % (cname(dst), i))
            body.append('}')
        for l in rest:
            c = self.instr(lab, l)
            if c: body.append(c)
        return body

    def succs_of(self, code):
        return [int(x) for x in re.findall(r'@@J\d+:(\d+)@@', '\n'.join(code))]

    def emit_flat(self):
        self.flat = True
        code = {self.lab_id[lab]: self.block_code(lab, lines) for lab, lines in self.blocks}
        # which SSA names are used outside their defining block (or by any phi)?
        defblk = {}; cross = set()
        for lab, lines in self.blocks:
            for l in lines:
                m = re.match(r'(%[\w.]+) = ', l)
                if m: defblk[m.group(1)] = lab
        for lab, lines in self.blocks:
            for l in lines:
                isphi = re.match(r'%[\w.]+ = phi ', l) is not None
                rhs = l.split(' = ', 1)[1] if re.match(r'%[\w.]+ = ', l) else l
                for u in re.findall(r'%[\w.]+', rhs):
                    if u in defblk and (defblk[u] != lab or isphi): cross.add(u)
                if isphi: cross.add(re.match(r'(%[\w.]+) = ', l).group(1))
        local = {cname(v) for v in defblk if v not in cross}
        out_lines = []
        for b in code:
            out_lines.append('    if (pc == %d) {' % b)
            for l in code[b]:
                m = re.match(r'(v_\w+) = ', l)
                if m and m.group(1) in local and m.group(1) in self.decls and not isinstance(self.decls[m.group(1)], tuple):
                    l = self.decls[m.group(1)] + ' ' + l
                out_lines.append('      ' + l)
            out_lines.append('    }')
        ps = ', '.join('%s %s' % (ctype(t), cname(nm)) for t, nm in self.params)
        out = ['%s ir_%s(%s) {' % (ctype(self.ret), self.name, ps or 'void')]
        for nm, t in self.decls.items():
            if isinstance(t, tuple): out.append('  uint64_t %s[%d];' % (nm, (t[1] + 7) // 8))
        pn = [cname(p[1]) for p in self.params]
        for nm, t in self.decls.items():
            if not isinstance(t, tuple) and nm not in pn and nm not in local:
                out.append('  %s %s = 0;' % (t, nm))
        out.append('  int prev = -1; int pc = 0; int npc = 0;')
        out.append('  for (;;) {')
        out += out_lines
        out.append('    prev = pc; pc = npc; }')
        out.append('}')
        self.nlocal = len(local); self.nglobal = len(defblk) - len(local)
        return '\n'.join(out)

    def emit(self):
        n = len(self.blocks)
        code = {self.lab_id[lab]: self.block_code(lab, lines) for lab, lines in self.blocks}
        succ = {b: list(dict.fromkeys(self.succs_of(code[b]))) for b in code}
        out_lines = []
        self.loop_ctr = 0
        self.stats = {'loops': 0, 'dispatch': 0}

        def sccs(nodes, edges):
            # Tarjan, iterative; returns list of SCCs in reverse topological order
            index = {}; low = {}; st = []; on = set(); res = []; idx = [0]
            for root in nodes:
                if root in index: continue
                work = [(root, iter(edges(root)))]
                index[root] = low[root] = idx[0]; idx[0] += 1; st.append(root); on.add(root)
                while work:
                    v, it = work[-1]
                    adv = False
                    for w in it:
                        if w not in index:
                            index[w] = low[w] = idx[0]; idx[0] += 1; st.append(w); on.add(w)
                            work.append((w, iter(edges(w)))); adv = True; break
                        elif w in on: low[v] = min(low[v], index[w])
                    if adv: continue
                    work.pop()
                    if work: low[work[-1][0]] = min(low[work[-1][0]], low[v])
                    if low[v] == index[v]:
                        comp = []
                        while True:
                            w = st.pop(); on.discard(w); comp.append(w)
                            if w == v: break
                        res.append(comp)
            return res

        # resolve(src,dst,ctx): ctx maps dst -> C statement
        def emit_region(nodes, entry, jumpmap, ind):
            """nodes: set of block ids; entry: first block; jumpmap: dst -> stmt for dsts handled by enclosing loops"""
            nodeset = set(nodes)
            def edges(v):
                return [w for w in succ[v] if w in nodeset and w not in jumpmap]
            order = [entry] + [x for x in nodes if x != entry]
            comps = sccs(order, edges)
            comps.reverse()  # topological order
            for comp in comps:
                cs = set(comp)
                nontrivial = len(comp) > 1 or comp[0] in edges(comp[0])
                if not nontrivial:
                    b = comp[0]
                    out_lines.append('%sB%d: ;' % (ind, b))
                    for l in code[b]:
                        l = re.sub(r'@@J(\d+):(\d+)@@', lambda m: jumpmap.get(int(m.group(2)), 'goto B%s;' % m.group(2)), l)
                        out_lines.append(ind + '  ' + l)
                    continue
                entries = [b for b in comp if any((b in succ[p]) for p in code if p not in cs) or b == entry]
                # restrict to preds within the current region or any outside: conservative
                if len(entries) == 1:
                    h = entries[0]; self.loop_ctr += 1; k = self.loop_ctr; self.stats['loops'] += 1
                    out_lines.append('%sB%d: ;' % (ind, h) if False else '%sE%d: ;' % (ind, k))
                    out_lines.append('%sfor (;;) { /* loop %d header B%d size %d */' % (ind, k, h, len(comp)))
                    jm = dict(jumpmap); jm[h] = 'goto C%d;' % k
                    # external jumps to h must land before the loop: alias label
                    emit_region_loop(comp, h, jm, ind + '  ', k)
                    out_lines.append('%s  C%d: ;' % (ind, k))
                    out_lines.append('%s}' % ind)
                else:
                    self.loop_ctr += 1; k = self.loop_ctr; self.stats['dispatch'] += 1
                    out_lines.append('%sD%d: for (;;) { switch (pcs%d) { /* irreducible SCC size %d */' % (ind, k, k, len(comp)))
                    self.decls['pcs%d' % k] = 'int'
                    jm = dict(jumpmap)
                    for b in comp: jm[b] = 'pcs%d = %d; goto K%d;' % (k, b, k)
                    for b in comp:
                        out_lines.append('%s  case %d: {' % (ind, b))
                        for l in code[b]:
                            l = re.sub(r'@@J(\d+):(\d+)@@', lambda m: jm.get(int(m.group(2)), 'goto B%s;' % m.group(2)), l)
                            out_lines.append(ind + '    ' + l)
                        out_lines.append('%s  }' % ind)
                    out_lines.append('%s  default: __CPROVER_assert(0, "bad pcs"); }' % ind)
                    out_lines.append('%s  K%d: ; }' % (ind, k))
                    self.dispatch_entries.setdefault(k, comp)

        def emit_region_loop(comp, h, jm, ind, k):
            # header block first, then the rest of the SCC with edges to h cut
            emit_region(comp, h, jm, ind)

        self.dispatch_entries = {}
        emit_region(list(code.keys()), 0, {}, '  ')
        text = '\n'.join(out_lines)
        # jumps from outside into a loop header h: 'goto B<h>' must target loop entry label E<k>; header block label B<h> is inside loop.
        # Entering a for(;;) by goto to its first statement label is fine in C: B<h> is first in body. Keep as is.
        # jumps into dispatch SCC from outside: rewrite 'goto B<b>;' for b in comp -> set pcs and goto D
        for k, comp in self.dispatch_entries.items():
            for b in comp:
                text = re.sub(r'goto B%d;' % b, 'pcs%d = %d; goto D%d;' % (k, b, k), text)
        ps = ', '.join('%s %s' % (ctype(t), cname(nm)) for t, nm in self.params)
        out = ['%s ir_%s(%s) {' % (ctype(self.ret), self.name, ps or 'void')]
        for nm, t in self.decls.items():
            if isinstance(t, tuple): out.append('  uint64_t %s[%d];' % (nm, (t[1] + 7) // 8))
        pn = [cname(p[1]) for p in self.params]
        for nm, t in self.decls.items():
            if not isinstance(t, tuple) and nm not in pn:
                out.append('  %s %s = 0;' % (t, nm))
        out.append('  int prev = -1;')
        out.append(text)
        out.append('}')
        return '\n'.join(out)

def translate(path, only=None, mode='arena'):
    text = open(path).read()
    mod = Mod(text); mod.externs = {}
    res = ['#include <stdint.h>', '#include <stddef.h>',
      'static inline uint32_t irx_fshl_i32(uint32_t a, uint32_t b, uint32_t c){ c &= 31; return c ? (a << c) | (b >> (32 - c)) : a; }',
      'static inline uint32_t irx_fshr_i32(uint32_t a, uint32_t b, uint32_t c){ c &= 31; return c ? (a << (32 - c)) | (b >> c) : b; }',
      'static inline uint64_t irx_fshl_i64(uint64_t a, uint64_t b, uint64_t c){ c &= 63; return c ? (a << c) | (b >> (64 - c)) : a; }',
      'static inline uint64_t irx_fshr_i64(uint64_t a, uint64_t b, uint64_t c){ c &= 63; return c ? (a << (64 - c)) | (b >> c) : b; }']
    # globals (constant byte arrays only)
    for m in re.finditer(r'^@([\w.]+) = (?:[\w_]+ )*?(?:constant|global) \[(\d+) x i8\] c"(.*)"', text, re.M):
        raw = m.group(3); bs = []; i = 0
        while i < len(raw):
            if raw[i] == '\\': bs.append(int(raw[i + 1:i + 3], 16)); i += 3
            else: bs.append(ord(raw[i])); i += 1
        res.append('static const uint8_t g_%s[%s] = {%s};' % (re.sub(r'[^\w]', '_', m.group(1)), m.group(2), ','.join(map(str, bs))))
    fns = []
    lines = text.split('\n'); i = 0
    while i < len(lines):
        if lines[i].startswith('define '):
            hdr = lines[i]; body = []; i += 1
            while lines[i] != '}': body.append(lines[i]); i += 1
            fns.append((hdr, body))
        i += 1
    names = set(re.match(r'define.*?@([\w.]+)\(', h).group(1) for h, _ in fns)
    F = [Fn(mod, h, b, names) for h, b in fns]
    if only: F = [f for f in F if f.name in only]
    import os
    bodies = [f.emit_flat() for f in F]
    for f in F:
        ps = ', '.join(ctype(t) for t, n in f.params)
        res.append('%s ir_%s(%s);' % (ctype(f.ret), f.name, ps or 'void'))
    for fn, (rty, atys) in mod.externs.items():
        pass  # rely on libc prototypes supplied by harness
    return '\n'.join(res) + '\n' + '\n\n'.join(bodies) + '\n'

if __name__ == '__main__':
    only = set(sys.argv[3:]) or None
    open(sys.argv[2], 'w').write(translate(sys.argv[1], only))
