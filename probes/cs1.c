#include <assert.h>
#include <stdlib.h>
#include <string.h>
#include <stdbool.h>
#include "libMultiMarkdown.h"
#include "token.h"
#include "writer.h"
#ifndef N
#define N 5
#endif
char nondet_char(void); size_t nondet_size_t(void);
static int is_ws(char c){ return c==' '||c=='\t'||c=='\n'||c=='\r'; }
int main(void){
  char in[N+1]; size_t len=nondet_size_t(); __CPROVER_assume(len<=N);
  for(size_t i=0;i<N;i++){ in[i]=nondet_char(); if(i<len) __CPROVER_assume(in[i]!=0 && in[i]!='\\'); } in[len]=0;
  /* reference: collapse ws runs, trim */
  char ref[N+1]; size_t r=0; int pend=0;
  for(size_t i=0;i<N;i++){ if(i<len){ if(is_ws(in[i])) { if(r>0) pend=1; } else { if(pend){ ref[r++]=' '; pend=0; } ref[r++]=in[i]; } } }
  ref[r]=0;
  char *out = clean_string(in, false, false);
  assert(out!=0);
  assert(strlen(out)==r);
  for(size_t i=0;i<N;i++) if(i<r) assert(out[i]==ref[i]);
#ifdef WITNESS
  assert(0);
#endif
  return 0;
}
