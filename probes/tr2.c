#include <assert.h>
#include <stdlib.h>
#include <string.h>
#include "libMultiMarkdown.h"
#include "d_string.h"
#include "mmd.h"
#include "transclude.h"
#include "stack.h"
#ifndef F
#define F 2
#endif
int nondet_int(void);
char *strncpy(char *d, const char *s, size_t n){ size_t i=0; for(; i<n && s[i]; i++) d[i]=s[i]; for(; i<n; i++) d[i]=0; return d; }
int strcmp(const char *a, const char *b){ size_t i=0; while(a[i] && a[i]==b[i]) i++; return (unsigned char)a[i]-(unsigned char)b[i]; }
int strncmp(const char *a, const char *b, size_t n){ for(size_t i=0;i<n;i++){ if(a[i]!=b[i]||!a[i]) return (unsigned char)a[i]-(unsigned char)b[i]; } return 0; }
char *strstr(const char *h, const char *n){ for(size_t i=0; h[i]; i++){ size_t j=0; while(n[j] && h[i+j]==n[j]) j++; if(!n[j]) return (char*)h+i; } return n[0]? 0 : (char*)h; }
static mmd_engine dummy;
mmd_engine * mmd_engine_create_with_dstring(DString * d, unsigned long ext){ return &dummy; }
bool mmd_engine_has_metadata(mmd_engine * e, size_t * end){ if(end) *end=0; return false; }
char * mmd_engine_metavalue_for_key(mmd_engine * e, const char * key){ return 0; }
void mmd_engine_free(mmd_engine * e, bool f){}
/* path helpers reduced to the identity on a flat name space */
char * path_from_dir_base(const char * dir, const char * base){ char *r=malloc(1); r[0]=0; return r; }
void split_path_file(char ** dir, char ** file, const char * path){ *dir=malloc(1); (*dir)[0]=0; *file=malloc(1); (*file)[0]=0; }
bool is_separator(char c){ return c=='/'; }
void add_trailing_sep(DString * path){ }
static int target[F]; static int reads=0;
DString * scan_file(const char * fname){
  reads++;
  char c=fname[0];
  if(c<'a'||c>='a'+F||fname[1]) return 0;
  int t=target[c-'a'];
  char buf[8]; int k=0; buf[k++]='x';
  if(t>=0){ buf[k++]='{'; buf[k++]='{'; buf[k++]='a'+t; buf[k++]='}'; buf[k++]='}'; }
  buf[k]=0; return d_string_new(buf);
}
int main(void){
  for(int i=0;i<F;i++){ target[i]=nondet_int(); __CPROVER_assume(target[i]>=-1 && target[i]<=F); }
  DString *src = d_string_new("{{a}}");
  mmd_transclude_source(src, "", "m", FORMAT_HTML, NULL, NULL);
  assert(reads <= F+1);
  assert(src->currentStringLength <= 1 + F + 5);
#ifdef WITNESS
  assert(0);
#endif
  return 0;
}
