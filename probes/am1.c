#include <assert.h>
#include <stdlib.h>
#include <string.h>
#include "libMultiMarkdown.h"
#include "mmd.h"
#include "d_string.h"
#include "token.h"
#ifndef N
#define N 5
#endif
char nondet_char(void); size_t nondet_size_t(void); int nondet_int(void); unsigned long nondet_ul(void);
void mmd_assign_ambidextrous_tokens_in_block(mmd_engine * e, token * block, size_t start_offset);
int main(void){
  size_t len = nondet_size_t(); __CPROVER_assume(len>=1 && len<=N);
  char *buf = malloc(len+1); __CPROVER_assume(buf!=0);
  for (size_t i=0;i<N;i++) { if (i<len) { buf[i]=nondet_char(); __CPROVER_assume(buf[i]!=0);} }
  buf[len]=0;
  DString ds; ds.str=buf; ds.currentStringLength=len; ds.currentStringBufferSize=len+1;
  mmd_engine e; e.dstr=&ds; e.extensions = nondet_ul() & 0x1ffff;
  static const unsigned short kinds[] = {STAR, UL, BACKTICK, QUOTE_SINGLE, QUOTE_DOUBLE, DASH_N, MATH_DOLLAR_SINGLE, MATH_DOLLAR_DOUBLE, SUPERSCRIPT, SUBSCRIPT};
  int k = nondet_int(); __CPROVER_assume(k>=0 && k<10);
  size_t off = nondet_size_t(); size_t tl = nondet_size_t();
  __CPROVER_assume(off < len && tl>=1 && tl<=2 && off+tl<=len);
  /* the token's bytes are consistent with its type for the single-char kinds */
  if (kinds[k]==STAR) __CPROVER_assume(buf[off]=='*' && tl==1);
  if (kinds[k]==UL) __CPROVER_assume(buf[off]=='_' && tl==1);
  if (kinds[k]==QUOTE_SINGLE) __CPROVER_assume(buf[off]=='\'' && tl==1);
  if (kinds[k]==QUOTE_DOUBLE) __CPROVER_assume(buf[off]=='"' && tl==1);
  token *block = token_new(BLOCK_PARA, 0, len);
  token *t = token_new(kinds[k], off, tl);
  token_append_child(block, t);
  mmd_assign_ambidextrous_tokens_in_block(&e, block, 0);
#ifdef WITNESS
  assert(0);
#endif
  return 0;
}
