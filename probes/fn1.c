#include <assert.h>
#include <stdarg.h>
#include <stdlib.h>
#include <stdio.h>
#include <string.h>
#include "libMultiMarkdown.h"
#include "mmd.h"
#include "d_string.h"
#include "token.h"
#include "stack.h"
#include "writer.h"
#include "parser.h"
#include "html.h"
int verif_fprintf(FILE *f, const char *fmt, ...){ return 0; }
void verif_exit(int c){ __CPROVER_assume(0); }
/* printf log: for each call remember which anchor kinds it carries and the ints spliced in */
static int href_fn=-1, id_fnref=-1, li_id=-1, href_fnref=-1;
static int has(const char *f, const char *pat){ for(int i=0; f[i]; i++){ int j=0; while(pat[j] && f[i+j]==pat[j]) j++; if(!pat[j]) return 1; } return 0; }
void d_string_append_printf(DString * d, const char * fmt, ...){
  va_list ap; va_start(ap, fmt);
  if (has(fmt, "href=\"#fn:%d\" id=\"fnref:%d\"")) { href_fn = va_arg(ap,int); id_fnref = va_arg(ap,int); }
  else if (has(fmt, "href=\"#fn:%d\"")) { href_fn = va_arg(ap,int); }
  else if (has(fmt, "<li id=\"fn:%d\"")) { li_id = va_arg(ap,int); }
  else if (has(fmt, "href=\"#fnref:%d\"")) { href_fnref = va_arg(ap,int); }
  va_end(ap);
}
/* libc PRNG as an uninterpreted function of the seed */
static unsigned cur_seed; int UF[32800];
void srand(unsigned s){ cur_seed = s; }
int rand(void){ __CPROVER_assume(cur_seed < 32800); int r = UF[cur_seed]; __CPROVER_assume(r>=0); return r; }
/* tree walkers: record only */
void mmd_export_token_tree_html(DString * out, const char * source, token * t, scratch_pad * scratch){}
void mmd_export_token_tree_html_raw(DString * out, const char * source, token * t, scratch_pad * scratch){}
void mmd_export_token_tree_html_math(DString * out, const char * source, token * t, scratch_pad * scratch){}
/* writer.c contract stub: first use of a new note -> becomes used note number size+1 */
static footnote the_note;
void footnote_from_bracket(const char * source, scratch_pad * scratch, token * t, short * num){ stack_push(scratch->used_footnotes, &the_note); *num = scratch->used_footnotes->size; }
void pad(DString * d, short num, scratch_pad * scratch){}
unsigned long nondet_ul(void); int nondet_int(void);
int main(void){
  static char src[8] = "[^a]\n";
  scratch_pad *sp = calloc(1,sizeof(scratch_pad)); __CPROVER_assume(sp!=0);
  sp->extensions = (nondet_ul() & (EXT_RANDOM_FOOT|EXT_SMART)) | EXT_NOTES; sp->padded = 2; sp->close_para=1; sp->base_header_level=1; sp->output_format=FORMAT_HTML;
  sp->random_seed_base = nondet_int(); __CPROVER_assume(sp->random_seed_base>=0 && sp->random_seed_base<32000);
  sp->used_footnotes = stack_new(0); sp->header_stack = stack_new(0);
  the_note.content = token_new(BLOCK_PARA, 0, 0);
  DString *out = d_string_new("");
  /* 1. the call */
  token *call = token_new(PAIR_BRACKET_FOOTNOTE, 0, 4);
  token_append_child(call, token_new(BRACKET_FOOTNOTE_LEFT,0,2)); token_append_child(call, token_new(TEXT_PLAIN,2,1)); token_append_child(call, token_new(BRACKET_RIGHT,3,1));
  mmd_export_token_html(out, src, call, sp);
  /* 2. the list of notes */
  mmd_export_footnote_list_html(out, src, sp);
  /* 3. the last paragraph of note 1 */
  sp->footnote_being_printed = 1; sp->footnote_para_counter = 1;
  token *para = token_new(BLOCK_PARA, 0, 4); token_append_child(para, token_new(TEXT_PLAIN,0,1));
  mmd_export_token_html(out, src, para, sp);
  assert(href_fn!=-1 && id_fnref!=-1 && li_id!=-1 && href_fnref!=-1);   /* all four anchors were produced */
  assert(id_fnref == href_fnref);      /* back-link returns to the call */
  assert(href_fn == li_id);            /* call points at the entry */
#ifdef WITNESS
  assert(0);
#endif
  return 0;
}
