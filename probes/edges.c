#include "parser.c"
#include <stdio.h>
int main(void){
  yyParser p;
  /* shift edges */
  for(int s=0;s<YYNSTATE;s++){
    for(int t=0;t<YYNOCODE;t++){
      unsigned a;
      if (t < 40) { p.yytos=&p.yystack[1]; p.yystack[1].stateno=s; if (s>YY_SHIFT_COUNT) continue; a = yy_find_shift_action(&p,(YYCODETYPE)t); }
      else { if (s>YY_REDUCE_COUNT) continue; int i = yy_reduce_ofst[s]; if (i==YY_REDUCE_USE_DFLT) continue; i += t; if (i<0||i>=YY_ACTTAB_COUNT||yy_lookahead[i]!=t) continue; a = yy_action[i]; }
      if (a < YYNSTATE) printf("%d %d %u\n", s, t, a);
    }
  }
  return 0;
}
