#include <assert.h>
#include <stdlib.h>
#include <string.h>
#include "libMultiMarkdown.h"
#include "mmd.h"
#include "d_string.h"
#include "token.h"
#define N 3
char nondet_char(void); size_t nondet_size_t(void); short nondet_short(void); unsigned long nondet_ul(void);
/* recorder stubs */
static char rec_text[N+1]; static unsigned long rec_ext; static short rec_lang, rec_fmt; static int n_parse, n_export;
void mmd_engine_parse_string(mmd_engine * e){ n_parse++; for(int i=0;i<=N;i++) rec_text[i] = (i<=e->dstr->currentStringLength)? e->dstr->str[i] : 0; rec_ext=e->extensions; rec_lang=e->language; }
void mmd_engine_export_token_tree(DString * out, mmd_engine * e, short format){ n_export++; rec_fmt=format; d_string_append_c(out,'#'); }
int main(void){
  char src[N+1]; size_t len=nondet_size_t(); __CPROVER_assume(len<=N);
  for(size_t i=0;i<N;i++){ src[i]=nondet_char(); if(i<len) __CPROVER_assume(src[i]!=0);} src[len]=0;
  unsigned long ext = nondet_ul() & 0x1ffff; short fmt = nondet_short(); __CPROVER_assume(fmt>=0 && fmt<=12); short lang=nondet_short(); __CPROVER_assume(lang>=0&&lang<=6);
  char *r1 = mmd_string_convert(src, ext, fmt, lang);
  char t1[N+1]; memcpy(t1,rec_text,N+1); unsigned long e1=rec_ext; short l1=rec_lang, f1=rec_fmt;
  assert(n_parse==1 && n_export==1);
  DString *d = d_string_new(src);
  char *r2 = mmd_d_string_convert(d, ext, fmt, lang);
  assert(n_parse==2 && n_export==2);
  assert(memcmp(t1,rec_text,N+1)==0 && e1==rec_ext && l1==rec_lang && f1==rec_fmt);
  assert(strcmp(r1,r2)==0);
  assert(e1==ext && f1==fmt);
  assert(strcmp(d->str, src)==0);
  free(r1); free(r2); d_string_free(d,true);
#ifdef WITNESS
  assert(0);
#endif
  return 0;
}
