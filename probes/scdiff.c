#include <stdio.h>
#include <string.h>
#include <stdlib.h>
#include "scanners.h"
#include "ir_native.h"
#include "scanners_ir.c"
typedef size_t (*F)(const char*); typedef uint64_t (*G)(uint64_t);
#define P(n) {#n, n, ir_##n}
struct {const char*nm; F f; G g;} T[] = { P(scan_spnl),P(scan_key),P(scan_value),P(scan_attr),P(scan_attributes),P(scan_email),P(scan_url),P(scan_ref_abbreviation),P(scan_ref_citation),P(scan_ref_foot),P(scan_ref_glossary),P(scan_ref_link_no_attributes),P(scan_ref_link),P(scan_html),P(scan_html_comment),P(scan_html_block),P(scan_html_line),P(scan_fence_start),P(scan_fence_end),P(scan_meta_line),P(scan_empty_meta_line),P(scan_meta_key),P(scan_definition),P(scan_table_separator),P(scan_alignment_string),P(scan_destination),P(scan_title),P(scan_setext),P(scan_atx)};
int main(int argc,char**argv){ long n=0,bad=0,nz=0;
  for(int a=1;a<argc;a++){ FILE*f=fopen(argv[a],"rb"); if(!f) continue; static char buf[1<<20]; size_t len=fread(buf,1,sizeof buf-1,f); buf[len]=0; fclose(f);
    for(size_t i=0;i<len;i++) for(unsigned k=0;k<sizeof T/sizeof T[0];k++){ size_t r1=T[k].f(buf+i); size_t r2=T[k].g((uint64_t)(uintptr_t)(buf+i)); n++; nz+=r1!=0; if(r1!=r2){bad++; if(bad<5)printf("DIFF %s %s@%zu %zu %zu\n",T[k].nm,argv[a],i,r1,r2);} } }
  printf("calls=%ld nonzero=%ld bad=%ld\n",n,nz,bad); return bad!=0; }
