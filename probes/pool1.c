#include <assert.h>
#include <stdlib.h>
#include <stdint.h>
#include "object_pool.h"
#include "token.h"
size_t nondet_size_t(void); int nondet_int(void);
#define NOBJ 1024
int main(void){
  /* arbitrary pool satisfying POOLINV */
  pool *p = malloc(sizeof(pool)); __CPROVER_assume(p!=0);
  p->object_size = sizeof(token);
  p->allocated = stack_new(1024); __CPROVER_assume(p->allocated!=0);
  int drained = nondet_int();
  char *slab = 0;
  if (drained) { p->next = 0; p->last = 0; }
  else {
    slab = malloc(sizeof(token)*NOBJ); __CPROVER_assume(slab!=0);
    stack_push(p->allocated, slab);
    size_t k = nondet_size_t(); __CPROVER_assume(k<=NOBJ);
    p->next = slab + k*sizeof(token); p->last = slab + NOBJ*sizeof(token);
  }
  void *old_next = p->next;
  token *t = pool_allocate_object(p);
  assert(t!=0);
  /* the object is wholly usable */
  t->type = 1; t->mate = 0; t->tail = t;
  /* inside newest slab */
  char *top = stack_peek(p->allocated);
  assert((char*)t >= top && (char*)t + sizeof(token) <= top + sizeof(token)*NOBJ);
  assert((char*)p->next == (char*)t + sizeof(token));
  assert((char*)p->next <= (char*)p->last);
  assert((char*)p->last == top + sizeof(token)*NOBJ);
  if (!drained && old_next != p->last - 0 && (char*)old_next < slab + NOBJ*sizeof(token)) assert((char*)t == (char*)old_next);
#ifdef WITNESS
  assert(0);
#endif
  return 0;
}
