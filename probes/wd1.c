#include <assert.h>
#include <stdlib.h>
#include <stdio.h>
#include <string.h>
#include "libMultiMarkdown.h"
#include "mmd.h"
#include "d_string.h"
#include "token.h"
#include "writer.h"
#include "parser.h"
#include "html.h"
int verif_unknown = 0, verif_exit_called = 0;
int verif_fprintf(FILE *f, const char *fmt, ...){ if (fmt[0]==85 && fmt[1]==110) { __CPROVER_assert(0, "Unknown token type escape reached"); } return 0; }
void verif_exit(int c){ __CPROVER_assert(0, "exit() reached from a writer"); __CPROVER_assume(0); }
/* callees of the exporter that walk children: record only */
int n_tree=0, n_raw=0;
void mmd_export_token_tree_html(DString * out, const char * source, token * t, scratch_pad * scratch){ n_tree++; }
void mmd_export_token_tree_html_raw(DString * out, const char * source, token * t, scratch_pad * scratch){ n_raw++; }
void mmd_export_token_tree_html_math(DString * out, const char * source, token * t, scratch_pad * scratch){ n_raw++; }
unsigned short nondet_us(void);
int main(void){
  static char src[8] = "ab\ncd\n";
  scratch_pad *sp = malloc(sizeof(scratch_pad)); __CPROVER_assume(sp!=0);
  sp->extensions = 0; sp->padded = 2; sp->skip_token = 0; sp->recurse_depth = 0; sp->footnote_being_printed=0; sp->citation_being_printed=0; sp->glossary_being_printed=0; sp->close_para=1; sp->list_is_tight=0; sp->base_header_level=1; sp->output_format=FORMAT_HTML;
  sp->header_stack = stack_new(0);
  unsigned short ty = nondet_us();
  /* all block-level types a parser action can build */
  __CPROVER_assume(ty>=BLOCK_BLOCKQUOTE && ty<=BLOCK_TOC && ty!=BLOCK_HEADING);
#ifdef EXCLUDE_KNOWN
  __CPROVER_assume(ty!=BLOCK_DEF_ABBREVIATION && ty!=BLOCK_DEF_LINK);
#endif
  token *blk = token_new(ty, 0, 6);
  token *c1 = token_new(TEXT_PLAIN, 0, 2); token *c2 = token_new(TEXT_NL, 2, 1); token *c3 = token_new(TEXT_PLAIN, 3, 2);
  token_append_child(blk, c1); token_append_child(blk, c2); token_append_child(blk, c3);
  token_append_child(c1, token_new(TEXT_PLAIN,0,1));
  DString *out = d_string_new("");
  mmd_export_token_html(out, src, blk, sp);
  assert(verif_unknown==0);
#ifdef WITNESS
  assert(0);
#endif
  return 0;
}
