#include <assert.h>
#include <string.h>
#include "d_string.c"
size_t nondet_size_t(void); char nondet_char(void); int nondet_int(void);
#define M 5
#define CAP 24
/* ideal model */
static char model[CAP]; static size_t mlen;
static void m_insert(size_t pos, const char *s, size_t n){ if(pos>mlen) pos=mlen; for(size_t i=mlen;i>pos;i--) model[i-1+n]=model[i-1]; for(size_t i=0;i<n;i++) model[pos+i]=s[i]; mlen+=n; model[mlen]=0; }
static void m_erase(size_t pos, size_t len){ if(pos>mlen||len==0) return; size_t e = (len > mlen-pos)? mlen : pos+len; size_t j=pos; for(size_t i=e;i<mlen;i++) model[j++]=model[i]; mlen=j; model[mlen]=0; }
static void check(DString *d){ assert(d->currentStringLength==mlen); assert(d->str[mlen]==0); assert(d->currentStringBufferSize>mlen); for(size_t i=0;i<CAP;i++) if(i<mlen) assert(d->str[i]==model[i]); }
static void argstr(char *a, size_t *n){ *n=nondet_size_t(); __CPROVER_assume(*n<=3); for(size_t i=0;i<3;i++){ a[i]=nondet_char(); if(i<*n) __CPROVER_assume(a[i]!=0);} a[*n]=0; }
int main(void){
  char init[M+1]; size_t n0 = nondet_size_t(); __CPROVER_assume(n0<=M);
  for(size_t i=0;i<M;i++){ init[i]=nondet_char(); if(i<n0) __CPROVER_assume(init[i]!=0);} init[n0]=0;
  DString *d = d_string_new(init); __CPROVER_assume(d!=0);
  mlen=n0; for(size_t i=0;i<=M;i++) model[i]=init[i];
  for(int h=0;h<H;h++){
    int op=nondet_int(); char a[4]; size_t an; size_t pos=nondet_size_t(), len=nondet_size_t();
#ifdef NOWRAP
    __CPROVER_assume(len==(size_t)-1 || len<=64);
#endif
    if(op==0){ argstr(a,&an); d_string_append(d,a); m_insert(mlen,a,an); }
    else if(op==1){ argstr(a,&an); d_string_insert(d,pos,a); m_insert(pos,a,an); }
    else if(op==2){ d_string_erase(d,pos,len); m_erase(pos,len); }
    else if(op==3){ char c=nondet_char(); d_string_insert_c(d,pos,c); if(c) m_insert(pos,&c,1); }
    else if(op==4){ argstr(a,&an); d_string_prepend(d,a); m_insert(0,a,an); }
    else { argstr(a,&an); d_string_append_c_array(d,a,an); m_insert(mlen,a,an); }
    check(d);
  }
#ifdef WITNESS
  assert(0);
#endif
  return 0;
}
