#include <assert.h>
#include <stdlib.h>
#include "libMultiMarkdown.h"
#include "token.h"
#include "writer.h"
#include "scanners.h"
#include "parser.h"
#ifndef C
#define C 52
#endif
int nondet_int(void); size_t nondet_size_t(void);
size_t scan_alignment_string(const char * c){ size_t r = nondet_size_t(); __CPROVER_assume(r<16); return r; }
int main(void){
  static char src[4*C+8];
  scratch_pad *sp = malloc(sizeof(scratch_pad)); __CPROVER_assume(sp!=0);
  int n = nondet_int(); __CPROVER_assume(n>=0 && n<=C);
  token *sep = token_new(LINE_TABLE_SEPARATOR, 0, 0);
  static token *cell[C+1];
  for(int i=0;i<=C;i++){ cell[i]=token_new(TABLE_CELL, 2*i, 1); token_append_child(sep, cell[i]); }
  /* cut the chain after n cells (n symbolic) */
  if (n==0) sep->child = 0; else cell[n-1]->next = 0;
  token *hdr = token_new(BLOCK_TABLE_HEADER, 0, 0); token_append_child(hdr, sep);
  token *table = token_new(BLOCK_TABLE, 0, 0); token_append_child(table, hdr);
  read_table_column_alignments(src, table, sp);
  assert(sp->table_column_count <= kMaxTableColumns);
#ifdef WITNESS
  assert(0);
#endif
  return 0;
}
