#include <assert.h>
#include <stdlib.h>
#include <string.h>
#include "libMultiMarkdown.h"
#include "mmd.h"
#include "d_string.h"
#include "token.h"
#include "stack.h"
#include "writer.h"
void process_metadata_stack(mmd_engine * e, scratch_pad * scratch);
int nondet_int(void); unsigned long nondet_ul(void); char nondet_char(void); short nondet_short(void);
static const char *KEYS[] = {"baseheaderlevel","epubheaderlevel","htmlheaderlevel","xhtmlheaderlevel","latexheaderlevel","odfheaderlevel","language","latexmode","quoteslanguage","bibtex","title","zz"};
#define NK 12
#define CONTROL(k) ((k)<=8)     /* keys that must not force a complete document */
int main(void){
  mmd_engine e; e.metadata_stack = stack_new(0);
  int n = nondet_int(); __CPROVER_assume(n>=0 && n<=NMAX);
  int k[2]; meta m[2]; char val[2][3];
  for (int i=0;i<2;i++){ k[i]=nondet_int(); __CPROVER_assume(k[i]>=0 && k[i]<NK); val[i][0]=nondet_char(); val[i][1]=nondet_char(); val[i][2]=0;
    m[i].key=(char*)KEYS[k[i]]; m[i].value=val[i]; m[i].start=0; if (i<n) stack_push(e.metadata_stack, &m[i]); }
  scratch_pad *sp = calloc(1,sizeof(scratch_pad)); __CPROVER_assume(sp!=0);
  unsigned long ext = nondet_ul() & 0x1ffff; sp->extensions = ext; sp->output_format = nondet_short(); __CPROVER_assume(sp->output_format>=0 && sp->output_format<=12);
  sp->base_header_level = 1; short fmt0 = sp->output_format;
  scratch_pad before = *sp;
  process_metadata_stack(&e, sp);
  int off = (ext & EXT_NO_METADATA) || (ext & EXT_COMPATIBILITY);
  int other = 0; for (int i=0;i<2;i++) if (i<n && !CONTROL(k[i])) other = 1;
  unsigned long expect = ext; if (!off && other && !(ext & EXT_SNIPPET)) expect |= EXT_COMPLETE;
  assert(sp->extensions == expect);
  /* frame: nothing else in the scratch pad moves */
  assert(sp->padded==before.padded && sp->skip_token==before.skip_token && sp->label_counter==before.label_counter && sp->random_seed_base==before.random_seed_base);
  if (off) assert(sp->base_header_level==1 && sp->output_format==fmt0);
#ifdef WITNESS
  assert(0);
#endif
  return 0;
}
