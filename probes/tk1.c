#include <assert.h>
#include <stdlib.h>
#include "token.h"
#ifndef K
#define K 4
#endif
size_t nondet_size_t(void); unsigned short nondet_us(void); int nondet_int(void);
/* build a well-formed sibling chain of n tokens, contiguous spans */
static token * chain[K];
static int wf_chain(token *head, token *parent_or_null){
  /* head->prev==NULL; next/prev consistent; tail correct; starts nondecreasing */
  if(!head) return 1;
  if(head->prev) return 0;
  token *t=head, *last=head; int c=0;
  while(t && c<=K+2){ if(t->next){ if(t->next->prev!=t) return 0; if(t->next->start < t->start) return 0; } last=t; t=t->next; c++; }
  if(t) return 0;
  if(head->tail!=last) return 0;
  return 1;
}
int main(void){
  int n = nondet_int(); __CPROVER_assume(n>=1 && n<=K);
  size_t pos = nondet_size_t(); __CPROVER_assume(pos<100);
  token *head=0;
  for(int i=0;i<K;i++){ if(i<n){ size_t len=nondet_size_t(); __CPROVER_assume(len<4); token*t=token_new(nondet_us(),pos,len); __CPROVER_assume(t!=0); pos+=len; chain[i]=t; if(!head) head=t; else token_chain_append(head,t);} }
  assert(wf_chain(head,0));
  int a = nondet_int(), b = nondet_int(); __CPROVER_assume(0<=a && a<=b && b<n);
  int op = OP;
  if(op==0){ /* prune_graft [a..b] */
    token *first=chain[a], *last=chain[b];
    token *c = token_prune_graft(first,last,77);
    assert(c==first); assert(c->type==77);
    assert(wf_chain(head,0));
    assert(wf_chain(c->child,c));
    assert(c->start + c->len == chain[b]->start + chain[b]->len || a==b);
  } else if(op==1 && a>0){ /* prune (not the head) */
    tokens_prune(chain[a],chain[b]);
    assert(wf_chain(head,0));
  } else if(op==2 && a>0){
    token_pop_link_from_chain(chain[a]);
    assert(wf_chain(head,0)); assert(chain[a]->next==0 && chain[a]->prev==0 && chain[a]->tail==chain[a]);
  }
#ifdef WITNESS
  assert(0);
#endif
  return 0;
}
