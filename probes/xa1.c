#include <assert.h>
#include <stdlib.h>
#include <string.h>
#include "d_string.h"
#include "xml.h"
#ifndef N
#define N 6
#endif
char nondet_char(void); size_t nondet_size_t(void);
int main(void){
  size_t len = nondet_size_t(); __CPROVER_assume(len<=N);
  char *buf = malloc(len+1); __CPROVER_assume(buf!=0);
  for (size_t i=0;i<N;i++) { if (i<len) { buf[i]=nondet_char(); __CPROVER_assume(buf[i]!=0);} }
  buf[len]=0;
  char *v = xml_extract_named_attribute(buf, 0, "text");
  if (v) { assert(strlen(v) <= len); free(v); }
#ifdef WITNESS
  assert(0);
#endif
  return 0;
}
