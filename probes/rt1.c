#include <assert.h>
#include <string.h>
#include <stdlib.h>
#include "d_string.h"
#include "libMultiMarkdown.h"
#include "token.h"
#include "writer.h"
void mmd_print_source_opml(DString * out, const char * source, size_t start, size_t len);
void print_xml_as_text(DString * out, const char * source, size_t start, size_t len);
#ifndef N
#define N 3
#endif
char nondet_char(void); size_t nondet_size_t(void);
int main(void){
  char src[N+1];
  size_t len = nondet_size_t(); __CPROVER_assume(len<=N);
  for (size_t i=0;i<N;i++){ src[i]=nondet_char(); if(i<len) __CPROVER_assume(src[i]!=0); }
  src[len]=0;
  DString *enc = d_string_new(""); __CPROVER_assume(enc!=0);
  mmd_print_source_opml(enc, src, 0, len);
  /* escaped text contains no XML-reserved chars */
  for (size_t i=0;i<6*N;i++) if (i<enc->currentStringLength) { char c=enc->str[i]; assert(c!='<' && c!='>' && c!='"' && c!='\''); }
  DString *dec = d_string_new(""); __CPROVER_assume(dec!=0);
  print_xml_as_text(dec, enc->str, 0, enc->currentStringLength);
  assert(dec->currentStringLength==len);
  for (size_t i=0;i<N;i++) if(i<len) assert(dec->str[i]==src[i]);
#ifdef WITNESS
  assert(0);
#endif
  return 0;
}
