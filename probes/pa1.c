#include "parser.c"
int nondet_int(void);
int main(void){
  yyParser p; 
  int s = nondet_int(); __CPROVER_assume(s>=0 && s<=YY_SHIFT_COUNT);
  int t = nondet_int(); __CPROVER_assume(t>=0 && t<=39 && t!=11 && t!=30 && t!=5); __CPROVER_assume(!(s==0 && t==0));
  p.yytos = &p.yystack[1]; p.yystack[1].stateno = (YYACTIONTYPE)s;
  unsigned int a = yy_find_shift_action(&p, (YYCODETYPE)t);
  __CPROVER_assert(a != YY_ERROR_ACTION, "no syntax-error entry for any (state, line token)");
  __CPROVER_assert(a < YY_NO_ACTION, "action in range");
  return 0;
}
