#include <assert.h>
#include <stdlib.h>
#include "token.h"
#ifndef H
#define H 6
#endif
int nondet_int(void);
int main(void){
  int count = 0; int freed = 1;   /* no pool yet */
  token *rem[H]; int nrem = 0;
  for (int h=0; h<H; h++) {
    int op = nondet_int();
    if (op==0) { token_pool_init(); count++; freed = 0; }
    else if (op==1 && count>0) { token *t = token_new(7, h, 1); assert(t!=0); t->len = 100+h; for(int i=0;i<H;i++) if(i<nrem) assert(rem[i]!=t); rem[nrem++] = t; }
    else if (op==2 && count>0) { token_pool_drain(); count--; if (count==0) nrem = 0; }
    else if (op==3 && count==0 && !freed) { token_pool_free(); freed = 1; }
    /* every remembered token is still alive and intact */
    for (int i=0;i<H;i++) if (i<nrem) { assert(rem[i]->type==7); assert(rem[i]->len>=100); }
  }
#ifdef WITNESS
  assert(0);
#endif
  return 0;
}
