#include <assert.h>
#include <stdlib.h>
#include "token.c"
int nondet_int(void); short nondet_short(void); size_t nondet_size_t(void);
#define NOBJ 4
int main(void){
  /* arbitrary protocol state */
  short c = nondet_short(); __CPROVER_assume(c>=0 && c<100);
  int have_pool = nondet_int();
  __CPROVER_assume(c==0 || have_pool);            /* PROTO_INV: outstanding inits imply a pool */
  char *slab = 0; size_t nslabs = 0;
  if (have_pool) {
    token_pool = malloc(sizeof(pool)); __CPROVER_assume(token_pool!=0);
    token_pool->object_size = sizeof(token);
    token_pool->allocated = stack_new(1024);
    int drained = nondet_int();
    if (drained) { token_pool->next = 0; token_pool->last = 0; }
    else { slab = malloc(sizeof(token)*NOBJ); __CPROVER_assume(slab!=0); stack_push(token_pool->allocated, slab); nslabs=1;
           size_t k = nondet_size_t(); __CPROVER_assume(k<=NOBJ); token_pool->next = slab + k*sizeof(token); token_pool->last = slab + NOBJ*sizeof(token); }
  } else token_pool = 0;
  token_pool_count = c;
  int op = nondet_int();
  if (op==0) { token_pool_init(); assert(token_pool!=0); assert(token_pool_count==c+1); if (have_pool) assert(token_pool->allocated->size==nslabs); }
  else if (op==1 && c>0) { token *t = token_new(3, 1, 2); assert(t!=0); t->len=5; assert(token_pool->allocated->size>=1); if (slab) { slab[0]=slab[0]; } }
  else if (op==2 && c>0) { token_pool_drain(); assert(token_pool_count==c-1); if (c>1) { assert(token_pool->allocated->size==nslabs); if (slab) slab[0]=1; } else { assert(token_pool->allocated->size==0); assert(token_pool->next==0 && token_pool->last==0); } }
  else if (op==3 && c==0) { token_pool_free(); assert(token_pool==0); }
#ifdef WITNESS
  assert(0);
#endif
  return 0;
}
