#include <assert.h>
#include <stdlib.h>
#include <string.h>
#include <stdbool.h>
#include "d_string.h"
#include "libMultiMarkdown.h"
#include "token.h"
#include "writer.h"
void mmd_print_string_html(DString * out, const char * str, bool obfuscate, bool line_breaks);
char nondet_char(void);
/* printf stub: deterministic rendering of the two formats used by the obfuscator */
void d_string_append_printf(DString * d, const char * format, ...){ d_string_append_c(d, format[2]=='x' ? 'X' : 'D'); }
int main(void){
  char s1[2], s2[2]; s1[0]=nondet_char(); s2[0]=nondet_char(); s1[1]=s2[1]=0;
  __CPROVER_assume(s1[0]>32 && s1[0]<127 && s2[0]>32 && s2[0]<127);
  __CPROVER_assume(s1[0]!='"'&&s1[0]!='&'&&s1[0]!='<'&&s1[0]!='>' && s2[0]!='"'&&s2[0]!='&'&&s2[0]!='<'&&s2[0]!='>');
  DString *a = d_string_new(""), *b = d_string_new("");
  mmd_print_string_html(a, s1, true, false);   /* first conversion in the process */
  mmd_print_string_html(b, s1, true, false);   /* same text converted again */
  assert(strcmp(a->str, b->str)==0);
  return 0;
}
