#include <assert.h>
#include "ir_cbmc.h"
#include "lexer_flat.c"
#ifndef N
#define N 4
#endif
uint8_t nondet_u8(void); uint64_t nondet_u64(void);
int main(void){
  uint64_t len = nondet_u64(); __CPROVER_assume(len<=N);
  uint64_t base = 40;
  for (uint64_t i=0;i<N;i++) { if (i<len) { uint8_t c=nondet_u8(); __CPROVER_assume(c!=0); MEM[base+i]=c; } }
  MEM[base+len]=0;
  ir_lo = base; ir_hi = base+len+1; ir_slo=0; ir_shi=32;
  uint64_t c0 = nondet_u64(); __CPROVER_assume(c0<=len);
  uint64_t st = nondet_u64(); __CPROVER_assume(st<=len);
  ir_st64(0, base); ir_st64(8, base+c0); ir_st64(16, base); ir_st64(24, base);
  uint32_t type = ir_scan(0, base+st);
  uint64_t start = ir_ld64(0), cur = ir_ld64(8);
  if (type) { assert(start >= base+c0); assert(cur > start); assert(cur <= base+len); }
#ifdef WITNESS
  assert(0);
#endif
  return 0;
}
