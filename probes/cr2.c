#include <assert.h>
#include <stdlib.h>
#include <string.h>
#include "critic_markup.h"
#include "token.h"
#ifndef N
#define N 3
#endif
int nondet_int(void);
static const char ALPHA[] = "{}+-~>=<a\\";
int main(void){
  char txt[N+1];
  for(int i=0;i<N;i++){ int k=nondet_int(); __CPROVER_assume(k>=0 && k<10); txt[i]=ALPHA[k]; }
  txt[N]=0;
  token *root = mmd_critic_tokenize_string(txt, 0, N);
  if (root) { token *t = root->child; size_t pos=0; int c=0; while(t && c<N+1){ assert(t->start==pos); assert(t->len>0); pos += t->len; if(!t->next) break; t=t->next; c++; } }
#ifdef WITNESS
  assert(0);
#endif
  return 0;
}
