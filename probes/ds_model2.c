/* ideal bounded string model, with insert/erase/prepend (byte loops only) */
#include <stdlib.h>
#include <string.h>
#include "d_string.h"
#ifndef DS_CAP
#define DS_CAP 40
#endif
DString * d_string_new(const char * s){ DString *d = malloc(sizeof(DString)); __CPROVER_assume(d!=0); d->str = malloc(DS_CAP); __CPROVER_assume(d->str!=0); d->currentStringBufferSize=DS_CAP; size_t n=0; if(s){ while(s[n]) { __CPROVER_assert(n+1<DS_CAP,"model cap"); d->str[n]=s[n]; n++; } } d->str[n]=0; d->currentStringLength=n; return d; }
char * d_string_free(DString * d, bool f){ if(!d) return 0; char *r=d->str; if(f){ free(d->str); r=0;} free(d); return r; }
void d_string_append_c(DString * d, char c){ if(d && c){ __CPROVER_assert(d->currentStringLength+1<DS_CAP,"model cap"); d->str[d->currentStringLength++]=c; d->str[d->currentStringLength]=0; } }
void d_string_append(DString * d, const char * s){ if(d && s){ for(size_t i=0; s[i]; i++) d_string_append_c(d, s[i]); } }
void d_string_insert(DString * d, size_t pos, const char * s){ if(d && s){ size_t n=0; while(s[n]) n++; if(n==0) return; if(pos>d->currentStringLength) pos=d->currentStringLength; __CPROVER_assert(d->currentStringLength+n<DS_CAP,"model cap"); for(size_t i=d->currentStringLength;i>pos;i--) d->str[i-1+n]=d->str[i-1]; for(size_t i=0;i<n;i++) d->str[pos+i]=s[i]; d->currentStringLength+=n; d->str[d->currentStringLength]=0; } }
void d_string_prepend(DString * d, const char * s){ d_string_insert(d,0,s); }
void d_string_erase(DString * d, size_t pos, size_t len){ if(d){ size_t L=d->currentStringLength; if(pos>L||len==0) return; size_t e=(len>L-pos)?L:pos+len; size_t j=pos; for(size_t i=e;i<L;i++) d->str[j++]=d->str[i]; d->currentStringLength=j; d->str[j]=0; } }
