#include <assert.h>
#include <stdlib.h>
#include <string.h>
#include <stdbool.h>
#include "libMultiMarkdown.h"
#include "token.h"
#include "writer.h"
#ifndef N
#define N 5
#endif
char nondet_char(void); size_t nondet_size_t(void);
static int utf8_ok(const unsigned char *s, size_t n){
  size_t i=0; int guard=0;
  while(i<n && guard<=N){ guard++; unsigned char c=s[i];
    if(c<0x80){ i++; continue; }
    if(c>=0xC2 && c<=0xDF){ if(i+1>=n || (s[i+1]&0xC0)!=0x80) return 0; i+=2; continue; }
    if(c>=0xE0 && c<=0xEF){ if(i+2>=n || (s[i+1]&0xC0)!=0x80 || (s[i+2]&0xC0)!=0x80) return 0; if(c==0xE0 && s[i+1]<0xA0) return 0; if(c==0xED && s[i+1]>=0xA0) return 0; i+=3; continue; }
    if(c>=0xF0 && c<=0xF4){ if(i+3>=n || (s[i+1]&0xC0)!=0x80 || (s[i+2]&0xC0)!=0x80 || (s[i+3]&0xC0)!=0x80) return 0; if(c==0xF0 && s[i+1]<0x90) return 0; if(c==0xF4 && s[i+1]>=0x90) return 0; i+=4; continue; }
    return 0; }
  return i==n;
}
int main(void){
  char in[N+1]; size_t len=nondet_size_t(); __CPROVER_assume(len<=N);
  for(size_t i=0;i<N;i++){ in[i]=nondet_char(); if(i<len) __CPROVER_assume(in[i]!=0); } in[len]=0;
  __CPROVER_assume(utf8_ok((unsigned char*)in,len));
#ifdef CLEAN
  char *out = clean_string(in, true, false);
#else
  char *out = label_from_string(in);
#endif
  assert(out!=0);
  size_t ol=strlen(out); assert(ol<=len);
  assert(utf8_ok((unsigned char*)out, ol));
#ifdef WITNESS
  assert(0);
#endif
  return 0;
}
