#include <assert.h>
#include <stdlib.h>
#include <stdio.h>
#include <string.h>
int verif_syntax_error = 0, verif_parse_failed = 0;
static int verif_fprintf(FILE *f, const char *fmt, ...) { if (fmt[0]=='P' && fmt[7]=='s') verif_syntax_error++; if (fmt[0]=='P' && fmt[7]=='f') verif_parse_failed++; return 0; }
#define fprintf verif_fprintf
#include "parser.c"
#undef fprintf
#include "mmd.h"
#include "d_string.h"
#ifndef L
#define L 2
#endif
int nondet_int(void);
void mmd_parse_token_chain(mmd_engine * e, token * chain);
mmd_engine * mmd_engine_create_with_string(const char * str, unsigned long extensions);
static int in_T(int t){ return t>=1 && t<=39 && t!=5 && t!=11 && t!=30; }
int main(void){
  /* source: L lines "ab\n" */
  char src[3*L+1]; for(int i=0;i<L;i++){ src[3*i]='a'; src[3*i+1]='b'; src[3*i+2]='\n'; } src[3*L]=0;
  mmd_engine *e = mmd_engine_create_with_string(src, 0); __CPROVER_assume(e!=0);
  token *root = token_new(0,0,0);
  for(int i=0;i<L;i++){
    int ty = nondet_int(); __CPROVER_assume(in_T(ty));
    token *line = token_new(ty, 3*i, 0);
    token_append_child(line, token_new(TEXT_PLAIN, 3*i, 1));
    token_append_child(line, token_new(TEXT_PLAIN, 3*i+1, 1));
    token_append_child(line, token_new(TEXT_NL, 3*i+2, 1));
    token_append_child(root, line);
  }
  mmd_parse_token_chain(e, root);
  assert(verif_syntax_error==0);
  assert(verif_parse_failed==0);
  assert(root->child != 0);
#ifdef WITNESS
  assert(0);
#endif
  return 0;
}
