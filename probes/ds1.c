#include <assert.h>
#include <string.h>
#include "d_string.c"
size_t nondet_size_t(void);
char nondet_char(void);
int nondet_int(void);
#define M 6
int main(void){
  char init[M+1];
  size_t n0 = nondet_size_t(); __CPROVER_assume(n0<=M);
  for(size_t i=0;i<M;i++){ init[i]=nondet_char(); __CPROVER_assume(i>=n0 || init[i]!=0);} 
  init[n0]=0;
  DString *d = d_string_new(init);
  __CPROVER_assume(d!=0);
  size_t pos = nondet_size_t(), len = nondet_size_t();
  char model[M+1]; memcpy(model,init,M+1);
  d_string_erase(d,pos,len);
  // ideal model
  size_t L=n0; 
  size_t ml;
  if(pos>L || len==0) ml=L; else { size_t e = (len > L-pos)? L : pos+len; /* erase [pos,e) */ 
     size_t j=pos; for(size_t i=e;i<L;i++) model[j++]=model[i]; ml=j; }
  model[ml]=0;
  assert(d->currentStringLength==ml);
  assert(d->str[d->currentStringLength]==0);
  assert(d->currentStringBufferSize>d->currentStringLength);
  for(size_t i=0;i<M;i++) if(i<ml) assert(d->str[i]==model[i]);
  return 0;
}
