#include <assert.h>
#include "ir_cbmc.h"
#include "scanners_flat.c"
#ifndef N
#define N 6
#endif
#ifndef FN
#define FN ir_scan_attr
#endif
uint8_t nondet_u8(void); uint64_t nondet_u64(void);
int main(void){
  uint64_t len = nondet_u64(); __CPROVER_assume(len<=N);
  uint64_t base = 16;
  for (uint64_t i=0;i<N;i++) { if (i<len) { uint8_t c=nondet_u8(); __CPROVER_assume(c!=0); MEM[base+i]=c; } }
  MEM[base+len]=0;
  ir_lo = base; ir_hi = base+len+1; ir_slo=0; ir_shi=0;
  uint64_t r = FN(base);
  assert(r <= len+1);
#ifdef WITNESS
  assert(0);
#endif
  return 0;
}
