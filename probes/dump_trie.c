#include <stdio.h>
#include <stdlib.h>
#include "aho-corasick.h"
#include "critic_markup.h"
#include "token.h"
match * __real_ac_trie_leftmost_longest_search(trie * a, const char * source, size_t start, size_t len);
match * __wrap_ac_trie_leftmost_longest_search(trie * a, const char * source, size_t start, size_t len){
  printf("#define TRIE_SIZE %zu\n", a->size);
  printf("static const struct { char c; unsigned short match_type; unsigned short len; size_t ac_fail; } trie_meta[TRIE_SIZE] = {\n");
  for(size_t i=0;i<a->size;i++) printf(" {%d,%u,%u,%zu},\n", a->node[i].c, a->node[i].match_type, a->node[i].len, a->node[i].ac_fail);
  printf("};\nstatic const struct { unsigned short node; unsigned char ch; unsigned short to; } trie_edges[] = {\n");
  int ne=0; for(size_t i=0;i<a->size;i++) for(int c=0;c<256;c++) if(a->node[i].child[c]) { printf(" {%zu,%d,%zu},\n", i, c, a->node[i].child[c]); ne++; }
  printf("};\n#define TRIE_EDGES %d\n", ne);
  return __real_ac_trie_leftmost_longest_search(a, source, start, len);
}
int main(void){ token *t = mmd_critic_tokenize_string("x", 0, 1); return 0; }
