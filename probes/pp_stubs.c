#include "mmd.h"
int verif_recursed = 0;
void recursive_parse_indent(mmd_engine * e, token * block){ verif_recursed++; }
void recursive_parse_list_item(mmd_engine * e, token * block){ verif_recursed++; }
void recursive_parse_blockquote(mmd_engine * e, token * block){ verif_recursed++; }
