/* ideal bounded string model standing in for d_string.c (refinement checked separately) */
#include <stdlib.h>
#include <string.h>
#include <stdarg.h>
#include "d_string.h"
#ifndef DS_CAP
#define DS_CAP 48
#endif
DString * d_string_new(const char * s){ DString *d = malloc(sizeof(DString)); __CPROVER_assume(d!=0); d->str = malloc(DS_CAP); __CPROVER_assume(d->str!=0); d->currentStringBufferSize=DS_CAP; size_t n=0; if(s){ while(s[n]) { __CPROVER_assert(n+1<DS_CAP,"model cap"); d->str[n]=s[n]; n++; } } d->str[n]=0; d->currentStringLength=n; return d; }
char * d_string_free(DString * d, bool f){ if(!d) return 0; char *r=d->str; if(f){ free(d->str); r=0;} free(d); return r; }
void d_string_append_c(DString * d, char c){ if(d && c){ __CPROVER_assert(d->currentStringLength+1<DS_CAP,"model cap"); d->str[d->currentStringLength++]=c; d->str[d->currentStringLength]=0; } }
void d_string_append(DString * d, const char * s){ if(d && s){ for(size_t i=0; s[i]; i++) d_string_append_c(d, s[i]); } }
void d_string_append_c_array(DString * d, const char * s, size_t n){ if(d && s){ if(n==(size_t)-1) d_string_append(d,s); else { for(size_t i=0;i<n;i++){ __CPROVER_assert(d->currentStringLength+1<DS_CAP,"model cap"); d->str[d->currentStringLength++]=s[i]; } d->str[d->currentStringLength]=0; } } }
