#include <pthread.h>
#include <assert.h>
long ran_num_next(void);
void *worker(void *a){ long r = ran_num_next(); return 0; }
int main(void){ pthread_t t1,t2; pthread_create(&t1,0,worker,0); pthread_create(&t2,0,worker,0); pthread_join(t1,0); pthread_join(t2,0); return 0; }
