#include <assert.h>
#include <stdlib.h>
#include <string.h>
#include "d_string.h"
#include "critic_markup.h"
#include "token.h"
#ifndef N
#define N 5
#endif
int nondet_int(void);
static const char ALPHA[] = "{}+-~>=<a\\";
int main(void){
  char txt[N+1];
  for(int i=0;i<N;i++){ int k=nondet_int(); __CPROVER_assume(k>=0 && k<10); txt[i]=ALPHA[k]; }
  txt[N]=0;
  DString *d = d_string_new(txt); __CPROVER_assume(d!=0);
  mmd_critic_markup_accept(d);
  assert(d->currentStringLength <= N);
  assert(d->str[d->currentStringLength]==0);
#ifdef WITNESS
  assert(0);
#endif
  return 0;
}
