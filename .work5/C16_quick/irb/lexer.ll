; ModuleID = '/repo/src/lexer.c'
source_filename = "/repo/src/lexer.c"
target datalayout = "e-m:e-p270:32:32-p271:32:32-p272:64:64-i64:64-f80:128-n8:16:32:64-S128"
target triple = "x86_64-pc-linux-gnu"

%struct.Scanner = type { i8*, i8*, i8*, i8* }

; Function Attrs: nofree norecurse nosync nounwind uwtable
define dso_local i32 @scan(%struct.Scanner* noundef %0, i8* noundef readnone %1) local_unnamed_addr #0 {
  %3 = getelementptr inbounds %struct.Scanner, %struct.Scanner* %0, i64 0, i32 1
  %4 = getelementptr inbounds %struct.Scanner, %struct.Scanner* %0, i64 0, i32 0
  %5 = getelementptr inbounds %struct.Scanner, %struct.Scanner* %0, i64 0, i32 2
  %6 = getelementptr inbounds %struct.Scanner, %struct.Scanner* %0, i64 0, i32 2
  %7 = getelementptr inbounds %struct.Scanner, %struct.Scanner* %0, i64 0, i32 2
  %8 = getelementptr inbounds %struct.Scanner, %struct.Scanner* %0, i64 0, i32 2
  %9 = getelementptr inbounds %struct.Scanner, %struct.Scanner* %0, i64 0, i32 2
  %10 = getelementptr inbounds %struct.Scanner, %struct.Scanner* %0, i64 0, i32 2
  %11 = getelementptr inbounds %struct.Scanner, %struct.Scanner* %0, i64 0, i32 2
  %12 = getelementptr inbounds %struct.Scanner, %struct.Scanner* %0, i64 0, i32 3
  %13 = getelementptr inbounds %struct.Scanner, %struct.Scanner* %0, i64 0, i32 3
  %14 = getelementptr inbounds %struct.Scanner, %struct.Scanner* %0, i64 0, i32 3
  %15 = getelementptr inbounds %struct.Scanner, %struct.Scanner* %0, i64 0, i32 3
  %16 = getelementptr inbounds %struct.Scanner, %struct.Scanner* %0, i64 0, i32 2
  %17 = getelementptr inbounds %struct.Scanner, %struct.Scanner* %0, i64 0, i32 2
  %18 = getelementptr inbounds %struct.Scanner, %struct.Scanner* %0, i64 0, i32 2
  %19 = getelementptr inbounds %struct.Scanner, %struct.Scanner* %0, i64 0, i32 2
  %20 = getelementptr inbounds %struct.Scanner, %struct.Scanner* %0, i64 0, i32 3
  %21 = getelementptr inbounds %struct.Scanner, %struct.Scanner* %0, i64 0, i32 3
  %22 = getelementptr inbounds %struct.Scanner, %struct.Scanner* %0, i64 0, i32 3
  %23 = getelementptr inbounds %struct.Scanner, %struct.Scanner* %0, i64 0, i32 3
  %24 = getelementptr inbounds %struct.Scanner, %struct.Scanner* %0, i64 0, i32 3
  %25 = getelementptr inbounds %struct.Scanner, %struct.Scanner* %0, i64 0, i32 3
  %26 = getelementptr inbounds %struct.Scanner, %struct.Scanner* %0, i64 0, i32 3
  %27 = getelementptr inbounds %struct.Scanner, %struct.Scanner* %0, i64 0, i32 3
  %28 = getelementptr inbounds %struct.Scanner, %struct.Scanner* %0, i64 0, i32 3
  %29 = getelementptr inbounds %struct.Scanner, %struct.Scanner* %0, i64 0, i32 3
  %30 = getelementptr inbounds %struct.Scanner, %struct.Scanner* %0, i64 0, i32 3
  %31 = getelementptr inbounds %struct.Scanner, %struct.Scanner* %0, i64 0, i32 3
  %32 = getelementptr inbounds %struct.Scanner, %struct.Scanner* %0, i64 0, i32 3
  %33 = getelementptr inbounds %struct.Scanner, %struct.Scanner* %0, i64 0, i32 3
  %34 = getelementptr inbounds %struct.Scanner, %struct.Scanner* %0, i64 0, i32 3
  %35 = getelementptr inbounds %struct.Scanner, %struct.Scanner* %0, i64 0, i32 3
  %36 = getelementptr inbounds %struct.Scanner, %struct.Scanner* %0, i64 0, i32 3
  %37 = getelementptr inbounds %struct.Scanner, %struct.Scanner* %0, i64 0, i32 3
  %38 = getelementptr inbounds %struct.Scanner, %struct.Scanner* %0, i64 0, i32 3
  %39 = getelementptr inbounds %struct.Scanner, %struct.Scanner* %0, i64 0, i32 3
  %40 = getelementptr inbounds %struct.Scanner, %struct.Scanner* %0, i64 0, i32 3
  %41 = getelementptr inbounds %struct.Scanner, %struct.Scanner* %0, i64 0, i32 3
  %42 = getelementptr inbounds %struct.Scanner, %struct.Scanner* %0, i64 0, i32 3
  %43 = getelementptr inbounds %struct.Scanner, %struct.Scanner* %0, i64 0, i32 3
  %44 = getelementptr inbounds %struct.Scanner, %struct.Scanner* %0, i64 0, i32 3
  %45 = getelementptr inbounds %struct.Scanner, %struct.Scanner* %0, i64 0, i32 3
  %46 = getelementptr inbounds %struct.Scanner, %struct.Scanner* %0, i64 0, i32 3
  %47 = getelementptr inbounds %struct.Scanner, %struct.Scanner* %0, i64 0, i32 3
  %48 = getelementptr inbounds %struct.Scanner, %struct.Scanner* %0, i64 0, i32 3
  %49 = getelementptr inbounds %struct.Scanner, %struct.Scanner* %0, i64 0, i32 3
  %50 = getelementptr inbounds %struct.Scanner, %struct.Scanner* %0, i64 0, i32 2
  %51 = getelementptr inbounds %struct.Scanner, %struct.Scanner* %0, i64 0, i32 2
  %52 = getelementptr inbounds %struct.Scanner, %struct.Scanner* %0, i64 0, i32 3
  %53 = getelementptr inbounds %struct.Scanner, %struct.Scanner* %0, i64 0, i32 3
  %54 = getelementptr inbounds %struct.Scanner, %struct.Scanner* %0, i64 0, i32 3
  %55 = getelementptr inbounds %struct.Scanner, %struct.Scanner* %0, i64 0, i32 3
  %56 = getelementptr inbounds %struct.Scanner, %struct.Scanner* %0, i64 0, i32 3
  %57 = getelementptr inbounds %struct.Scanner, %struct.Scanner* %0, i64 0, i32 3
  %58 = getelementptr inbounds %struct.Scanner, %struct.Scanner* %0, i64 0, i32 3
  %59 = getelementptr inbounds %struct.Scanner, %struct.Scanner* %0, i64 0, i32 3
  %60 = getelementptr inbounds %struct.Scanner, %struct.Scanner* %0, i64 0, i32 2
  %61 = getelementptr inbounds %struct.Scanner, %struct.Scanner* %0, i64 0, i32 2
  %62 = getelementptr inbounds %struct.Scanner, %struct.Scanner* %0, i64 0, i32 3
  %63 = getelementptr inbounds %struct.Scanner, %struct.Scanner* %0, i64 0, i32 3
  %64 = getelementptr inbounds %struct.Scanner, %struct.Scanner* %0, i64 0, i32 3
  %65 = getelementptr inbounds %struct.Scanner, %struct.Scanner* %0, i64 0, i32 3
  %66 = getelementptr inbounds %struct.Scanner, %struct.Scanner* %0, i64 0, i32 3
  %67 = getelementptr inbounds %struct.Scanner, %struct.Scanner* %0, i64 0, i32 3
  %68 = getelementptr inbounds %struct.Scanner, %struct.Scanner* %0, i64 0, i32 3
  %69 = getelementptr inbounds %struct.Scanner, %struct.Scanner* %0, i64 0, i32 3
  %70 = getelementptr inbounds %struct.Scanner, %struct.Scanner* %0, i64 0, i32 2
  %71 = getelementptr inbounds %struct.Scanner, %struct.Scanner* %0, i64 0, i32 3
  br label %72

72:                                               ; preds = %843, %2
  %73 = phi i32 [ undef, %2 ], [ %844, %843 ]
  %74 = load i8*, i8** %3, align 8, !tbaa !5
  %75 = icmp ult i8* %74, %1
  br i1 %75, label %76, label %846

76:                                               ; preds = %72
  store i8* %74, i8** %4, align 8, !tbaa !10
  %77 = load i8, i8* %74, align 1, !tbaa !11
  switch i8 %77, label %78 [
    i8 9, label %80
    i8 10, label %82
    i8 13, label %88
    i8 32, label %91
    i8 33, label %94
    i8 34, label %98
    i8 35, label %100
    i8 36, label %108
    i8 37, label %112
    i8 38, label %114
    i8 39, label %118
    i8 40, label %122
    i8 41, label %124
    i8 42, label %126
    i8 43, label %128
    i8 45, label %133
    i8 46, label %137
    i8 47, label %140
    i8 48, label %142
    i8 49, label %142
    i8 50, label %142
    i8 51, label %142
    i8 52, label %142
    i8 53, label %142
    i8 54, label %142
    i8 55, label %142
    i8 56, label %142
    i8 57, label %142
    i8 58, label %146
    i8 60, label %148
    i8 61, label %152
    i8 62, label %157
    i8 91, label %159
    i8 92, label %162
    i8 93, label %165
    i8 94, label %167
    i8 95, label %169
    i8 96, label %171
    i8 123, label %176
    i8 124, label %180
    i8 125, label %185
    i8 126, label %189
    i8 -62, label %193
    i8 -17, label %197
  ]

78:                                               ; preds = %76
  %79 = getelementptr inbounds i8, i8* %74, i64 1
  store i8* %79, i8** %3, align 8, !tbaa !5
  br label %843

80:                                               ; preds = %76
  %81 = getelementptr inbounds i8, i8* %74, i64 1
  store i8* %81, i8** %3, align 8, !tbaa !5
  br label %843

82:                                               ; preds = %88, %76
  %83 = load i8*, i8** %3, align 8, !tbaa !5
  %84 = getelementptr inbounds i8, i8* %83, i64 1
  store i8* %84, i8** %3, align 8, !tbaa !5
  store i8* %84, i8** %61, align 8, !tbaa !12
  %85 = load i8, i8* %84, align 1, !tbaa !11
  %86 = icmp eq i8 %85, 32
  br i1 %86, label %201, label %87

87:                                               ; preds = %233, %226, %88, %82, %230
  br label %843

88:                                               ; preds = %76
  %89 = getelementptr inbounds i8, i8* %74, i64 1
  store i8* %89, i8** %3, align 8, !tbaa !5
  store i8* %89, i8** %60, align 8, !tbaa !12
  %90 = load i8, i8* %89, align 1, !tbaa !11
  switch i8 %90, label %87 [
    i8 10, label %82
    i8 32, label %201
  ]

91:                                               ; preds = %76
  %92 = getelementptr inbounds i8, i8* %74, i64 1
  store i8* %92, i8** %3, align 8, !tbaa !5
  store i8* %92, i8** %50, align 8, !tbaa !12
  %93 = load i8, i8* %92, align 1, !tbaa !11
  switch i8 %93, label %843 [
    i8 9, label %229
    i8 10, label %230
    i8 13, label %233
    i8 32, label %237
    i8 -62, label %242
  ]

94:                                               ; preds = %76
  %95 = getelementptr inbounds i8, i8* %74, i64 1
  store i8* %95, i8** %3, align 8, !tbaa !5
  %96 = load i8, i8* %95, align 1, !tbaa !11
  %97 = icmp eq i8 %96, 91
  br i1 %97, label %247, label %843

98:                                               ; preds = %76
  %99 = getelementptr inbounds i8, i8* %74, i64 1
  store i8* %99, i8** %3, align 8, !tbaa !5
  br label %843

100:                                              ; preds = %76
  %101 = getelementptr inbounds i8, i8* %74, i64 1
  store i8* %101, i8** %3, align 8, !tbaa !5
  store i8* %101, i8** %19, align 8, !tbaa !12
  %102 = load i8, i8* %101, align 1, !tbaa !11
  switch i8 %102, label %107 [
    i8 0, label %103
    i8 10, label %103
    i8 9, label %104
    i8 32, label %104
    i8 13, label %105
    i8 35, label %265
    i8 -62, label %106
  ]

103:                                              ; preds = %100, %100
  store i8* %101, i8** %48, align 8, !tbaa !13
  br label %249

104:                                              ; preds = %100, %100
  store i8* %101, i8** %47, align 8, !tbaa !13
  br label %278

105:                                              ; preds = %100
  store i8* %101, i8** %46, align 8, !tbaa !13
  br label %260

106:                                              ; preds = %100
  store i8* %101, i8** %20, align 8, !tbaa !13
  br label %272

107:                                              ; preds = %226, %100
  br label %843

108:                                              ; preds = %76
  %109 = getelementptr inbounds i8, i8* %74, i64 1
  store i8* %109, i8** %3, align 8, !tbaa !5
  %110 = load i8, i8* %109, align 1, !tbaa !11
  %111 = icmp eq i8 %110, 36
  br i1 %111, label %279, label %843

112:                                              ; preds = %76
  %113 = getelementptr inbounds i8, i8* %74, i64 1
  store i8* %113, i8** %3, align 8, !tbaa !5
  br label %843

114:                                              ; preds = %76
  %115 = getelementptr inbounds i8, i8* %74, i64 1
  store i8* %115, i8** %3, align 8, !tbaa !5
  store i8* %115, i8** %18, align 8, !tbaa !12
  %116 = load i8, i8* %115, align 1, !tbaa !11
  switch i8 %116, label %117 [
    i8 35, label %281
    i8 48, label %285
    i8 49, label %285
    i8 50, label %285
    i8 51, label %285
    i8 52, label %285
    i8 53, label %285
    i8 54, label %285
    i8 55, label %285
    i8 56, label %285
    i8 57, label %285
    i8 66, label %285
    i8 67, label %285
    i8 68, label %285
    i8 69, label %285
    i8 70, label %285
    i8 71, label %285
    i8 72, label %285
    i8 73, label %285
    i8 74, label %285
    i8 75, label %285
    i8 76, label %285
    i8 77, label %285
    i8 78, label %285
    i8 79, label %285
    i8 80, label %285
    i8 81, label %285
    i8 82, label %285
    i8 83, label %285
    i8 84, label %285
    i8 85, label %285
    i8 86, label %285
    i8 87, label %285
    i8 88, label %285
    i8 89, label %285
    i8 90, label %285
    i8 98, label %285
    i8 99, label %285
    i8 100, label %285
    i8 101, label %285
    i8 102, label %285
    i8 103, label %285
    i8 104, label %285
    i8 105, label %285
    i8 106, label %285
    i8 107, label %285
    i8 108, label %285
    i8 109, label %285
    i8 110, label %285
    i8 111, label %285
    i8 112, label %285
    i8 113, label %285
    i8 114, label %285
    i8 115, label %285
    i8 116, label %285
    i8 117, label %285
    i8 118, label %285
    i8 119, label %285
    i8 120, label %285
    i8 121, label %285
    i8 122, label %285
    i8 65, label %291
    i8 97, label %291
  ]

117:                                              ; preds = %226, %114
  br label %843

118:                                              ; preds = %76
  %119 = getelementptr inbounds i8, i8* %74, i64 1
  store i8* %119, i8** %3, align 8, !tbaa !5
  %120 = load i8, i8* %119, align 1, !tbaa !11
  %121 = icmp eq i8 %120, 39
  br i1 %121, label %294, label %843

122:                                              ; preds = %76
  %123 = getelementptr inbounds i8, i8* %74, i64 1
  store i8* %123, i8** %3, align 8, !tbaa !5
  br label %843

124:                                              ; preds = %76
  %125 = getelementptr inbounds i8, i8* %74, i64 1
  store i8* %125, i8** %3, align 8, !tbaa !5
  br label %843

126:                                              ; preds = %76
  %127 = getelementptr inbounds i8, i8* %74, i64 1
  store i8* %127, i8** %3, align 8, !tbaa !5
  br label %843

128:                                              ; preds = %76
  %129 = getelementptr inbounds i8, i8* %74, i64 1
  store i8* %129, i8** %3, align 8, !tbaa !5
  store i8* %129, i8** %17, align 8, !tbaa !12
  %130 = load i8, i8* %129, align 1, !tbaa !11
  %131 = icmp eq i8 %130, 43
  br i1 %131, label %296, label %132

132:                                              ; preds = %226, %128
  br label %843

133:                                              ; preds = %76
  %134 = getelementptr inbounds i8, i8* %74, i64 1
  store i8* %134, i8** %3, align 8, !tbaa !5
  %135 = load i8, i8* %134, align 1, !tbaa !11
  %136 = icmp eq i8 %135, 45
  br i1 %136, label %300, label %843

137:                                              ; preds = %76
  %138 = getelementptr inbounds i8, i8* %74, i64 1
  store i8* %138, i8** %3, align 8, !tbaa !5
  store i8* %138, i8** %16, align 8, !tbaa !12
  %139 = load i8, i8* %138, align 1, !tbaa !11
  switch i8 %139, label %843 [
    i8 32, label %303
    i8 46, label %307
  ]

140:                                              ; preds = %76
  %141 = getelementptr inbounds i8, i8* %74, i64 1
  store i8* %141, i8** %3, align 8, !tbaa !5
  br label %843

142:                                              ; preds = %76, %76, %76, %76, %76, %76, %76, %76, %76, %76
  %143 = getelementptr inbounds i8, i8* %74, i64 1
  store i8* %143, i8** %3, align 8, !tbaa !5
  store i8* %143, i8** %11, align 8, !tbaa !12
  %144 = load i8, i8* %143, align 1, !tbaa !11
  switch i8 %144, label %843 [
    i8 46, label %311
    i8 48, label %145
    i8 49, label %145
    i8 50, label %145
    i8 51, label %145
    i8 52, label %145
    i8 53, label %145
    i8 54, label %145
    i8 55, label %145
    i8 56, label %145
    i8 57, label %145
  ]

145:                                              ; preds = %142, %142, %142, %142, %142, %142, %142, %142, %142, %142
  br label %322

146:                                              ; preds = %76
  %147 = getelementptr inbounds i8, i8* %74, i64 1
  store i8* %147, i8** %3, align 8, !tbaa !5
  br label %843

148:                                              ; preds = %76
  %149 = getelementptr inbounds i8, i8* %74, i64 1
  store i8* %149, i8** %3, align 8, !tbaa !5
  store i8* %149, i8** %10, align 8, !tbaa !12
  %150 = load i8, i8* %149, align 1, !tbaa !11
  switch i8 %150, label %151 [
    i8 33, label %327
    i8 60, label %331
  ]

151:                                              ; preds = %226, %148
  br label %843

152:                                              ; preds = %76
  %153 = getelementptr inbounds i8, i8* %74, i64 1
  store i8* %153, i8** %3, align 8, !tbaa !5
  store i8* %153, i8** %9, align 8, !tbaa !12
  %154 = load i8, i8* %153, align 1, !tbaa !11
  %155 = icmp eq i8 %154, 61
  br i1 %155, label %335, label %156

156:                                              ; preds = %226, %152
  br label %843

157:                                              ; preds = %76
  %158 = getelementptr inbounds i8, i8* %74, i64 1
  store i8* %158, i8** %3, align 8, !tbaa !5
  br label %843

159:                                              ; preds = %76
  %160 = getelementptr inbounds i8, i8* %74, i64 1
  store i8* %160, i8** %3, align 8, !tbaa !5
  %161 = load i8, i8* %160, align 1, !tbaa !11
  switch i8 %161, label %843 [
    i8 35, label %339
    i8 37, label %341
    i8 62, label %343
    i8 63, label %345
    i8 94, label %347
  ]

162:                                              ; preds = %76
  %163 = getelementptr inbounds i8, i8* %74, i64 1
  store i8* %163, i8** %3, align 8, !tbaa !5
  %164 = load i8, i8* %163, align 1, !tbaa !11
  switch i8 %164, label %843 [
    i8 10, label %349
    i8 13, label %352
    i8 32, label %356
    i8 33, label %358
    i8 34, label %360
    i8 35, label %362
    i8 36, label %364
    i8 37, label %366
    i8 38, label %368
    i8 39, label %370
    i8 40, label %372
    i8 41, label %374
    i8 42, label %376
    i8 43, label %378
    i8 44, label %380
    i8 45, label %382
    i8 46, label %384
    i8 47, label %386
    i8 58, label %388
    i8 59, label %390
    i8 60, label %392
    i8 61, label %394
    i8 62, label %396
    i8 63, label %398
    i8 64, label %400
    i8 91, label %402
    i8 92, label %404
    i8 93, label %407
    i8 94, label %409
    i8 95, label %411
    i8 96, label %413
    i8 123, label %415
    i8 124, label %417
    i8 125, label %419
    i8 126, label %421
  ]

165:                                              ; preds = %76
  %166 = getelementptr inbounds i8, i8* %74, i64 1
  store i8* %166, i8** %3, align 8, !tbaa !5
  br label %843

167:                                              ; preds = %76
  %168 = getelementptr inbounds i8, i8* %74, i64 1
  store i8* %168, i8** %3, align 8, !tbaa !5
  br label %843

169:                                              ; preds = %76
  %170 = getelementptr inbounds i8, i8* %74, i64 1
  store i8* %170, i8** %3, align 8, !tbaa !5
  br label %843

171:                                              ; preds = %76, %171
  %172 = load i8*, i8** %3, align 8, !tbaa !5
  %173 = getelementptr inbounds i8, i8* %172, i64 1
  store i8* %173, i8** %3, align 8, !tbaa !5
  %174 = load i8, i8* %173, align 1, !tbaa !11
  %175 = icmp eq i8 %174, 96
  br i1 %175, label %171, label %843

176:                                              ; preds = %76
  %177 = getelementptr inbounds i8, i8* %74, i64 1
  store i8* %177, i8** %3, align 8, !tbaa !5
  store i8* %177, i8** %8, align 8, !tbaa !12
  %178 = load i8, i8* %177, align 1, !tbaa !11
  switch i8 %178, label %179 [
    i8 43, label %423
    i8 45, label %427
    i8 61, label %431
    i8 62, label %435
    i8 123, label %439
    i8 126, label %444
  ]

179:                                              ; preds = %226, %176
  br label %843

180:                                              ; preds = %76, %180
  %181 = load i8*, i8** %3, align 8, !tbaa !5
  %182 = getelementptr inbounds i8, i8* %181, i64 1
  store i8* %182, i8** %3, align 8, !tbaa !5
  %183 = load i8, i8* %182, align 1, !tbaa !11
  %184 = icmp eq i8 %183, 124
  br i1 %184, label %180, label %843

185:                                              ; preds = %76
  %186 = getelementptr inbounds i8, i8* %74, i64 1
  store i8* %186, i8** %3, align 8, !tbaa !5
  %187 = load i8, i8* %186, align 1, !tbaa !11
  %188 = icmp eq i8 %187, 125
  br i1 %188, label %448, label %843

189:                                              ; preds = %76
  %190 = getelementptr inbounds i8, i8* %74, i64 1
  store i8* %190, i8** %3, align 8, !tbaa !5
  store i8* %190, i8** %7, align 8, !tbaa !12
  %191 = load i8, i8* %190, align 1, !tbaa !11
  switch i8 %191, label %192 [
    i8 62, label %450
    i8 126, label %452
  ]

192:                                              ; preds = %226, %189
  br label %843

193:                                              ; preds = %76
  %194 = getelementptr inbounds i8, i8* %74, i64 1
  store i8* %194, i8** %3, align 8, !tbaa !5
  store i8* %194, i8** %6, align 8, !tbaa !12
  %195 = load i8, i8* %194, align 1, !tbaa !11
  %196 = icmp eq i8 %195, -96
  br i1 %196, label %456, label %843

197:                                              ; preds = %76
  %198 = getelementptr inbounds i8, i8* %74, i64 1
  store i8* %198, i8** %3, align 8, !tbaa !5
  store i8* %198, i8** %5, align 8, !tbaa !12
  %199 = load i8, i8* %198, align 1, !tbaa !11
  %200 = icmp eq i8 %199, -65
  br i1 %200, label %459, label %843

201:                                              ; preds = %88, %82
  %202 = load i8*, i8** %3, align 8, !tbaa !5
  %203 = getelementptr inbounds i8, i8* %202, i64 1
  store i8* %203, i8** %3, align 8, !tbaa !5
  %204 = load i8, i8* %203, align 1, !tbaa !11
  switch i8 %204, label %226 [
    i8 0, label %205
    i8 1, label %205
    i8 2, label %205
    i8 3, label %205
    i8 4, label %205
    i8 5, label %205
    i8 6, label %205
    i8 7, label %205
    i8 8, label %205
    i8 11, label %205
    i8 12, label %205
    i8 14, label %205
    i8 15, label %205
    i8 16, label %205
    i8 17, label %205
    i8 18, label %205
    i8 19, label %205
    i8 20, label %205
    i8 21, label %205
    i8 22, label %205
    i8 23, label %205
    i8 24, label %205
    i8 25, label %205
    i8 26, label %205
    i8 27, label %205
    i8 28, label %205
    i8 29, label %205
    i8 30, label %205
    i8 31, label %205
    i8 33, label %205
    i8 34, label %205
    i8 35, label %205
    i8 36, label %205
    i8 37, label %205
    i8 38, label %205
    i8 39, label %205
    i8 40, label %205
    i8 41, label %205
    i8 42, label %205
    i8 43, label %205
    i8 44, label %205
    i8 45, label %205
    i8 46, label %205
    i8 47, label %205
    i8 48, label %205
    i8 49, label %205
    i8 50, label %205
    i8 51, label %205
    i8 52, label %205
    i8 53, label %205
    i8 54, label %205
    i8 55, label %205
    i8 56, label %205
    i8 57, label %205
    i8 58, label %205
    i8 59, label %205
    i8 60, label %205
    i8 61, label %205
    i8 62, label %205
    i8 63, label %205
    i8 64, label %205
    i8 65, label %205
    i8 66, label %205
    i8 67, label %205
    i8 68, label %205
    i8 69, label %205
    i8 70, label %205
    i8 71, label %205
    i8 72, label %205
    i8 73, label %205
    i8 74, label %205
    i8 75, label %205
    i8 76, label %205
    i8 77, label %205
    i8 78, label %205
    i8 79, label %205
    i8 80, label %205
    i8 81, label %205
    i8 82, label %205
    i8 83, label %205
    i8 84, label %205
    i8 85, label %205
    i8 86, label %205
    i8 87, label %205
    i8 88, label %205
    i8 89, label %205
    i8 90, label %205
    i8 91, label %205
    i8 92, label %205
    i8 93, label %205
    i8 94, label %205
    i8 95, label %205
    i8 96, label %205
    i8 97, label %205
    i8 98, label %205
    i8 99, label %205
    i8 100, label %205
    i8 101, label %205
    i8 102, label %205
    i8 103, label %205
    i8 104, label %205
    i8 105, label %205
    i8 106, label %205
    i8 107, label %205
    i8 108, label %205
    i8 109, label %205
    i8 110, label %205
    i8 111, label %205
    i8 112, label %205
    i8 113, label %205
    i8 114, label %205
    i8 115, label %205
    i8 116, label %205
    i8 117, label %205
    i8 118, label %205
    i8 119, label %205
    i8 120, label %205
    i8 121, label %205
    i8 122, label %205
    i8 123, label %205
    i8 124, label %205
    i8 125, label %205
    i8 126, label %205
    i8 127, label %205
    i8 -62, label %206
    i8 -61, label %206
    i8 -60, label %206
    i8 -59, label %206
    i8 -58, label %206
    i8 -57, label %206
    i8 -56, label %206
    i8 -55, label %206
    i8 -54, label %206
    i8 -53, label %206
    i8 -52, label %206
    i8 -51, label %206
    i8 -50, label %206
    i8 -49, label %206
    i8 -48, label %206
    i8 -47, label %206
    i8 -46, label %206
    i8 -45, label %206
    i8 -44, label %206
    i8 -43, label %206
    i8 -42, label %206
    i8 -41, label %206
    i8 -40, label %206
    i8 -39, label %206
    i8 -38, label %206
    i8 -37, label %206
    i8 -36, label %206
    i8 -35, label %206
    i8 -34, label %206
    i8 -33, label %206
    i8 -32, label %207
    i8 -31, label %212
    i8 -30, label %212
    i8 -29, label %212
    i8 -28, label %212
    i8 -27, label %212
    i8 -26, label %212
    i8 -25, label %212
    i8 -24, label %212
    i8 -23, label %212
    i8 -22, label %212
    i8 -21, label %212
    i8 -20, label %212
    i8 -19, label %212
    i8 -18, label %212
    i8 -17, label %212
    i8 -16, label %213
    i8 -15, label %218
    i8 -14, label %218
    i8 -13, label %218
    i8 -12, label %222
  ]

205:                                              ; preds = %201, %201, %201, %201, %201, %201, %201, %201, %201, %201, %201, %201, %201, %201, %201, %201, %201, %201, %201, %201, %201, %201, %201, %201, %201, %201, %201, %201, %201, %201, %201, %201, %201, %201, %201, %201, %201, %201, %201, %201, %201, %201, %201, %201, %201, %201, %201, %201, %201, %201, %201, %201, %201, %201, %201, %201, %201, %201, %201, %201, %201, %201, %201, %201, %201, %201, %201, %201, %201, %201, %201, %201, %201, %201, %201, %201, %201, %201, %201, %201, %201, %201, %201, %201, %201, %201, %201, %201, %201, %201, %201, %201, %201, %201, %201, %201, %201, %201, %201, %201, %201, %201, %201, %201, %201, %201, %201, %201, %201, %201, %201, %201, %201, %201, %201, %201, %201, %201, %201, %201, %201, %201, %201, %201
  store i8* %203, i8** %68, align 8, !tbaa !13
  br label %463

206:                                              ; preds = %201, %201, %201, %201, %201, %201, %201, %201, %201, %201, %201, %201, %201, %201, %201, %201, %201, %201, %201, %201, %201, %201, %201, %201, %201, %201, %201, %201, %201, %201
  store i8* %203, i8** %67, align 8, !tbaa !13
  br label %467

207:                                              ; preds = %201
  store i8* %203, i8** %66, align 8, !tbaa !13
  %208 = getelementptr inbounds i8, i8* %202, i64 2
  store i8* %208, i8** %3, align 8, !tbaa !5
  %209 = load i8, i8* %208, align 1, !tbaa !11
  %210 = and i8 %209, -32
  %211 = icmp eq i8 %210, -96
  br i1 %211, label %467, label %226

212:                                              ; preds = %201, %201, %201, %201, %201, %201, %201, %201, %201, %201, %201, %201, %201, %201, %201
  store i8* %203, i8** %65, align 8, !tbaa !13
  br label %472

213:                                              ; preds = %201
  store i8* %203, i8** %64, align 8, !tbaa !13
  %214 = getelementptr inbounds i8, i8* %202, i64 2
  store i8* %214, i8** %3, align 8, !tbaa !5
  %215 = load i8, i8* %214, align 1, !tbaa !11
  %216 = add i8 %215, 112
  %217 = icmp ult i8 %216, 48
  br i1 %217, label %472, label %226

218:                                              ; preds = %201, %201, %201
  store i8* %203, i8** %63, align 8, !tbaa !13
  %219 = getelementptr inbounds i8, i8* %202, i64 2
  store i8* %219, i8** %3, align 8, !tbaa !5
  %220 = load i8, i8* %219, align 1, !tbaa !11
  %221 = icmp slt i8 %220, -64
  br i1 %221, label %472, label %226

222:                                              ; preds = %201
  store i8* %203, i8** %62, align 8, !tbaa !13
  %223 = getelementptr inbounds i8, i8* %202, i64 2
  store i8* %223, i8** %3, align 8, !tbaa !5
  %224 = load i8, i8* %223, align 1, !tbaa !11
  %225 = icmp slt i8 %224, -112
  br i1 %225, label %472, label %226

226:                                              ; preds = %322, %671, %525, %705, %822, %785, %700, %695, %626, %622, %617, %611, %472, %467, %222, %218, %213, %207, %837, %831, %827, %817, %810, %790, %778, %771, %752, %738, %731, %709, %687, %681, %662, %655, %635, %605, %595, %571, %564, %548, %530, %518, %511, %491, %459, %456, %452, %444, %435, %427, %423, %335, %331, %327, %311, %307, %303, %296, %289, %281, %272, %265, %242, %201
  %227 = phi i32 [ 1, %459 ], [ 1, %456 ], [ 12, %605 ], [ 12, %626 ], [ 12, %700 ], [ 12, %695 ], [ 12, %622 ], [ 12, %617 ], [ 12, %611 ], [ 15, %709 ], [ 9, %635 ], [ 9, %491 ], [ 1, %242 ], [ 8, %452 ], [ 7, %444 ], [ 11, %752 ], [ 11, %790 ], [ 11, %785 ], [ 11, %817 ], [ 11, %827 ], [ 11, %822 ], [ 11, %837 ], [ 11, %831 ], [ 11, %687 ], [ 11, %595 ], [ 7, %435 ], [ 7, %427 ], [ 7, %423 ], [ 6, %335 ], [ 5, %331 ], [ 5, %571 ], [ 5, %327 ], [ 1, %311 ], [ %565, %564 ], [ 1, %307 ], [ 1, %681 ], [ 1, %548 ], [ 1, %303 ], [ 4, %296 ], [ 3, %289 ], [ 3, %281 ], [ 3, %530 ], [ %273, %272 ], [ 2, %265 ], [ %519, %518 ], [ 2, %511 ], [ %663, %662 ], [ 2, %655 ], [ %739, %738 ], [ 2, %731 ], [ %779, %778 ], [ 2, %771 ], [ %811, %810 ], [ 0, %201 ], [ 0, %222 ], [ 0, %472 ], [ 0, %467 ], [ 0, %218 ], [ 0, %213 ], [ 0, %207 ], [ 15, %705 ], [ 3, %525 ], [ 3, %671 ], [ 1, %322 ]
  %228 = load i8*, i8** %70, align 8, !tbaa !12
  store i8* %228, i8** %3, align 8, !tbaa !5
  switch i32 %227, label %804 [
    i32 0, label %87
    i32 1, label %843
    i32 2, label %107
    i32 3, label %117
    i32 4, label %132
    i32 5, label %151
    i32 6, label %156
    i32 7, label %179
    i32 8, label %192
    i32 9, label %241
    i32 10, label %259
    i32 11, label %443
    i32 12, label %482
    i32 13, label %505
    i32 14, label %559
    i32 15, label %634
    i32 16, label %649
    i32 17, label %725
    i32 18, label %765
  ]

229:                                              ; preds = %456, %91
  br label %843

230:                                              ; preds = %233, %91
  %231 = load i8*, i8** %3, align 8, !tbaa !5
  %232 = getelementptr inbounds i8, i8* %231, i64 1
  store i8* %232, i8** %3, align 8, !tbaa !5
  br label %87

233:                                              ; preds = %91
  %234 = getelementptr inbounds i8, i8* %74, i64 2
  store i8* %234, i8** %3, align 8, !tbaa !5
  %235 = load i8, i8* %234, align 1, !tbaa !11
  %236 = icmp eq i8 %235, 10
  br i1 %236, label %230, label %87

237:                                              ; preds = %456, %242, %91
  %238 = load i8*, i8** %3, align 8, !tbaa !5
  %239 = getelementptr inbounds i8, i8* %238, i64 1
  store i8* %239, i8** %3, align 8, !tbaa !5
  store i8* %239, i8** %51, align 8, !tbaa !12
  %240 = load i8, i8* %239, align 1, !tbaa !11
  switch i8 %240, label %241 [
    i8 10, label %477
    i8 13, label %483
    i8 32, label %487
    i8 -62, label %491
  ]

241:                                              ; preds = %487, %237, %226
  br label %843

242:                                              ; preds = %456, %91
  %243 = load i8*, i8** %3, align 8, !tbaa !5
  %244 = getelementptr inbounds i8, i8* %243, i64 1
  store i8* %244, i8** %3, align 8, !tbaa !5
  %245 = load i8, i8* %244, align 1, !tbaa !11
  %246 = icmp eq i8 %245, -96
  br i1 %246, label %237, label %226

247:                                              ; preds = %94
  %248 = getelementptr inbounds i8, i8* %74, i64 2
  store i8* %248, i8** %3, align 8, !tbaa !5
  br label %843

249:                                              ; preds = %254, %254, %260, %103
  %250 = load i8*, i8** %3, align 8, !tbaa !5
  %251 = getelementptr inbounds i8, i8* %250, i64 1
  store i8* %251, i8** %3, align 8, !tbaa !5
  br label %252

252:                                              ; preds = %260, %249
  %253 = load i8*, i8** %49, align 8, !tbaa !13
  store i8* %253, i8** %3, align 8, !tbaa !5
  br label %843

254:                                              ; preds = %258, %278
  %255 = load i8*, i8** %3, align 8, !tbaa !5
  %256 = getelementptr inbounds i8, i8* %255, i64 1
  store i8* %256, i8** %3, align 8, !tbaa !5
  store i8* %256, i8** %19, align 8, !tbaa !12
  %257 = load i8, i8* %256, align 1, !tbaa !11
  switch i8 %257, label %259 [
    i8 0, label %249
    i8 10, label %249
    i8 9, label %258
    i8 32, label %258
    i8 13, label %260
    i8 -62, label %272
  ]

258:                                              ; preds = %254, %254
  br label %254

259:                                              ; preds = %254, %226
  br label %843

260:                                              ; preds = %254, %105
  %261 = load i8*, i8** %3, align 8, !tbaa !5
  %262 = getelementptr inbounds i8, i8* %261, i64 1
  store i8* %262, i8** %3, align 8, !tbaa !5
  %263 = load i8, i8* %262, align 1, !tbaa !11
  %264 = icmp eq i8 %263, 10
  br i1 %264, label %249, label %252

265:                                              ; preds = %100
  %266 = getelementptr inbounds i8, i8* %74, i64 2
  store i8* %266, i8** %3, align 8, !tbaa !5
  %267 = load i8, i8* %266, align 1, !tbaa !11
  switch i8 %267, label %226 [
    i8 0, label %268
    i8 10, label %268
    i8 9, label %269
    i8 32, label %269
    i8 13, label %270
    i8 35, label %511
    i8 -62, label %271
  ]

268:                                              ; preds = %265, %265
  store i8* %266, i8** %44, align 8, !tbaa !13
  br label %495

269:                                              ; preds = %265, %265
  store i8* %266, i8** %43, align 8, !tbaa !13
  br label %524

270:                                              ; preds = %265
  store i8* %266, i8** %42, align 8, !tbaa !13
  br label %506

271:                                              ; preds = %265
  store i8* %266, i8** %21, align 8, !tbaa !13
  br label %518

272:                                              ; preds = %254, %106
  %273 = phi i32 [ 2, %106 ], [ 10, %254 ]
  %274 = load i8*, i8** %3, align 8, !tbaa !5
  %275 = getelementptr inbounds i8, i8* %274, i64 1
  store i8* %275, i8** %3, align 8, !tbaa !5
  %276 = load i8, i8* %275, align 1, !tbaa !11
  %277 = icmp eq i8 %276, -96
  br i1 %277, label %278, label %226

278:                                              ; preds = %104, %272
  br label %254

279:                                              ; preds = %108
  %280 = getelementptr inbounds i8, i8* %74, i64 2
  store i8* %280, i8** %3, align 8, !tbaa !5
  br label %843

281:                                              ; preds = %114
  %282 = getelementptr inbounds i8, i8* %74, i64 2
  store i8* %282, i8** %3, align 8, !tbaa !5
  %283 = load i8, i8* %282, align 1, !tbaa !11
  switch i8 %283, label %226 [
    i8 48, label %284
    i8 49, label %284
    i8 50, label %284
    i8 51, label %284
    i8 52, label %284
    i8 53, label %284
    i8 54, label %284
    i8 55, label %284
    i8 56, label %284
    i8 57, label %284
    i8 88, label %530
    i8 120, label %530
  ]

284:                                              ; preds = %281, %281, %281, %281, %281, %281, %281, %281, %281, %281
  br label %525

285:                                              ; preds = %289, %289, %289, %289, %289, %289, %289, %289, %289, %289, %289, %289, %289, %289, %289, %289, %289, %289, %289, %289, %289, %289, %289, %289, %289, %289, %289, %289, %289, %289, %289, %289, %289, %289, %289, %289, %289, %289, %289, %289, %289, %289, %289, %289, %289, %289, %289, %289, %289, %289, %289, %289, %289, %289, %289, %289, %289, %289, %289, %289, %289, %289, %114, %114, %114, %114, %114, %114, %114, %114, %114, %114, %114, %114, %114, %114, %114, %114, %114, %114, %114, %114, %114, %114, %114, %114, %114, %114, %114, %114, %114, %114, %114, %114, %114, %114, %114, %114, %114, %114, %114, %114, %114, %114, %114, %114, %114, %114, %114, %114, %114, %114, %114, %114, %114, %114, %114, %114, %114, %114, %114, %114
  %286 = load i8*, i8** %3, align 8, !tbaa !5
  %287 = getelementptr inbounds i8, i8* %286, i64 1
  store i8* %287, i8** %3, align 8, !tbaa !5
  %288 = load i8, i8* %287, align 1, !tbaa !11
  br label %289

289:                                              ; preds = %677, %537, %291, %285
  %290 = phi i8 [ %293, %291 ], [ %288, %285 ], [ %539, %537 ], [ %679, %677 ]
  switch i8 %290, label %226 [
    i8 48, label %285
    i8 49, label %285
    i8 50, label %285
    i8 51, label %285
    i8 52, label %285
    i8 53, label %285
    i8 54, label %285
    i8 55, label %285
    i8 56, label %285
    i8 57, label %285
    i8 65, label %285
    i8 66, label %285
    i8 67, label %285
    i8 68, label %285
    i8 69, label %285
    i8 70, label %285
    i8 71, label %285
    i8 72, label %285
    i8 73, label %285
    i8 74, label %285
    i8 75, label %285
    i8 76, label %285
    i8 77, label %285
    i8 78, label %285
    i8 79, label %285
    i8 80, label %285
    i8 81, label %285
    i8 82, label %285
    i8 83, label %285
    i8 84, label %285
    i8 85, label %285
    i8 86, label %285
    i8 87, label %285
    i8 88, label %285
    i8 89, label %285
    i8 90, label %285
    i8 97, label %285
    i8 98, label %285
    i8 99, label %285
    i8 100, label %285
    i8 101, label %285
    i8 102, label %285
    i8 103, label %285
    i8 104, label %285
    i8 105, label %285
    i8 106, label %285
    i8 107, label %285
    i8 108, label %285
    i8 109, label %285
    i8 110, label %285
    i8 111, label %285
    i8 112, label %285
    i8 113, label %285
    i8 114, label %285
    i8 115, label %285
    i8 116, label %285
    i8 117, label %285
    i8 118, label %285
    i8 119, label %285
    i8 120, label %285
    i8 121, label %285
    i8 122, label %285
    i8 59, label %534
  ]

291:                                              ; preds = %114, %114
  %292 = getelementptr inbounds i8, i8* %74, i64 2
  store i8* %292, i8** %3, align 8, !tbaa !5
  %293 = load i8, i8* %292, align 1, !tbaa !11
  switch i8 %293, label %289 [
    i8 77, label %537
    i8 109, label %537
  ]

294:                                              ; preds = %118
  %295 = getelementptr inbounds i8, i8* %74, i64 2
  store i8* %295, i8** %3, align 8, !tbaa !5
  br label %843

296:                                              ; preds = %128
  %297 = getelementptr inbounds i8, i8* %74, i64 2
  store i8* %297, i8** %3, align 8, !tbaa !5
  %298 = load i8, i8* %297, align 1, !tbaa !11
  %299 = icmp eq i8 %298, 125
  br i1 %299, label %540, label %226

300:                                              ; preds = %133
  %301 = getelementptr inbounds i8, i8* %74, i64 2
  store i8* %301, i8** %3, align 8, !tbaa !5
  %302 = load i8, i8* %301, align 1, !tbaa !11
  switch i8 %302, label %843 [
    i8 45, label %542
    i8 62, label %544
    i8 125, label %546
  ]

303:                                              ; preds = %137
  %304 = getelementptr inbounds i8, i8* %74, i64 2
  store i8* %304, i8** %3, align 8, !tbaa !5
  %305 = load i8, i8* %304, align 1, !tbaa !11
  %306 = icmp eq i8 %305, 46
  br i1 %306, label %548, label %226

307:                                              ; preds = %137
  %308 = getelementptr inbounds i8, i8* %74, i64 2
  store i8* %308, i8** %3, align 8, !tbaa !5
  %309 = load i8, i8* %308, align 1, !tbaa !11
  %310 = icmp eq i8 %309, 46
  br i1 %310, label %552, label %226

311:                                              ; preds = %322, %142
  %312 = load i8*, i8** %3, align 8, !tbaa !5
  %313 = getelementptr inbounds i8, i8* %312, i64 1
  store i8* %313, i8** %3, align 8, !tbaa !5
  %314 = load i8, i8* %313, align 1, !tbaa !11
  switch i8 %314, label %226 [
    i8 9, label %315
    i8 32, label %315
    i8 10, label %316
    i8 13, label %317
    i8 -62, label %321
  ]

315:                                              ; preds = %311, %311
  store i8* %313, i8** %15, align 8, !tbaa !13
  br label %570

316:                                              ; preds = %311
  store i8* %313, i8** %14, align 8, !tbaa !13
  br label %561

317:                                              ; preds = %311
  store i8* %313, i8** %13, align 8, !tbaa !13
  %318 = getelementptr inbounds i8, i8* %312, i64 2
  store i8* %318, i8** %3, align 8, !tbaa !5
  %319 = load i8, i8* %318, align 1, !tbaa !11
  %320 = icmp eq i8 %319, 10
  br i1 %320, label %561, label %559

321:                                              ; preds = %311
  store i8* %313, i8** %12, align 8, !tbaa !13
  br label %564

322:                                              ; preds = %326, %145
  %323 = load i8*, i8** %3, align 8, !tbaa !5
  %324 = getelementptr inbounds i8, i8* %323, i64 1
  store i8* %324, i8** %3, align 8, !tbaa !5
  %325 = load i8, i8* %324, align 1, !tbaa !11
  switch i8 %325, label %226 [
    i8 46, label %311
    i8 48, label %326
    i8 49, label %326
    i8 50, label %326
    i8 51, label %326
    i8 52, label %326
    i8 53, label %326
    i8 54, label %326
    i8 55, label %326
    i8 56, label %326
    i8 57, label %326
  ]

326:                                              ; preds = %322, %322, %322, %322, %322, %322, %322, %322, %322, %322
  br label %322

327:                                              ; preds = %148
  %328 = getelementptr inbounds i8, i8* %74, i64 2
  store i8* %328, i8** %3, align 8, !tbaa !5
  %329 = load i8, i8* %328, align 1, !tbaa !11
  %330 = icmp eq i8 %329, 45
  br i1 %330, label %571, label %226

331:                                              ; preds = %148
  %332 = getelementptr inbounds i8, i8* %74, i64 2
  store i8* %332, i8** %3, align 8, !tbaa !5
  %333 = load i8, i8* %332, align 1, !tbaa !11
  %334 = icmp eq i8 %333, 125
  br i1 %334, label %575, label %226

335:                                              ; preds = %152
  %336 = getelementptr inbounds i8, i8* %74, i64 2
  store i8* %336, i8** %3, align 8, !tbaa !5
  %337 = load i8, i8* %336, align 1, !tbaa !11
  %338 = icmp eq i8 %337, 125
  br i1 %338, label %577, label %226

339:                                              ; preds = %159
  %340 = getelementptr inbounds i8, i8* %74, i64 2
  store i8* %340, i8** %3, align 8, !tbaa !5
  br label %843

341:                                              ; preds = %159
  %342 = getelementptr inbounds i8, i8* %74, i64 2
  store i8* %342, i8** %3, align 8, !tbaa !5
  br label %843

343:                                              ; preds = %159
  %344 = getelementptr inbounds i8, i8* %74, i64 2
  store i8* %344, i8** %3, align 8, !tbaa !5
  br label %843

345:                                              ; preds = %159
  %346 = getelementptr inbounds i8, i8* %74, i64 2
  store i8* %346, i8** %3, align 8, !tbaa !5
  br label %843

347:                                              ; preds = %159
  %348 = getelementptr inbounds i8, i8* %74, i64 2
  store i8* %348, i8** %3, align 8, !tbaa !5
  br label %843

349:                                              ; preds = %352, %162
  %350 = load i8*, i8** %3, align 8, !tbaa !5
  %351 = getelementptr inbounds i8, i8* %350, i64 1
  store i8* %351, i8** %3, align 8, !tbaa !5
  br label %843

352:                                              ; preds = %162
  %353 = getelementptr inbounds i8, i8* %74, i64 2
  store i8* %353, i8** %3, align 8, !tbaa !5
  %354 = load i8, i8* %353, align 1, !tbaa !11
  %355 = icmp eq i8 %354, 10
  br i1 %355, label %349, label %843

356:                                              ; preds = %162
  %357 = getelementptr inbounds i8, i8* %74, i64 2
  store i8* %357, i8** %3, align 8, !tbaa !5
  br label %843

358:                                              ; preds = %162
  %359 = getelementptr inbounds i8, i8* %74, i64 2
  store i8* %359, i8** %3, align 8, !tbaa !5
  br label %843

360:                                              ; preds = %162
  %361 = getelementptr inbounds i8, i8* %74, i64 2
  store i8* %361, i8** %3, align 8, !tbaa !5
  br label %843

362:                                              ; preds = %162
  %363 = getelementptr inbounds i8, i8* %74, i64 2
  store i8* %363, i8** %3, align 8, !tbaa !5
  br label %843

364:                                              ; preds = %162
  %365 = getelementptr inbounds i8, i8* %74, i64 2
  store i8* %365, i8** %3, align 8, !tbaa !5
  br label %843

366:                                              ; preds = %162
  %367 = getelementptr inbounds i8, i8* %74, i64 2
  store i8* %367, i8** %3, align 8, !tbaa !5
  br label %843

368:                                              ; preds = %162
  %369 = getelementptr inbounds i8, i8* %74, i64 2
  store i8* %369, i8** %3, align 8, !tbaa !5
  br label %843

370:                                              ; preds = %162
  %371 = getelementptr inbounds i8, i8* %74, i64 2
  store i8* %371, i8** %3, align 8, !tbaa !5
  br label %843

372:                                              ; preds = %162
  %373 = getelementptr inbounds i8, i8* %74, i64 2
  store i8* %373, i8** %3, align 8, !tbaa !5
  br label %843

374:                                              ; preds = %162
  %375 = getelementptr inbounds i8, i8* %74, i64 2
  store i8* %375, i8** %3, align 8, !tbaa !5
  br label %843

376:                                              ; preds = %162
  %377 = getelementptr inbounds i8, i8* %74, i64 2
  store i8* %377, i8** %3, align 8, !tbaa !5
  br label %843

378:                                              ; preds = %162
  %379 = getelementptr inbounds i8, i8* %74, i64 2
  store i8* %379, i8** %3, align 8, !tbaa !5
  br label %843

380:                                              ; preds = %162
  %381 = getelementptr inbounds i8, i8* %74, i64 2
  store i8* %381, i8** %3, align 8, !tbaa !5
  br label %843

382:                                              ; preds = %162
  %383 = getelementptr inbounds i8, i8* %74, i64 2
  store i8* %383, i8** %3, align 8, !tbaa !5
  br label %843

384:                                              ; preds = %162
  %385 = getelementptr inbounds i8, i8* %74, i64 2
  store i8* %385, i8** %3, align 8, !tbaa !5
  br label %843

386:                                              ; preds = %162
  %387 = getelementptr inbounds i8, i8* %74, i64 2
  store i8* %387, i8** %3, align 8, !tbaa !5
  br label %843

388:                                              ; preds = %162
  %389 = getelementptr inbounds i8, i8* %74, i64 2
  store i8* %389, i8** %3, align 8, !tbaa !5
  br label %843

390:                                              ; preds = %162
  %391 = getelementptr inbounds i8, i8* %74, i64 2
  store i8* %391, i8** %3, align 8, !tbaa !5
  br label %843

392:                                              ; preds = %162
  %393 = getelementptr inbounds i8, i8* %74, i64 2
  store i8* %393, i8** %3, align 8, !tbaa !5
  br label %843

394:                                              ; preds = %162
  %395 = getelementptr inbounds i8, i8* %74, i64 2
  store i8* %395, i8** %3, align 8, !tbaa !5
  br label %843

396:                                              ; preds = %162
  %397 = getelementptr inbounds i8, i8* %74, i64 2
  store i8* %397, i8** %3, align 8, !tbaa !5
  br label %843

398:                                              ; preds = %162
  %399 = getelementptr inbounds i8, i8* %74, i64 2
  store i8* %399, i8** %3, align 8, !tbaa !5
  br label %843

400:                                              ; preds = %162
  %401 = getelementptr inbounds i8, i8* %74, i64 2
  store i8* %401, i8** %3, align 8, !tbaa !5
  br label %843

402:                                              ; preds = %162
  %403 = getelementptr inbounds i8, i8* %74, i64 2
  store i8* %403, i8** %3, align 8, !tbaa !5
  br label %843

404:                                              ; preds = %162
  %405 = getelementptr inbounds i8, i8* %74, i64 2
  store i8* %405, i8** %3, align 8, !tbaa !5
  %406 = load i8, i8* %405, align 1, !tbaa !11
  switch i8 %406, label %843 [
    i8 40, label %579
    i8 41, label %581
    i8 91, label %583
    i8 93, label %585
  ]

407:                                              ; preds = %162
  %408 = getelementptr inbounds i8, i8* %74, i64 2
  store i8* %408, i8** %3, align 8, !tbaa !5
  br label %843

409:                                              ; preds = %162
  %410 = getelementptr inbounds i8, i8* %74, i64 2
  store i8* %410, i8** %3, align 8, !tbaa !5
  br label %843

411:                                              ; preds = %162
  %412 = getelementptr inbounds i8, i8* %74, i64 2
  store i8* %412, i8** %3, align 8, !tbaa !5
  br label %843

413:                                              ; preds = %162
  %414 = getelementptr inbounds i8, i8* %74, i64 2
  store i8* %414, i8** %3, align 8, !tbaa !5
  br label %843

415:                                              ; preds = %162
  %416 = getelementptr inbounds i8, i8* %74, i64 2
  store i8* %416, i8** %3, align 8, !tbaa !5
  br label %843

417:                                              ; preds = %162
  %418 = getelementptr inbounds i8, i8* %74, i64 2
  store i8* %418, i8** %3, align 8, !tbaa !5
  br label %843

419:                                              ; preds = %162
  %420 = getelementptr inbounds i8, i8* %74, i64 2
  store i8* %420, i8** %3, align 8, !tbaa !5
  br label %843

421:                                              ; preds = %162
  %422 = getelementptr inbounds i8, i8* %74, i64 2
  store i8* %422, i8** %3, align 8, !tbaa !5
  br label %843

423:                                              ; preds = %176
  %424 = getelementptr inbounds i8, i8* %74, i64 2
  store i8* %424, i8** %3, align 8, !tbaa !5
  %425 = load i8, i8* %424, align 1, !tbaa !11
  %426 = icmp eq i8 %425, 43
  br i1 %426, label %587, label %226

427:                                              ; preds = %176
  %428 = getelementptr inbounds i8, i8* %74, i64 2
  store i8* %428, i8** %3, align 8, !tbaa !5
  %429 = load i8, i8* %428, align 1, !tbaa !11
  %430 = icmp eq i8 %429, 45
  br i1 %430, label %589, label %226

431:                                              ; preds = %176
  %432 = getelementptr inbounds i8, i8* %74, i64 2
  store i8* %432, i8** %3, align 8, !tbaa !5
  %433 = load i8, i8* %432, align 1, !tbaa !11
  %434 = icmp eq i8 %433, 61
  br i1 %434, label %591, label %843

435:                                              ; preds = %176
  %436 = getelementptr inbounds i8, i8* %74, i64 2
  store i8* %436, i8** %3, align 8, !tbaa !5
  %437 = load i8, i8* %436, align 1, !tbaa !11
  %438 = icmp eq i8 %437, 62
  br i1 %438, label %593, label %226

439:                                              ; preds = %176
  %440 = getelementptr inbounds i8, i8* %74, i64 2
  store i8* %440, i8** %3, align 8, !tbaa !5
  store i8* %440, i8** %8, align 8, !tbaa !12
  %441 = load i8, i8* %440, align 1, !tbaa !11
  %442 = icmp eq i8 %441, 84
  br i1 %442, label %595, label %443

443:                                              ; preds = %439, %226
  br label %843

444:                                              ; preds = %176
  %445 = getelementptr inbounds i8, i8* %74, i64 2
  store i8* %445, i8** %3, align 8, !tbaa !5
  %446 = load i8, i8* %445, align 1, !tbaa !11
  %447 = icmp eq i8 %446, 126
  br i1 %447, label %599, label %226

448:                                              ; preds = %185
  %449 = getelementptr inbounds i8, i8* %74, i64 2
  store i8* %449, i8** %3, align 8, !tbaa !5
  br label %843

450:                                              ; preds = %189
  %451 = getelementptr inbounds i8, i8* %74, i64 2
  store i8* %451, i8** %3, align 8, !tbaa !5
  br label %843

452:                                              ; preds = %189
  %453 = getelementptr inbounds i8, i8* %74, i64 2
  store i8* %453, i8** %3, align 8, !tbaa !5
  %454 = load i8, i8* %453, align 1, !tbaa !11
  %455 = icmp eq i8 %454, 125
  br i1 %455, label %601, label %226

456:                                              ; preds = %193
  %457 = getelementptr inbounds i8, i8* %74, i64 2
  store i8* %457, i8** %3, align 8, !tbaa !5
  %458 = load i8, i8* %457, align 1, !tbaa !11
  switch i8 %458, label %226 [
    i8 9, label %229
    i8 32, label %237
    i8 -62, label %242
  ]

459:                                              ; preds = %197
  %460 = getelementptr inbounds i8, i8* %74, i64 2
  store i8* %460, i8** %3, align 8, !tbaa !5
  %461 = load i8, i8* %460, align 1, !tbaa !11
  %462 = icmp eq i8 %461, -68
  br i1 %462, label %603, label %226

463:                                              ; preds = %467, %205
  %464 = load i8*, i8** %3, align 8, !tbaa !5
  %465 = getelementptr inbounds i8, i8* %464, i64 1
  store i8* %465, i8** %3, align 8, !tbaa !5
  %466 = load i8*, i8** %69, align 8, !tbaa !13
  store i8* %466, i8** %3, align 8, !tbaa !5
  br label %843

467:                                              ; preds = %472, %207, %206
  %468 = load i8*, i8** %3, align 8, !tbaa !5
  %469 = getelementptr inbounds i8, i8* %468, i64 1
  store i8* %469, i8** %3, align 8, !tbaa !5
  %470 = load i8, i8* %469, align 1, !tbaa !11
  %471 = icmp slt i8 %470, -64
  br i1 %471, label %463, label %226

472:                                              ; preds = %222, %218, %213, %212
  %473 = load i8*, i8** %3, align 8, !tbaa !5
  %474 = getelementptr inbounds i8, i8* %473, i64 1
  store i8* %474, i8** %3, align 8, !tbaa !5
  %475 = load i8, i8* %474, align 1, !tbaa !11
  %476 = icmp slt i8 %475, -64
  br i1 %476, label %467, label %226

477:                                              ; preds = %705, %630, %487, %483, %237
  %478 = load i8*, i8** %3, align 8, !tbaa !5
  %479 = getelementptr inbounds i8, i8* %478, i64 1
  store i8* %479, i8** %3, align 8, !tbaa !5
  store i8* %479, i8** %51, align 8, !tbaa !12
  %480 = load i8, i8* %479, align 1, !tbaa !11
  %481 = icmp eq i8 %480, 32
  br i1 %481, label %605, label %482

482:                                              ; preds = %483, %477, %226
  br label %843

483:                                              ; preds = %705, %630, %487, %237
  %484 = load i8*, i8** %3, align 8, !tbaa !5
  %485 = getelementptr inbounds i8, i8* %484, i64 1
  store i8* %485, i8** %3, align 8, !tbaa !5
  store i8* %485, i8** %51, align 8, !tbaa !12
  %486 = load i8, i8* %485, align 1, !tbaa !11
  switch i8 %486, label %482 [
    i8 10, label %477
    i8 32, label %605
  ]

487:                                              ; preds = %491, %237
  %488 = load i8*, i8** %3, align 8, !tbaa !5
  %489 = getelementptr inbounds i8, i8* %488, i64 1
  store i8* %489, i8** %3, align 8, !tbaa !5
  store i8* %489, i8** %51, align 8, !tbaa !12
  %490 = load i8, i8* %489, align 1, !tbaa !11
  switch i8 %490, label %241 [
    i8 10, label %477
    i8 13, label %483
    i8 32, label %630
    i8 -62, label %635
  ]

491:                                              ; preds = %237
  %492 = getelementptr inbounds i8, i8* %238, i64 2
  store i8* %492, i8** %3, align 8, !tbaa !5
  %493 = load i8, i8* %492, align 1, !tbaa !11
  %494 = icmp eq i8 %493, -96
  br i1 %494, label %487, label %226

495:                                              ; preds = %500, %500, %506, %268
  %496 = load i8*, i8** %3, align 8, !tbaa !5
  %497 = getelementptr inbounds i8, i8* %496, i64 1
  store i8* %497, i8** %3, align 8, !tbaa !5
  br label %498

498:                                              ; preds = %506, %495
  %499 = load i8*, i8** %45, align 8, !tbaa !13
  store i8* %499, i8** %3, align 8, !tbaa !5
  br label %843

500:                                              ; preds = %504, %524
  %501 = load i8*, i8** %3, align 8, !tbaa !5
  %502 = getelementptr inbounds i8, i8* %501, i64 1
  store i8* %502, i8** %3, align 8, !tbaa !5
  store i8* %502, i8** %19, align 8, !tbaa !12
  %503 = load i8, i8* %502, align 1, !tbaa !11
  switch i8 %503, label %505 [
    i8 0, label %495
    i8 10, label %495
    i8 9, label %504
    i8 32, label %504
    i8 13, label %506
    i8 -62, label %518
  ]

504:                                              ; preds = %500, %500
  br label %500

505:                                              ; preds = %500, %226
  br label %843

506:                                              ; preds = %500, %270
  %507 = load i8*, i8** %3, align 8, !tbaa !5
  %508 = getelementptr inbounds i8, i8* %507, i64 1
  store i8* %508, i8** %3, align 8, !tbaa !5
  %509 = load i8, i8* %508, align 1, !tbaa !11
  %510 = icmp eq i8 %509, 10
  br i1 %510, label %495, label %498

511:                                              ; preds = %265
  %512 = getelementptr inbounds i8, i8* %74, i64 3
  store i8* %512, i8** %3, align 8, !tbaa !5
  %513 = load i8, i8* %512, align 1, !tbaa !11
  switch i8 %513, label %226 [
    i8 0, label %514
    i8 10, label %514
    i8 9, label %515
    i8 32, label %515
    i8 13, label %516
    i8 35, label %655
    i8 -62, label %517
  ]

514:                                              ; preds = %511, %511
  store i8* %512, i8** %40, align 8, !tbaa !13
  br label %639

515:                                              ; preds = %511, %511
  store i8* %512, i8** %39, align 8, !tbaa !13
  br label %668

516:                                              ; preds = %511
  store i8* %512, i8** %38, align 8, !tbaa !13
  br label %650

517:                                              ; preds = %511
  store i8* %512, i8** %22, align 8, !tbaa !13
  br label %662

518:                                              ; preds = %500, %271
  %519 = phi i32 [ 2, %271 ], [ 13, %500 ]
  %520 = load i8*, i8** %3, align 8, !tbaa !5
  %521 = getelementptr inbounds i8, i8* %520, i64 1
  store i8* %521, i8** %3, align 8, !tbaa !5
  %522 = load i8, i8* %521, align 1, !tbaa !11
  %523 = icmp eq i8 %522, -96
  br i1 %523, label %524, label %226

524:                                              ; preds = %269, %518
  br label %500

525:                                              ; preds = %529, %284
  %526 = load i8*, i8** %3, align 8, !tbaa !5
  %527 = getelementptr inbounds i8, i8* %526, i64 1
  store i8* %527, i8** %3, align 8, !tbaa !5
  %528 = load i8, i8* %527, align 1, !tbaa !11
  switch i8 %528, label %226 [
    i8 48, label %529
    i8 49, label %529
    i8 50, label %529
    i8 51, label %529
    i8 52, label %529
    i8 53, label %529
    i8 54, label %529
    i8 55, label %529
    i8 56, label %529
    i8 57, label %529
    i8 59, label %669
  ]

529:                                              ; preds = %525, %525, %525, %525, %525, %525, %525, %525, %525, %525
  br label %525

530:                                              ; preds = %281, %281
  %531 = getelementptr inbounds i8, i8* %74, i64 3
  store i8* %531, i8** %3, align 8, !tbaa !5
  %532 = load i8, i8* %531, align 1, !tbaa !11
  %533 = icmp eq i8 %532, 59
  br i1 %533, label %226, label %671

534:                                              ; preds = %289
  %535 = load i8*, i8** %3, align 8, !tbaa !5
  %536 = getelementptr inbounds i8, i8* %535, i64 1
  store i8* %536, i8** %3, align 8, !tbaa !5
  br label %843

537:                                              ; preds = %291, %291
  %538 = getelementptr inbounds i8, i8* %74, i64 3
  store i8* %538, i8** %3, align 8, !tbaa !5
  %539 = load i8, i8* %538, align 1, !tbaa !11
  switch i8 %539, label %289 [
    i8 80, label %677
    i8 112, label %677
  ]

540:                                              ; preds = %296
  %541 = getelementptr inbounds i8, i8* %74, i64 3
  store i8* %541, i8** %3, align 8, !tbaa !5
  br label %843

542:                                              ; preds = %300
  %543 = getelementptr inbounds i8, i8* %74, i64 3
  store i8* %543, i8** %3, align 8, !tbaa !5
  br label %843

544:                                              ; preds = %300
  %545 = getelementptr inbounds i8, i8* %74, i64 3
  store i8* %545, i8** %3, align 8, !tbaa !5
  br label %843

546:                                              ; preds = %300
  %547 = getelementptr inbounds i8, i8* %74, i64 3
  store i8* %547, i8** %3, align 8, !tbaa !5
  br label %843

548:                                              ; preds = %303
  %549 = getelementptr inbounds i8, i8* %74, i64 3
  store i8* %549, i8** %3, align 8, !tbaa !5
  %550 = load i8, i8* %549, align 1, !tbaa !11
  %551 = icmp eq i8 %550, 32
  br i1 %551, label %681, label %226

552:                                              ; preds = %307
  %553 = getelementptr inbounds i8, i8* %74, i64 3
  store i8* %553, i8** %3, align 8, !tbaa !5
  br label %843

554:                                              ; preds = %558, %570
  %555 = load i8*, i8** %3, align 8, !tbaa !5
  %556 = getelementptr inbounds i8, i8* %555, i64 1
  store i8* %556, i8** %3, align 8, !tbaa !5
  store i8* %556, i8** %11, align 8, !tbaa !12
  %557 = load i8, i8* %556, align 1, !tbaa !11
  switch i8 %557, label %559 [
    i8 9, label %558
    i8 32, label %558
    i8 -62, label %564
  ]

558:                                              ; preds = %554, %554
  br label %554

559:                                              ; preds = %554, %317, %226, %561
  %560 = load i8*, i8** %71, align 8, !tbaa !13
  store i8* %560, i8** %3, align 8, !tbaa !5
  br label %843

561:                                              ; preds = %317, %316
  %562 = load i8*, i8** %3, align 8, !tbaa !5
  %563 = getelementptr inbounds i8, i8* %562, i64 1
  store i8* %563, i8** %3, align 8, !tbaa !5
  br label %559

564:                                              ; preds = %554, %321
  %565 = phi i32 [ 1, %321 ], [ 14, %554 ]
  %566 = load i8*, i8** %3, align 8, !tbaa !5
  %567 = getelementptr inbounds i8, i8* %566, i64 1
  store i8* %567, i8** %3, align 8, !tbaa !5
  %568 = load i8, i8* %567, align 1, !tbaa !11
  %569 = icmp eq i8 %568, -96
  br i1 %569, label %570, label %226

570:                                              ; preds = %315, %564
  br label %554

571:                                              ; preds = %327
  %572 = getelementptr inbounds i8, i8* %74, i64 3
  store i8* %572, i8** %3, align 8, !tbaa !5
  %573 = load i8, i8* %572, align 1, !tbaa !11
  %574 = icmp eq i8 %573, 45
  br i1 %574, label %685, label %226

575:                                              ; preds = %331
  %576 = getelementptr inbounds i8, i8* %74, i64 3
  store i8* %576, i8** %3, align 8, !tbaa !5
  br label %843

577:                                              ; preds = %335
  %578 = getelementptr inbounds i8, i8* %74, i64 3
  store i8* %578, i8** %3, align 8, !tbaa !5
  br label %843

579:                                              ; preds = %404
  %580 = getelementptr inbounds i8, i8* %74, i64 3
  store i8* %580, i8** %3, align 8, !tbaa !5
  br label %843

581:                                              ; preds = %404
  %582 = getelementptr inbounds i8, i8* %74, i64 3
  store i8* %582, i8** %3, align 8, !tbaa !5
  br label %843

583:                                              ; preds = %404
  %584 = getelementptr inbounds i8, i8* %74, i64 3
  store i8* %584, i8** %3, align 8, !tbaa !5
  br label %843

585:                                              ; preds = %404
  %586 = getelementptr inbounds i8, i8* %74, i64 3
  store i8* %586, i8** %3, align 8, !tbaa !5
  br label %843

587:                                              ; preds = %423
  %588 = getelementptr inbounds i8, i8* %74, i64 3
  store i8* %588, i8** %3, align 8, !tbaa !5
  br label %843

589:                                              ; preds = %427
  %590 = getelementptr inbounds i8, i8* %74, i64 3
  store i8* %590, i8** %3, align 8, !tbaa !5
  br label %843

591:                                              ; preds = %431
  %592 = getelementptr inbounds i8, i8* %74, i64 3
  store i8* %592, i8** %3, align 8, !tbaa !5
  br label %843

593:                                              ; preds = %435
  %594 = getelementptr inbounds i8, i8* %74, i64 3
  store i8* %594, i8** %3, align 8, !tbaa !5
  br label %843

595:                                              ; preds = %439
  %596 = getelementptr inbounds i8, i8* %74, i64 3
  store i8* %596, i8** %3, align 8, !tbaa !5
  %597 = load i8, i8* %596, align 1, !tbaa !11
  %598 = icmp eq i8 %597, 79
  br i1 %598, label %687, label %226

599:                                              ; preds = %444
  %600 = getelementptr inbounds i8, i8* %74, i64 3
  store i8* %600, i8** %3, align 8, !tbaa !5
  br label %843

601:                                              ; preds = %452
  %602 = getelementptr inbounds i8, i8* %74, i64 3
  store i8* %602, i8** %3, align 8, !tbaa !5
  br label %843

603:                                              ; preds = %459
  %604 = getelementptr inbounds i8, i8* %74, i64 3
  store i8* %604, i8** %3, align 8, !tbaa !5
  br label %843

605:                                              ; preds = %483, %477
  %606 = load i8*, i8** %3, align 8, !tbaa !5
  %607 = getelementptr inbounds i8, i8* %606, i64 1
  store i8* %607, i8** %3, align 8, !tbaa !5
  %608 = load i8, i8* %607, align 1, !tbaa !11
  switch i8 %608, label %226 [
    i8 0, label %609
    i8 1, label %609
    i8 2, label %609
    i8 3, label %609
    i8 4, label %609
    i8 5, label %609
    i8 6, label %609
    i8 7, label %609
    i8 8, label %609
    i8 11, label %609
    i8 12, label %609
    i8 14, label %609
    i8 15, label %609
    i8 16, label %609
    i8 17, label %609
    i8 18, label %609
    i8 19, label %609
    i8 20, label %609
    i8 21, label %609
    i8 22, label %609
    i8 23, label %609
    i8 24, label %609
    i8 25, label %609
    i8 26, label %609
    i8 27, label %609
    i8 28, label %609
    i8 29, label %609
    i8 30, label %609
    i8 31, label %609
    i8 33, label %609
    i8 34, label %609
    i8 35, label %609
    i8 36, label %609
    i8 37, label %609
    i8 38, label %609
    i8 39, label %609
    i8 40, label %609
    i8 41, label %609
    i8 42, label %609
    i8 43, label %609
    i8 44, label %609
    i8 45, label %609
    i8 46, label %609
    i8 47, label %609
    i8 48, label %609
    i8 49, label %609
    i8 50, label %609
    i8 51, label %609
    i8 52, label %609
    i8 53, label %609
    i8 54, label %609
    i8 55, label %609
    i8 56, label %609
    i8 57, label %609
    i8 58, label %609
    i8 59, label %609
    i8 60, label %609
    i8 61, label %609
    i8 62, label %609
    i8 63, label %609
    i8 64, label %609
    i8 65, label %609
    i8 66, label %609
    i8 67, label %609
    i8 68, label %609
    i8 69, label %609
    i8 70, label %609
    i8 71, label %609
    i8 72, label %609
    i8 73, label %609
    i8 74, label %609
    i8 75, label %609
    i8 76, label %609
    i8 77, label %609
    i8 78, label %609
    i8 79, label %609
    i8 80, label %609
    i8 81, label %609
    i8 82, label %609
    i8 83, label %609
    i8 84, label %609
    i8 85, label %609
    i8 86, label %609
    i8 87, label %609
    i8 88, label %609
    i8 89, label %609
    i8 90, label %609
    i8 91, label %609
    i8 92, label %609
    i8 93, label %609
    i8 94, label %609
    i8 95, label %609
    i8 96, label %609
    i8 97, label %609
    i8 98, label %609
    i8 99, label %609
    i8 100, label %609
    i8 101, label %609
    i8 102, label %609
    i8 103, label %609
    i8 104, label %609
    i8 105, label %609
    i8 106, label %609
    i8 107, label %609
    i8 108, label %609
    i8 109, label %609
    i8 110, label %609
    i8 111, label %609
    i8 112, label %609
    i8 113, label %609
    i8 114, label %609
    i8 115, label %609
    i8 116, label %609
    i8 117, label %609
    i8 118, label %609
    i8 119, label %609
    i8 120, label %609
    i8 121, label %609
    i8 122, label %609
    i8 123, label %609
    i8 124, label %609
    i8 125, label %609
    i8 126, label %609
    i8 127, label %609
    i8 -62, label %610
    i8 -61, label %610
    i8 -60, label %610
    i8 -59, label %610
    i8 -58, label %610
    i8 -57, label %610
    i8 -56, label %610
    i8 -55, label %610
    i8 -54, label %610
    i8 -53, label %610
    i8 -52, label %610
    i8 -51, label %610
    i8 -50, label %610
    i8 -49, label %610
    i8 -48, label %610
    i8 -47, label %610
    i8 -46, label %610
    i8 -45, label %610
    i8 -44, label %610
    i8 -43, label %610
    i8 -42, label %610
    i8 -41, label %610
    i8 -40, label %610
    i8 -39, label %610
    i8 -38, label %610
    i8 -37, label %610
    i8 -36, label %610
    i8 -35, label %610
    i8 -34, label %610
    i8 -33, label %610
    i8 -32, label %611
    i8 -31, label %616
    i8 -30, label %616
    i8 -29, label %616
    i8 -28, label %616
    i8 -27, label %616
    i8 -26, label %616
    i8 -25, label %616
    i8 -24, label %616
    i8 -23, label %616
    i8 -22, label %616
    i8 -21, label %616
    i8 -20, label %616
    i8 -19, label %616
    i8 -18, label %616
    i8 -17, label %616
    i8 -16, label %617
    i8 -15, label %622
    i8 -14, label %622
    i8 -13, label %622
    i8 -12, label %626
  ]

609:                                              ; preds = %605, %605, %605, %605, %605, %605, %605, %605, %605, %605, %605, %605, %605, %605, %605, %605, %605, %605, %605, %605, %605, %605, %605, %605, %605, %605, %605, %605, %605, %605, %605, %605, %605, %605, %605, %605, %605, %605, %605, %605, %605, %605, %605, %605, %605, %605, %605, %605, %605, %605, %605, %605, %605, %605, %605, %605, %605, %605, %605, %605, %605, %605, %605, %605, %605, %605, %605, %605, %605, %605, %605, %605, %605, %605, %605, %605, %605, %605, %605, %605, %605, %605, %605, %605, %605, %605, %605, %605, %605, %605, %605, %605, %605, %605, %605, %605, %605, %605, %605, %605, %605, %605, %605, %605, %605, %605, %605, %605, %605, %605, %605, %605, %605, %605, %605, %605, %605, %605, %605, %605, %605, %605, %605, %605
  store i8* %607, i8** %58, align 8, !tbaa !13
  br label %691

610:                                              ; preds = %605, %605, %605, %605, %605, %605, %605, %605, %605, %605, %605, %605, %605, %605, %605, %605, %605, %605, %605, %605, %605, %605, %605, %605, %605, %605, %605, %605, %605, %605
  store i8* %607, i8** %57, align 8, !tbaa !13
  br label %695

611:                                              ; preds = %605
  store i8* %607, i8** %56, align 8, !tbaa !13
  %612 = getelementptr inbounds i8, i8* %606, i64 2
  store i8* %612, i8** %3, align 8, !tbaa !5
  %613 = load i8, i8* %612, align 1, !tbaa !11
  %614 = and i8 %613, -32
  %615 = icmp eq i8 %614, -96
  br i1 %615, label %695, label %226

616:                                              ; preds = %605, %605, %605, %605, %605, %605, %605, %605, %605, %605, %605, %605, %605, %605, %605
  store i8* %607, i8** %55, align 8, !tbaa !13
  br label %700

617:                                              ; preds = %605
  store i8* %607, i8** %54, align 8, !tbaa !13
  %618 = getelementptr inbounds i8, i8* %606, i64 2
  store i8* %618, i8** %3, align 8, !tbaa !5
  %619 = load i8, i8* %618, align 1, !tbaa !11
  %620 = add i8 %619, 112
  %621 = icmp ult i8 %620, 48
  br i1 %621, label %700, label %226

622:                                              ; preds = %605, %605, %605
  store i8* %607, i8** %53, align 8, !tbaa !13
  %623 = getelementptr inbounds i8, i8* %606, i64 2
  store i8* %623, i8** %3, align 8, !tbaa !5
  %624 = load i8, i8* %623, align 1, !tbaa !11
  %625 = icmp slt i8 %624, -64
  br i1 %625, label %700, label %226

626:                                              ; preds = %605
  store i8* %607, i8** %52, align 8, !tbaa !13
  %627 = getelementptr inbounds i8, i8* %606, i64 2
  store i8* %627, i8** %3, align 8, !tbaa !5
  %628 = load i8, i8* %627, align 1, !tbaa !11
  %629 = icmp slt i8 %628, -112
  br i1 %629, label %700, label %226

630:                                              ; preds = %635, %487
  %631 = load i8*, i8** %3, align 8, !tbaa !5
  %632 = getelementptr inbounds i8, i8* %631, i64 1
  store i8* %632, i8** %3, align 8, !tbaa !5
  store i8* %632, i8** %51, align 8, !tbaa !12
  %633 = load i8, i8* %632, align 1, !tbaa !11
  switch i8 %633, label %634 [
    i8 10, label %477
    i8 13, label %483
    i8 32, label %714
    i8 -62, label %709
  ]

634:                                              ; preds = %630, %226
  br label %843

635:                                              ; preds = %487
  %636 = getelementptr inbounds i8, i8* %488, i64 2
  store i8* %636, i8** %3, align 8, !tbaa !5
  %637 = load i8, i8* %636, align 1, !tbaa !11
  %638 = icmp eq i8 %637, -96
  br i1 %638, label %630, label %226

639:                                              ; preds = %644, %644, %650, %514
  %640 = load i8*, i8** %3, align 8, !tbaa !5
  %641 = getelementptr inbounds i8, i8* %640, i64 1
  store i8* %641, i8** %3, align 8, !tbaa !5
  br label %642

642:                                              ; preds = %650, %639
  %643 = load i8*, i8** %41, align 8, !tbaa !13
  store i8* %643, i8** %3, align 8, !tbaa !5
  br label %843

644:                                              ; preds = %648, %668
  %645 = load i8*, i8** %3, align 8, !tbaa !5
  %646 = getelementptr inbounds i8, i8* %645, i64 1
  store i8* %646, i8** %3, align 8, !tbaa !5
  store i8* %646, i8** %19, align 8, !tbaa !12
  %647 = load i8, i8* %646, align 1, !tbaa !11
  switch i8 %647, label %649 [
    i8 0, label %639
    i8 10, label %639
    i8 9, label %648
    i8 32, label %648
    i8 13, label %650
    i8 -62, label %662
  ]

648:                                              ; preds = %644, %644
  br label %644

649:                                              ; preds = %644, %226
  br label %843

650:                                              ; preds = %644, %516
  %651 = load i8*, i8** %3, align 8, !tbaa !5
  %652 = getelementptr inbounds i8, i8* %651, i64 1
  store i8* %652, i8** %3, align 8, !tbaa !5
  %653 = load i8, i8* %652, align 1, !tbaa !11
  %654 = icmp eq i8 %653, 10
  br i1 %654, label %639, label %642

655:                                              ; preds = %511
  %656 = getelementptr inbounds i8, i8* %74, i64 4
  store i8* %656, i8** %3, align 8, !tbaa !5
  %657 = load i8, i8* %656, align 1, !tbaa !11
  switch i8 %657, label %226 [
    i8 0, label %658
    i8 10, label %658
    i8 9, label %659
    i8 32, label %659
    i8 13, label %660
    i8 35, label %731
    i8 -62, label %661
  ]

658:                                              ; preds = %655, %655
  store i8* %656, i8** %36, align 8, !tbaa !13
  br label %715

659:                                              ; preds = %655, %655
  store i8* %656, i8** %35, align 8, !tbaa !13
  br label %744

660:                                              ; preds = %655
  store i8* %656, i8** %34, align 8, !tbaa !13
  br label %726

661:                                              ; preds = %655
  store i8* %656, i8** %23, align 8, !tbaa !13
  br label %738

662:                                              ; preds = %644, %517
  %663 = phi i32 [ 2, %517 ], [ 16, %644 ]
  %664 = load i8*, i8** %3, align 8, !tbaa !5
  %665 = getelementptr inbounds i8, i8* %664, i64 1
  store i8* %665, i8** %3, align 8, !tbaa !5
  %666 = load i8, i8* %665, align 1, !tbaa !11
  %667 = icmp eq i8 %666, -96
  br i1 %667, label %668, label %226

668:                                              ; preds = %515, %662
  br label %644

669:                                              ; preds = %525
  %670 = getelementptr inbounds i8, i8* %526, i64 2
  store i8* %670, i8** %3, align 8, !tbaa !5
  br label %843

671:                                              ; preds = %530, %673
  %672 = phi i8 [ %676, %673 ], [ %532, %530 ]
  switch i8 %672, label %226 [
    i8 48, label %673
    i8 49, label %673
    i8 50, label %673
    i8 51, label %673
    i8 52, label %673
    i8 53, label %673
    i8 54, label %673
    i8 55, label %673
    i8 56, label %673
    i8 57, label %673
    i8 65, label %673
    i8 66, label %673
    i8 67, label %673
    i8 68, label %673
    i8 69, label %673
    i8 70, label %673
    i8 71, label %673
    i8 72, label %673
    i8 73, label %673
    i8 74, label %673
    i8 75, label %673
    i8 76, label %673
    i8 77, label %673
    i8 78, label %673
    i8 79, label %673
    i8 80, label %673
    i8 81, label %673
    i8 82, label %673
    i8 83, label %673
    i8 84, label %673
    i8 85, label %673
    i8 86, label %673
    i8 87, label %673
    i8 88, label %673
    i8 89, label %673
    i8 90, label %673
    i8 91, label %673
    i8 92, label %673
    i8 93, label %673
    i8 94, label %673
    i8 95, label %673
    i8 96, label %673
    i8 97, label %673
    i8 98, label %673
    i8 99, label %673
    i8 100, label %673
    i8 101, label %673
    i8 102, label %673
    i8 59, label %745
  ]

673:                                              ; preds = %671, %671, %671, %671, %671, %671, %671, %671, %671, %671, %671, %671, %671, %671, %671, %671, %671, %671, %671, %671, %671, %671, %671, %671, %671, %671, %671, %671, %671, %671, %671, %671, %671, %671, %671, %671, %671, %671, %671, %671, %671, %671, %671, %671, %671, %671, %671, %671
  %674 = load i8*, i8** %3, align 8, !tbaa !5
  %675 = getelementptr inbounds i8, i8* %674, i64 1
  store i8* %675, i8** %3, align 8, !tbaa !5
  %676 = load i8, i8* %675, align 1, !tbaa !11
  br label %671

677:                                              ; preds = %537, %537
  %678 = getelementptr inbounds i8, i8* %74, i64 4
  store i8* %678, i8** %3, align 8, !tbaa !5
  %679 = load i8, i8* %678, align 1, !tbaa !11
  %680 = icmp eq i8 %679, 59
  br i1 %680, label %748, label %289

681:                                              ; preds = %548
  %682 = getelementptr inbounds i8, i8* %74, i64 4
  store i8* %682, i8** %3, align 8, !tbaa !5
  %683 = load i8, i8* %682, align 1, !tbaa !11
  %684 = icmp eq i8 %683, 46
  br i1 %684, label %750, label %226

685:                                              ; preds = %571
  %686 = getelementptr inbounds i8, i8* %74, i64 4
  store i8* %686, i8** %3, align 8, !tbaa !5
  br label %843

687:                                              ; preds = %595
  %688 = getelementptr inbounds i8, i8* %74, i64 4
  store i8* %688, i8** %3, align 8, !tbaa !5
  %689 = load i8, i8* %688, align 1, !tbaa !11
  %690 = icmp eq i8 %689, 67
  br i1 %690, label %752, label %226

691:                                              ; preds = %695, %609
  %692 = load i8*, i8** %3, align 8, !tbaa !5
  %693 = getelementptr inbounds i8, i8* %692, i64 1
  store i8* %693, i8** %3, align 8, !tbaa !5
  %694 = load i8*, i8** %59, align 8, !tbaa !13
  store i8* %694, i8** %3, align 8, !tbaa !5
  br label %843

695:                                              ; preds = %700, %611, %610
  %696 = load i8*, i8** %3, align 8, !tbaa !5
  %697 = getelementptr inbounds i8, i8* %696, i64 1
  store i8* %697, i8** %3, align 8, !tbaa !5
  %698 = load i8, i8* %697, align 1, !tbaa !11
  %699 = icmp slt i8 %698, -64
  br i1 %699, label %691, label %226

700:                                              ; preds = %626, %622, %617, %616
  %701 = load i8*, i8** %3, align 8, !tbaa !5
  %702 = getelementptr inbounds i8, i8* %701, i64 1
  store i8* %702, i8** %3, align 8, !tbaa !5
  %703 = load i8, i8* %702, align 1, !tbaa !11
  %704 = icmp slt i8 %703, -64
  br i1 %704, label %695, label %226

705:                                              ; preds = %714, %705
  %706 = load i8*, i8** %3, align 8, !tbaa !5
  %707 = getelementptr inbounds i8, i8* %706, i64 1
  store i8* %707, i8** %3, align 8, !tbaa !5
  %708 = load i8, i8* %707, align 1, !tbaa !11
  switch i8 %708, label %226 [
    i8 10, label %477
    i8 13, label %483
    i8 32, label %705
    i8 -62, label %709
  ]

709:                                              ; preds = %705, %630
  %710 = load i8*, i8** %3, align 8, !tbaa !5
  %711 = getelementptr inbounds i8, i8* %710, i64 1
  store i8* %711, i8** %3, align 8, !tbaa !5
  %712 = load i8, i8* %711, align 1, !tbaa !11
  %713 = icmp eq i8 %712, -96
  br i1 %713, label %714, label %226

714:                                              ; preds = %630, %709
  br label %705

715:                                              ; preds = %720, %720, %726, %658
  %716 = load i8*, i8** %3, align 8, !tbaa !5
  %717 = getelementptr inbounds i8, i8* %716, i64 1
  store i8* %717, i8** %3, align 8, !tbaa !5
  br label %718

718:                                              ; preds = %726, %715
  %719 = load i8*, i8** %37, align 8, !tbaa !13
  store i8* %719, i8** %3, align 8, !tbaa !5
  br label %843

720:                                              ; preds = %724, %744
  %721 = load i8*, i8** %3, align 8, !tbaa !5
  %722 = getelementptr inbounds i8, i8* %721, i64 1
  store i8* %722, i8** %3, align 8, !tbaa !5
  store i8* %722, i8** %19, align 8, !tbaa !12
  %723 = load i8, i8* %722, align 1, !tbaa !11
  switch i8 %723, label %725 [
    i8 0, label %715
    i8 10, label %715
    i8 9, label %724
    i8 32, label %724
    i8 13, label %726
    i8 -62, label %738
  ]

724:                                              ; preds = %720, %720
  br label %720

725:                                              ; preds = %720, %226
  br label %843

726:                                              ; preds = %720, %660
  %727 = load i8*, i8** %3, align 8, !tbaa !5
  %728 = getelementptr inbounds i8, i8* %727, i64 1
  store i8* %728, i8** %3, align 8, !tbaa !5
  %729 = load i8, i8* %728, align 1, !tbaa !11
  %730 = icmp eq i8 %729, 10
  br i1 %730, label %715, label %718

731:                                              ; preds = %655
  %732 = getelementptr inbounds i8, i8* %74, i64 5
  store i8* %732, i8** %3, align 8, !tbaa !5
  %733 = load i8, i8* %732, align 1, !tbaa !11
  switch i8 %733, label %226 [
    i8 0, label %734
    i8 10, label %734
    i8 9, label %735
    i8 32, label %735
    i8 13, label %736
    i8 35, label %771
    i8 -62, label %737
  ]

734:                                              ; preds = %731, %731
  store i8* %732, i8** %32, align 8, !tbaa !13
  br label %755

735:                                              ; preds = %731, %731
  store i8* %732, i8** %31, align 8, !tbaa !13
  br label %784

736:                                              ; preds = %731
  store i8* %732, i8** %30, align 8, !tbaa !13
  br label %766

737:                                              ; preds = %731
  store i8* %732, i8** %24, align 8, !tbaa !13
  br label %778

738:                                              ; preds = %720, %661
  %739 = phi i32 [ 2, %661 ], [ 17, %720 ]
  %740 = load i8*, i8** %3, align 8, !tbaa !5
  %741 = getelementptr inbounds i8, i8* %740, i64 1
  store i8* %741, i8** %3, align 8, !tbaa !5
  %742 = load i8, i8* %741, align 1, !tbaa !11
  %743 = icmp eq i8 %742, -96
  br i1 %743, label %744, label %226

744:                                              ; preds = %659, %738
  br label %720

745:                                              ; preds = %671
  %746 = load i8*, i8** %3, align 8, !tbaa !5
  %747 = getelementptr inbounds i8, i8* %746, i64 1
  store i8* %747, i8** %3, align 8, !tbaa !5
  br label %843

748:                                              ; preds = %677
  %749 = getelementptr inbounds i8, i8* %74, i64 5
  store i8* %749, i8** %3, align 8, !tbaa !5
  br label %843

750:                                              ; preds = %681
  %751 = getelementptr inbounds i8, i8* %74, i64 5
  store i8* %751, i8** %3, align 8, !tbaa !5
  br label %843

752:                                              ; preds = %687
  %753 = getelementptr inbounds i8, i8* %74, i64 5
  store i8* %753, i8** %3, align 8, !tbaa !5
  %754 = load i8, i8* %753, align 1, !tbaa !11
  switch i8 %754, label %226 [
    i8 58, label %785
    i8 125, label %790
  ]

755:                                              ; preds = %760, %760, %766, %734
  %756 = load i8*, i8** %3, align 8, !tbaa !5
  %757 = getelementptr inbounds i8, i8* %756, i64 1
  store i8* %757, i8** %3, align 8, !tbaa !5
  br label %758

758:                                              ; preds = %766, %755
  %759 = load i8*, i8** %33, align 8, !tbaa !13
  store i8* %759, i8** %3, align 8, !tbaa !5
  br label %843

760:                                              ; preds = %764, %784
  %761 = load i8*, i8** %3, align 8, !tbaa !5
  %762 = getelementptr inbounds i8, i8* %761, i64 1
  store i8* %762, i8** %3, align 8, !tbaa !5
  store i8* %762, i8** %19, align 8, !tbaa !12
  %763 = load i8, i8* %762, align 1, !tbaa !11
  switch i8 %763, label %765 [
    i8 0, label %755
    i8 10, label %755
    i8 9, label %764
    i8 32, label %764
    i8 13, label %766
    i8 -62, label %778
  ]

764:                                              ; preds = %760, %760
  br label %760

765:                                              ; preds = %760, %226
  br label %843

766:                                              ; preds = %760, %736
  %767 = load i8*, i8** %3, align 8, !tbaa !5
  %768 = getelementptr inbounds i8, i8* %767, i64 1
  store i8* %768, i8** %3, align 8, !tbaa !5
  %769 = load i8, i8* %768, align 1, !tbaa !11
  %770 = icmp eq i8 %769, 10
  br i1 %770, label %755, label %758

771:                                              ; preds = %731
  %772 = getelementptr inbounds i8, i8* %74, i64 6
  store i8* %772, i8** %3, align 8, !tbaa !5
  %773 = load i8, i8* %772, align 1, !tbaa !11
  switch i8 %773, label %226 [
    i8 0, label %774
    i8 10, label %774
    i8 9, label %775
    i8 32, label %775
    i8 13, label %776
    i8 -62, label %777
  ]

774:                                              ; preds = %771, %771
  store i8* %772, i8** %28, align 8, !tbaa !13
  br label %794

775:                                              ; preds = %771, %771
  store i8* %772, i8** %27, align 8, !tbaa !13
  br label %816

776:                                              ; preds = %771
  store i8* %772, i8** %26, align 8, !tbaa !13
  br label %805

777:                                              ; preds = %771
  store i8* %772, i8** %25, align 8, !tbaa !13
  br label %810

778:                                              ; preds = %760, %737
  %779 = phi i32 [ 2, %737 ], [ 18, %760 ]
  %780 = load i8*, i8** %3, align 8, !tbaa !5
  %781 = getelementptr inbounds i8, i8* %780, i64 1
  store i8* %781, i8** %3, align 8, !tbaa !5
  %782 = load i8, i8* %781, align 1, !tbaa !11
  %783 = icmp eq i8 %782, -96
  br i1 %783, label %784, label %226

784:                                              ; preds = %735, %778
  br label %760

785:                                              ; preds = %752
  %786 = getelementptr inbounds i8, i8* %74, i64 6
  store i8* %786, i8** %3, align 8, !tbaa !5
  %787 = load i8, i8* %786, align 1, !tbaa !11
  %788 = add i8 %787, -48
  %789 = icmp ult i8 %788, 10
  br i1 %789, label %817, label %226

790:                                              ; preds = %752
  %791 = getelementptr inbounds i8, i8* %74, i64 6
  store i8* %791, i8** %3, align 8, !tbaa !5
  %792 = load i8, i8* %791, align 1, !tbaa !11
  %793 = icmp eq i8 %792, 125
  br i1 %793, label %820, label %226

794:                                              ; preds = %799, %799, %805, %774
  %795 = load i8*, i8** %3, align 8, !tbaa !5
  %796 = getelementptr inbounds i8, i8* %795, i64 1
  store i8* %796, i8** %3, align 8, !tbaa !5
  br label %797

797:                                              ; preds = %805, %794
  %798 = load i8*, i8** %29, align 8, !tbaa !13
  store i8* %798, i8** %3, align 8, !tbaa !5
  br label %843

799:                                              ; preds = %803, %816
  %800 = load i8*, i8** %3, align 8, !tbaa !5
  %801 = getelementptr inbounds i8, i8* %800, i64 1
  store i8* %801, i8** %3, align 8, !tbaa !5
  store i8* %801, i8** %19, align 8, !tbaa !12
  %802 = load i8, i8* %801, align 1, !tbaa !11
  switch i8 %802, label %804 [
    i8 0, label %794
    i8 10, label %794
    i8 9, label %803
    i8 32, label %803
    i8 13, label %805
    i8 -62, label %810
  ]

803:                                              ; preds = %799, %799
  br label %799

804:                                              ; preds = %799, %226
  br label %843

805:                                              ; preds = %799, %776
  %806 = load i8*, i8** %3, align 8, !tbaa !5
  %807 = getelementptr inbounds i8, i8* %806, i64 1
  store i8* %807, i8** %3, align 8, !tbaa !5
  %808 = load i8, i8* %807, align 1, !tbaa !11
  %809 = icmp eq i8 %808, 10
  br i1 %809, label %794, label %797

810:                                              ; preds = %799, %777
  %811 = phi i32 [ 2, %777 ], [ 19, %799 ]
  %812 = load i8*, i8** %3, align 8, !tbaa !5
  %813 = getelementptr inbounds i8, i8* %812, i64 1
  store i8* %813, i8** %3, align 8, !tbaa !5
  %814 = load i8, i8* %813, align 1, !tbaa !11
  %815 = icmp eq i8 %814, -96
  br i1 %815, label %816, label %226

816:                                              ; preds = %775, %810
  br label %799

817:                                              ; preds = %785
  %818 = getelementptr inbounds i8, i8* %74, i64 7
  store i8* %818, i8** %3, align 8, !tbaa !5
  %819 = load i8, i8* %818, align 1, !tbaa !11
  switch i8 %819, label %226 [
    i8 45, label %822
    i8 125, label %827
  ]

820:                                              ; preds = %790
  %821 = getelementptr inbounds i8, i8* %74, i64 7
  store i8* %821, i8** %3, align 8, !tbaa !5
  br label %843

822:                                              ; preds = %817
  %823 = getelementptr inbounds i8, i8* %74, i64 8
  store i8* %823, i8** %3, align 8, !tbaa !5
  %824 = load i8, i8* %823, align 1, !tbaa !11
  %825 = add i8 %824, -48
  %826 = icmp ult i8 %825, 10
  br i1 %826, label %831, label %226

827:                                              ; preds = %817
  %828 = getelementptr inbounds i8, i8* %74, i64 8
  store i8* %828, i8** %3, align 8, !tbaa !5
  %829 = load i8, i8* %828, align 1, !tbaa !11
  %830 = icmp eq i8 %829, 125
  br i1 %830, label %835, label %226

831:                                              ; preds = %822
  %832 = getelementptr inbounds i8, i8* %74, i64 9
  store i8* %832, i8** %3, align 8, !tbaa !5
  %833 = load i8, i8* %832, align 1, !tbaa !11
  %834 = icmp eq i8 %833, 125
  br i1 %834, label %837, label %226

835:                                              ; preds = %827
  %836 = getelementptr inbounds i8, i8* %74, i64 9
  store i8* %836, i8** %3, align 8, !tbaa !5
  br label %843

837:                                              ; preds = %831
  %838 = getelementptr inbounds i8, i8* %74, i64 10
  store i8* %838, i8** %3, align 8, !tbaa !5
  %839 = load i8, i8* %838, align 1, !tbaa !11
  %840 = icmp eq i8 %839, 125
  br i1 %840, label %841, label %226

841:                                              ; preds = %837
  %842 = getelementptr inbounds i8, i8* %74, i64 11
  store i8* %842, i8** %3, align 8, !tbaa !5
  br label %843

843:                                              ; preds = %180, %171, %431, %404, %349, %352, %300, %185, %162, %159, %133, %118, %108, %78, %91, %94, %137, %142, %193, %197, %226, %841, %835, %820, %804, %797, %765, %758, %750, %748, %745, %725, %718, %691, %685, %669, %649, %642, %634, %603, %601, %599, %593, %591, %589, %587, %585, %583, %581, %579, %577, %575, %559, %552, %546, %544, %542, %540, %534, %505, %498, %482, %463, %450, %448, %443, %421, %419, %417, %415, %413, %411, %409, %407, %402, %400, %398, %396, %394, %392, %390, %388, %386, %384, %382, %380, %378, %376, %374, %372, %370, %368, %366, %364, %362, %360, %358, %356, %347, %345, %343, %341, %339, %294, %279, %259, %252, %247, %241, %229, %192, %179, %169, %167, %165, %157, %156, %151, %146, %140, %132, %126, %124, %122, %117, %112, %107, %98, %87, %80
  %844 = phi i32 [ 228, %603 ], [ 194, %804 ], [ 193, %765 ], [ 192, %725 ], [ 191, %649 ], [ 187, %634 ], [ 223, %559 ], [ 190, %505 ], [ 219, %482 ], [ 150, %443 ], [ 189, %259 ], [ 188, %241 ], [ 185, %192 ], [ 215, %179 ], [ 180, %156 ], [ 148, %151 ], [ 182, %132 ], [ 152, %117 ], [ 218, %107 ], [ 221, %87 ], [ 220, %691 ], [ 188, %229 ], [ 95, %601 ], [ 92, %450 ], [ 151, %448 ], [ 91, %599 ], [ 210, %820 ], [ 211, %835 ], [ 212, %841 ], [ 89, %593 ], [ 96, %591 ], [ 87, %589 ], [ 85, %587 ], [ 131, %169 ], [ 184, %167 ], [ 137, %165 ], [ 169, %421 ], [ 169, %419 ], [ 169, %417 ], [ 169, %415 ], [ 169, %413 ], [ 169, %411 ], [ 169, %409 ], [ 169, %407 ], [ 177, %585 ], [ 176, %583 ], [ 175, %581 ], [ 174, %579 ], [ 169, %402 ], [ 169, %400 ], [ 169, %398 ], [ 169, %396 ], [ 169, %394 ], [ 169, %392 ], [ 169, %390 ], [ 169, %388 ], [ 169, %386 ], [ 169, %384 ], [ 169, %382 ], [ 169, %380 ], [ 169, %378 ], [ 169, %376 ], [ 169, %374 ], [ 169, %372 ], [ 169, %370 ], [ 169, %368 ], [ 169, %366 ], [ 169, %364 ], [ 169, %362 ], [ 169, %360 ], [ 169, %358 ], [ 169, %356 ], [ 139, %347 ], [ 140, %345 ], [ 138, %343 ], [ 143, %341 ], [ 141, %339 ], [ 149, %157 ], [ 97, %577 ], [ 90, %575 ], [ 171, %685 ], [ 158, %146 ], [ 183, %140 ], [ 161, %552 ], [ 161, %750 ], [ 88, %546 ], [ 172, %544 ], [ 159, %542 ], [ 86, %540 ], [ 130, %126 ], [ 145, %124 ], [ 144, %122 ], [ 168, %294 ], [ 170, %534 ], [ 153, %748 ], [ 170, %745 ], [ 170, %669 ], [ 224, %112 ], [ 179, %279 ], [ 189, %252 ], [ 190, %498 ], [ 191, %642 ], [ 192, %718 ], [ 193, %758 ], [ 194, %797 ], [ 163, %98 ], [ 142, %247 ], [ 222, %463 ], [ 186, %80 ], [ %73, %226 ], [ %73, %197 ], [ %73, %193 ], [ %73, %142 ], [ %73, %137 ], [ %73, %94 ], [ %73, %91 ], [ %73, %78 ], [ 178, %108 ], [ 162, %118 ], [ 160, %133 ], [ 136, %159 ], [ 213, %162 ], [ 216, %185 ], [ 160, %300 ], [ 219, %352 ], [ 219, %349 ], [ 169, %404 ], [ 214, %431 ], [ 155, %171 ], [ 181, %180 ]
  %845 = phi i1 [ false, %603 ], [ false, %804 ], [ false, %765 ], [ false, %725 ], [ false, %649 ], [ false, %634 ], [ false, %559 ], [ false, %505 ], [ false, %482 ], [ false, %443 ], [ false, %259 ], [ false, %241 ], [ false, %192 ], [ false, %179 ], [ false, %156 ], [ false, %151 ], [ false, %132 ], [ false, %117 ], [ false, %107 ], [ false, %87 ], [ false, %691 ], [ false, %229 ], [ false, %601 ], [ false, %450 ], [ false, %448 ], [ false, %599 ], [ false, %820 ], [ false, %835 ], [ false, %841 ], [ false, %593 ], [ false, %591 ], [ false, %589 ], [ false, %587 ], [ false, %169 ], [ false, %167 ], [ false, %165 ], [ false, %421 ], [ false, %419 ], [ false, %417 ], [ false, %415 ], [ false, %413 ], [ false, %411 ], [ false, %409 ], [ false, %407 ], [ false, %585 ], [ false, %583 ], [ false, %581 ], [ false, %579 ], [ false, %402 ], [ false, %400 ], [ false, %398 ], [ false, %396 ], [ false, %394 ], [ false, %392 ], [ false, %390 ], [ false, %388 ], [ false, %386 ], [ false, %384 ], [ false, %382 ], [ false, %380 ], [ false, %378 ], [ false, %376 ], [ false, %374 ], [ false, %372 ], [ false, %370 ], [ false, %368 ], [ false, %366 ], [ false, %364 ], [ false, %362 ], [ false, %360 ], [ false, %358 ], [ false, %356 ], [ false, %347 ], [ false, %345 ], [ false, %343 ], [ false, %341 ], [ false, %339 ], [ false, %157 ], [ false, %577 ], [ false, %575 ], [ false, %685 ], [ false, %146 ], [ false, %140 ], [ false, %552 ], [ false, %750 ], [ false, %546 ], [ false, %544 ], [ false, %542 ], [ false, %540 ], [ false, %126 ], [ false, %124 ], [ false, %122 ], [ false, %294 ], [ false, %534 ], [ false, %748 ], [ false, %745 ], [ false, %669 ], [ false, %112 ], [ false, %279 ], [ false, %252 ], [ false, %498 ], [ false, %642 ], [ false, %718 ], [ false, %758 ], [ false, %797 ], [ false, %98 ], [ false, %247 ], [ false, %463 ], [ false, %80 ], [ true, %226 ], [ true, %197 ], [ true, %193 ], [ true, %142 ], [ true, %137 ], [ true, %94 ], [ true, %91 ], [ true, %78 ], [ false, %108 ], [ false, %118 ], [ false, %133 ], [ false, %159 ], [ false, %162 ], [ false, %185 ], [ false, %300 ], [ false, %352 ], [ false, %349 ], [ false, %404 ], [ false, %431 ], [ false, %171 ], [ false, %180 ]
  br i1 %845, label %72, label %846

846:                                              ; preds = %843, %72
  %847 = phi i32 [ %844, %843 ], [ 0, %72 ]
  ret i32 %847
}

attributes #0 = { nofree norecurse nosync nounwind uwtable "frame-pointer"="none" "min-legal-vector-width"="0" "no-trapping-math"="true" "stack-protector-buffer-size"="8" "target-cpu"="x86-64" "target-features"="+cx8,+fxsr,+mmx,+sse,+sse2,+x87" "tune-cpu"="generic" }

!llvm.module.flags = !{!0, !1, !2, !3}
!llvm.ident = !{!4}

!0 = !{i32 1, !"wchar_size", i32 4}
!1 = !{i32 7, !"PIC Level", i32 2}
!2 = !{i32 7, !"PIE Level", i32 2}
!3 = !{i32 7, !"uwtable", i32 1}
!4 = !{!"Debian clang version 14.0.6"}
!5 = !{!6, !7, i64 8}
!6 = !{!"Scanner", !7, i64 0, !7, i64 8, !7, i64 16, !7, i64 24}
!7 = !{!"any pointer", !8, i64 0}
!8 = !{!"omnipotent char", !9, i64 0}
!9 = !{!"Simple C/C++ TBAA"}
!10 = !{!6, !7, i64 0}
!11 = !{!8, !8, i64 0}
!12 = !{!6, !7, i64 16}
!13 = !{!6, !7, i64 24}
