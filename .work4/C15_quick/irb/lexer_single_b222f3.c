#include <stdint.h>
#include <stddef.h>
static inline uint32_t irx_fshl_i32(uint32_t a, uint32_t b, uint32_t c){ c &= 31; return c ? (a << c) | (b >> (32 - c)) : a; }
static inline uint32_t irx_fshr_i32(uint32_t a, uint32_t b, uint32_t c){ c &= 31; return c ? (a << (32 - c)) | (b >> c) : b; }
static inline uint64_t irx_fshl_i64(uint64_t a, uint64_t b, uint64_t c){ c &= 63; return c ? (a << c) | (b >> (64 - c)) : a; }
static inline uint64_t irx_fshr_i64(uint64_t a, uint64_t b, uint64_t c){ c &= 63; return c ? (a << (64 - c)) | (b >> c) : b; }
uint32_t ir_scan(uint64_t, uint64_t);
uint32_t ir_scan(uint64_t v_0, uint64_t v_1) {
  uint64_t v_3 = 0;
  uint64_t v_4 = 0;
  uint64_t v_5 = 0;
  uint64_t v_6 = 0;
  uint64_t v_7 = 0;
  uint64_t v_8 = 0;
  uint64_t v_9 = 0;
  uint64_t v_10 = 0;
  uint64_t v_11 = 0;
  uint64_t v_12 = 0;
  uint64_t v_13 = 0;
  uint64_t v_14 = 0;
  uint64_t v_15 = 0;
  uint64_t v_16 = 0;
  uint64_t v_17 = 0;
  uint64_t v_18 = 0;
  uint64_t v_19 = 0;
  uint64_t v_20 = 0;
  uint64_t v_21 = 0;
  uint64_t v_22 = 0;
  uint64_t v_23 = 0;
  uint64_t v_24 = 0;
  uint64_t v_25 = 0;
  uint64_t v_26 = 0;
  uint64_t v_27 = 0;
  uint64_t v_28 = 0;
  uint64_t v_29 = 0;
  uint64_t v_30 = 0;
  uint64_t v_31 = 0;
  uint64_t v_32 = 0;
  uint64_t v_33 = 0;
  uint64_t v_34 = 0;
  uint64_t v_35 = 0;
  uint64_t v_36 = 0;
  uint64_t v_37 = 0;
  uint64_t v_38 = 0;
  uint64_t v_39 = 0;
  uint64_t v_40 = 0;
  uint64_t v_41 = 0;
  uint64_t v_42 = 0;
  uint64_t v_43 = 0;
  uint64_t v_44 = 0;
  uint64_t v_45 = 0;
  uint64_t v_46 = 0;
  uint64_t v_47 = 0;
  uint64_t v_48 = 0;
  uint64_t v_49 = 0;
  uint64_t v_50 = 0;
  uint64_t v_51 = 0;
  uint64_t v_52 = 0;
  uint64_t v_53 = 0;
  uint64_t v_54 = 0;
  uint64_t v_55 = 0;
  uint64_t v_56 = 0;
  uint64_t v_57 = 0;
  uint64_t v_58 = 0;
  uint64_t v_59 = 0;
  uint64_t v_60 = 0;
  uint64_t v_61 = 0;
  uint64_t v_62 = 0;
  uint64_t v_63 = 0;
  uint64_t v_64 = 0;
  uint64_t v_65 = 0;
  uint64_t v_66 = 0;
  uint64_t v_67 = 0;
  uint64_t v_68 = 0;
  uint64_t v_69 = 0;
  uint64_t v_70 = 0;
  uint64_t v_71 = 0;
  uint32_t v_73 = 0;
  uint64_t v_74 = 0;
  uint64_t v_101 = 0;
  uint64_t v_202 = 0;
  uint64_t v_203 = 0;
  uint32_t v_227 = 0;
  uint64_t v_238 = 0;
  uint64_t v_266 = 0;
  uint32_t v_273 = 0;
  uint8_t v_288 = 0;
  uint8_t v_290 = 0;
  uint8_t v_293 = 0;
  uint64_t v_312 = 0;
  uint64_t v_313 = 0;
  uint64_t v_488 = 0;
  uint64_t v_512 = 0;
  uint32_t v_519 = 0;
  uint64_t v_526 = 0;
  uint8_t v_532 = 0;
  uint8_t v_539 = 0;
  uint32_t v_565 = 0;
  uint64_t v_606 = 0;
  uint64_t v_607 = 0;
  uint64_t v_656 = 0;
  uint32_t v_663 = 0;
  uint8_t v_672 = 0;
  uint8_t v_676 = 0;
  uint8_t v_679 = 0;
  uint64_t v_732 = 0;
  uint32_t v_739 = 0;
  uint64_t v_772 = 0;
  uint32_t v_779 = 0;
  uint32_t v_811 = 0;
  uint32_t v_844 = 0;
  uint8_t v_845 = 0;
  uint32_t v_847 = 0;
  int prev = -1; int pc = 0; int npc = 0;
  for (;;) {
    if (pc == 0) {
      v_3 = ((v_0 + (uint64_t)((int64_t)(int64_t)((uint64_t)0ULL) * 32)) + 8);
      v_4 = ((v_0 + (uint64_t)((int64_t)(int64_t)((uint64_t)0ULL) * 32)) + 0);
      v_5 = ((v_0 + (uint64_t)((int64_t)(int64_t)((uint64_t)0ULL) * 32)) + 16);
      v_6 = ((v_0 + (uint64_t)((int64_t)(int64_t)((uint64_t)0ULL) * 32)) + 16);
      v_7 = ((v_0 + (uint64_t)((int64_t)(int64_t)((uint64_t)0ULL) * 32)) + 16);
      v_8 = ((v_0 + (uint64_t)((int64_t)(int64_t)((uint64_t)0ULL) * 32)) + 16);
      v_9 = ((v_0 + (uint64_t)((int64_t)(int64_t)((uint64_t)0ULL) * 32)) + 16);
      v_10 = ((v_0 + (uint64_t)((int64_t)(int64_t)((uint64_t)0ULL) * 32)) + 16);
      v_11 = ((v_0 + (uint64_t)((int64_t)(int64_t)((uint64_t)0ULL) * 32)) + 16);
      v_12 = ((v_0 + (uint64_t)((int64_t)(int64_t)((uint64_t)0ULL) * 32)) + 24);
      v_13 = ((v_0 + (uint64_t)((int64_t)(int64_t)((uint64_t)0ULL) * 32)) + 24);
      v_14 = ((v_0 + (uint64_t)((int64_t)(int64_t)((uint64_t)0ULL) * 32)) + 24);
      v_15 = ((v_0 + (uint64_t)((int64_t)(int64_t)((uint64_t)0ULL) * 32)) + 24);
      v_16 = ((v_0 + (uint64_t)((int64_t)(int64_t)((uint64_t)0ULL) * 32)) + 16);
      v_17 = ((v_0 + (uint64_t)((int64_t)(int64_t)((uint64_t)0ULL) * 32)) + 16);
      v_18 = ((v_0 + (uint64_t)((int64_t)(int64_t)((uint64_t)0ULL) * 32)) + 16);
      v_19 = ((v_0 + (uint64_t)((int64_t)(int64_t)((uint64_t)0ULL) * 32)) + 16);
      v_20 = ((v_0 + (uint64_t)((int64_t)(int64_t)((uint64_t)0ULL) * 32)) + 24);
      v_21 = ((v_0 + (uint64_t)((int64_t)(int64_t)((uint64_t)0ULL) * 32)) + 24);
      v_22 = ((v_0 + (uint64_t)((int64_t)(int64_t)((uint64_t)0ULL) * 32)) + 24);
      v_23 = ((v_0 + (uint64_t)((int64_t)(int64_t)((uint64_t)0ULL) * 32)) + 24);
      v_24 = ((v_0 + (uint64_t)((int64_t)(int64_t)((uint64_t)0ULL) * 32)) + 24);
      v_25 = ((v_0 + (uint64_t)((int64_t)(int64_t)((uint64_t)0ULL) * 32)) + 24);
      v_26 = ((v_0 + (uint64_t)((int64_t)(int64_t)((uint64_t)0ULL) * 32)) + 24);
      v_27 = ((v_0 + (uint64_t)((int64_t)(int64_t)((uint64_t)0ULL) * 32)) + 24);
      v_28 = ((v_0 + (uint64_t)((int64_t)(int64_t)((uint64_t)0ULL) * 32)) + 24);
      v_29 = ((v_0 + (uint64_t)((int64_t)(int64_t)((uint64_t)0ULL) * 32)) + 24);
      v_30 = ((v_0 + (uint64_t)((int64_t)(int64_t)((uint64_t)0ULL) * 32)) + 24);
      v_31 = ((v_0 + (uint64_t)((int64_t)(int64_t)((uint64_t)0ULL) * 32)) + 24);
      v_32 = ((v_0 + (uint64_t)((int64_t)(int64_t)((uint64_t)0ULL) * 32)) + 24);
      v_33 = ((v_0 + (uint64_t)((int64_t)(int64_t)((uint64_t)0ULL) * 32)) + 24);
      v_34 = ((v_0 + (uint64_t)((int64_t)(int64_t)((uint64_t)0ULL) * 32)) + 24);
      v_35 = ((v_0 + (uint64_t)((int64_t)(int64_t)((uint64_t)0ULL) * 32)) + 24);
      v_36 = ((v_0 + (uint64_t)((int64_t)(int64_t)((uint64_t)0ULL) * 32)) + 24);
      v_37 = ((v_0 + (uint64_t)((int64_t)(int64_t)((uint64_t)0ULL) * 32)) + 24);
      v_38 = ((v_0 + (uint64_t)((int64_t)(int64_t)((uint64_t)0ULL) * 32)) + 24);
      v_39 = ((v_0 + (uint64_t)((int64_t)(int64_t)((uint64_t)0ULL) * 32)) + 24);
      v_40 = ((v_0 + (uint64_t)((int64_t)(int64_t)((uint64_t)0ULL) * 32)) + 24);
      v_41 = ((v_0 + (uint64_t)((int64_t)(int64_t)((uint64_t)0ULL) * 32)) + 24);
      v_42 = ((v_0 + (uint64_t)((int64_t)(int64_t)((uint64_t)0ULL) * 32)) + 24);
      v_43 = ((v_0 + (uint64_t)((int64_t)(int64_t)((uint64_t)0ULL) * 32)) + 24);
      v_44 = ((v_0 + (uint64_t)((int64_t)(int64_t)((uint64_t)0ULL) * 32)) + 24);
      v_45 = ((v_0 + (uint64_t)((int64_t)(int64_t)((uint64_t)0ULL) * 32)) + 24);
      v_46 = ((v_0 + (uint64_t)((int64_t)(int64_t)((uint64_t)0ULL) * 32)) + 24);
      v_47 = ((v_0 + (uint64_t)((int64_t)(int64_t)((uint64_t)0ULL) * 32)) + 24);
      v_48 = ((v_0 + (uint64_t)((int64_t)(int64_t)((uint64_t)0ULL) * 32)) + 24);
      v_49 = ((v_0 + (uint64_t)((int64_t)(int64_t)((uint64_t)0ULL) * 32)) + 24);
      v_50 = ((v_0 + (uint64_t)((int64_t)(int64_t)((uint64_t)0ULL) * 32)) + 16);
      v_51 = ((v_0 + (uint64_t)((int64_t)(int64_t)((uint64_t)0ULL) * 32)) + 16);
      v_52 = ((v_0 + (uint64_t)((int64_t)(int64_t)((uint64_t)0ULL) * 32)) + 24);
      v_53 = ((v_0 + (uint64_t)((int64_t)(int64_t)((uint64_t)0ULL) * 32)) + 24);
      v_54 = ((v_0 + (uint64_t)((int64_t)(int64_t)((uint64_t)0ULL) * 32)) + 24);
      v_55 = ((v_0 + (uint64_t)((int64_t)(int64_t)((uint64_t)0ULL) * 32)) + 24);
      v_56 = ((v_0 + (uint64_t)((int64_t)(int64_t)((uint64_t)0ULL) * 32)) + 24);
      v_57 = ((v_0 + (uint64_t)((int64_t)(int64_t)((uint64_t)0ULL) * 32)) + 24);
      v_58 = ((v_0 + (uint64_t)((int64_t)(int64_t)((uint64_t)0ULL) * 32)) + 24);
      v_59 = ((v_0 + (uint64_t)((int64_t)(int64_t)((uint64_t)0ULL) * 32)) + 24);
      v_60 = ((v_0 + (uint64_t)((int64_t)(int64_t)((uint64_t)0ULL) * 32)) + 16);
      v_61 = ((v_0 + (uint64_t)((int64_t)(int64_t)((uint64_t)0ULL) * 32)) + 16);
      v_62 = ((v_0 + (uint64_t)((int64_t)(int64_t)((uint64_t)0ULL) * 32)) + 24);
      v_63 = ((v_0 + (uint64_t)((int64_t)(int64_t)((uint64_t)0ULL) * 32)) + 24);
      v_64 = ((v_0 + (uint64_t)((int64_t)(int64_t)((uint64_t)0ULL) * 32)) + 24);
      v_65 = ((v_0 + (uint64_t)((int64_t)(int64_t)((uint64_t)0ULL) * 32)) + 24);
      v_66 = ((v_0 + (uint64_t)((int64_t)(int64_t)((uint64_t)0ULL) * 32)) + 24);
      v_67 = ((v_0 + (uint64_t)((int64_t)(int64_t)((uint64_t)0ULL) * 32)) + 24);
      v_68 = ((v_0 + (uint64_t)((int64_t)(int64_t)((uint64_t)0ULL) * 32)) + 24);
      v_69 = ((v_0 + (uint64_t)((int64_t)(int64_t)((uint64_t)0ULL) * 32)) + 24);
      v_70 = ((v_0 + (uint64_t)((int64_t)(int64_t)((uint64_t)0ULL) * 32)) + 16);
      v_71 = ((v_0 + (uint64_t)((int64_t)(int64_t)((uint64_t)0ULL) * 32)) + 24);
      npc = 1;
    }
    if (pc == 1) {
      {
        uint32_t t0; switch (prev) {
          case 0: t0 = 0; break;
          case 292: t0 = v_844; break;
          default: t0 = 0; break; }
        v_73 = t0;
      }
      v_74 = IR_LD64(v_3);
      uint8_t v_75 = (v_74 < v_1);
      npc = v_75 ? 2 : 293;
    }
    if (pc == 2) {
      IR_ST64(v_4, v_74);
      uint8_t v_77 = IR_LD8(v_74);
      npc = (((v_77 == 239U)) ? 51 : (((v_77 == 194U)) ? 50 : (((v_77 == 126U)) ? 48 : (((v_77 == 125U)) ? 47 : (((v_77 == 124U)) ? 46 : (((v_77 == 123U)) ? 44 : (((v_77 == 96U)) ? 43 : (((v_77 == 95U)) ? 42 : (((v_77 == 94U)) ? 41 : (((v_77 == 93U)) ? 40 : (((v_77 == 92U)) ? 39 : (((v_77 == 91U)) ? 38 : (((v_77 == 62U)) ? 37 : (((v_77 == 61U)) ? 35 : (((v_77 == 60U)) ? 33 : (((v_77 == 58U)) ? 32 : (((v_77 >= 48U && v_77 <= 57U)) ? 30 : (((v_77 == 47U)) ? 29 : (((v_77 == 46U)) ? 28 : (((v_77 == 45U)) ? 27 : (((v_77 == 43U)) ? 25 : (((v_77 == 42U)) ? 24 : (((v_77 == 41U)) ? 23 : (((v_77 == 40U)) ? 22 : (((v_77 == 39U)) ? 21 : (((v_77 == 38U)) ? 19 : (((v_77 == 37U)) ? 18 : (((v_77 == 36U)) ? 17 : (((v_77 == 35U)) ? 11 : (((v_77 == 34U)) ? 10 : (((v_77 == 33U)) ? 9 : (((v_77 == 32U)) ? 8 : (((v_77 == 13U)) ? 7 : (((v_77 == 10U)) ? 5 : (((v_77 == 9U)) ? 4 : 3)))))))))))))))))))))))))))))))))));
    }
    if (pc == 3) {
      uint64_t v_79 = (v_74 + (uint64_t)((int64_t)(int64_t)((uint64_t)1ULL) * 1));
      IR_ST64(v_3, v_79);
      npc = 292;
    }
    if (pc == 4) {
      uint64_t v_81 = (v_74 + (uint64_t)((int64_t)(int64_t)((uint64_t)1ULL) * 1));
      IR_ST64(v_3, v_81);
      npc = 292;
    }
    if (pc == 5) {
      uint64_t v_83 = IR_LD64(v_3);
      uint64_t v_84 = (v_83 + (uint64_t)((int64_t)(int64_t)((uint64_t)1ULL) * 1));
      IR_ST64(v_3, v_84);
      IR_ST64(v_61, v_84);
      uint8_t v_85 = IR_LD8(v_84);
      uint8_t v_86 = (v_85 == ((uint8_t)32ULL));
      npc = v_86 ? 52 : 6;
    }
    if (pc == 6) {
      npc = 292;
    }
    if (pc == 7) {
      uint64_t v_89 = (v_74 + (uint64_t)((int64_t)(int64_t)((uint64_t)1ULL) * 1));
      IR_ST64(v_3, v_89);
      IR_ST64(v_60, v_89);
      uint8_t v_90 = IR_LD8(v_89);
      npc = (((v_90 == 32U)) ? 52 : (((v_90 == 10U)) ? 5 : 6));
    }
    if (pc == 8) {
      uint64_t v_92 = (v_74 + (uint64_t)((int64_t)(int64_t)((uint64_t)1ULL) * 1));
      IR_ST64(v_3, v_92);
      IR_ST64(v_50, v_92);
      uint8_t v_93 = IR_LD8(v_92);
      npc = (((v_93 == 194U)) ? 66 : (((v_93 == 32U)) ? 64 : (((v_93 == 13U)) ? 63 : (((v_93 == 10U)) ? 62 : (((v_93 == 9U)) ? 61 : 292)))));
    }
    if (pc == 9) {
      uint64_t v_95 = (v_74 + (uint64_t)((int64_t)(int64_t)((uint64_t)1ULL) * 1));
      IR_ST64(v_3, v_95);
      uint8_t v_96 = IR_LD8(v_95);
      uint8_t v_97 = (v_96 == ((uint8_t)91ULL));
      npc = v_97 ? 67 : 292;
    }
    if (pc == 10) {
      uint64_t v_99 = (v_74 + (uint64_t)((int64_t)(int64_t)((uint64_t)1ULL) * 1));
      IR_ST64(v_3, v_99);
      npc = 292;
    }
    if (pc == 11) {
      v_101 = (v_74 + (uint64_t)((int64_t)(int64_t)((uint64_t)1ULL) * 1));
      IR_ST64(v_3, v_101);
      IR_ST64(v_19, v_101);
      uint8_t v_102 = IR_LD8(v_101);
      npc = (((v_102 == 194U)) ? 15 : (((v_102 == 35U)) ? 74 : (((v_102 == 13U)) ? 14 : (((v_102 == 9U) || (v_102 == 32U)) ? 13 : (((v_102 == 0U) || (v_102 == 10U)) ? 12 : 16)))));
    }
    if (pc == 12) {
      IR_ST64(v_48, v_101);
      npc = 68;
    }
    if (pc == 13) {
      IR_ST64(v_47, v_101);
      npc = 80;
    }
    if (pc == 14) {
      IR_ST64(v_46, v_101);
      npc = 73;
    }
    if (pc == 15) {
      IR_ST64(v_20, v_101);
      npc = 79;
    }
    if (pc == 16) {
      npc = 292;
    }
    if (pc == 17) {
      uint64_t v_109 = (v_74 + (uint64_t)((int64_t)(int64_t)((uint64_t)1ULL) * 1));
      IR_ST64(v_3, v_109);
      uint8_t v_110 = IR_LD8(v_109);
      uint8_t v_111 = (v_110 == ((uint8_t)36ULL));
      npc = v_111 ? 81 : 292;
    }
    if (pc == 18) {
      uint64_t v_113 = (v_74 + (uint64_t)((int64_t)(int64_t)((uint64_t)1ULL) * 1));
      IR_ST64(v_3, v_113);
      npc = 292;
    }
    if (pc == 19) {
      uint64_t v_115 = (v_74 + (uint64_t)((int64_t)(int64_t)((uint64_t)1ULL) * 1));
      IR_ST64(v_3, v_115);
      IR_ST64(v_18, v_115);
      uint8_t v_116 = IR_LD8(v_115);
      npc = (((v_116 == 65U) || (v_116 == 97U)) ? 86 : (((v_116 >= 48U && v_116 <= 57U) || (v_116 >= 66U && v_116 <= 90U) || (v_116 >= 98U && v_116 <= 122U)) ? 84 : (((v_116 == 35U)) ? 82 : 20)));
    }
    if (pc == 20) {
      npc = 292;
    }
    if (pc == 21) {
      uint64_t v_119 = (v_74 + (uint64_t)((int64_t)(int64_t)((uint64_t)1ULL) * 1));
      IR_ST64(v_3, v_119);
      uint8_t v_120 = IR_LD8(v_119);
      uint8_t v_121 = (v_120 == ((uint8_t)39ULL));
      npc = v_121 ? 87 : 292;
    }
    if (pc == 22) {
      uint64_t v_123 = (v_74 + (uint64_t)((int64_t)(int64_t)((uint64_t)1ULL) * 1));
      IR_ST64(v_3, v_123);
      npc = 292;
    }
    if (pc == 23) {
      uint64_t v_125 = (v_74 + (uint64_t)((int64_t)(int64_t)((uint64_t)1ULL) * 1));
      IR_ST64(v_3, v_125);
      npc = 292;
    }
    if (pc == 24) {
      uint64_t v_127 = (v_74 + (uint64_t)((int64_t)(int64_t)((uint64_t)1ULL) * 1));
      IR_ST64(v_3, v_127);
      npc = 292;
    }
    if (pc == 25) {
      uint64_t v_129 = (v_74 + (uint64_t)((int64_t)(int64_t)((uint64_t)1ULL) * 1));
      IR_ST64(v_3, v_129);
      IR_ST64(v_17, v_129);
      uint8_t v_130 = IR_LD8(v_129);
      uint8_t v_131 = (v_130 == ((uint8_t)43ULL));
      npc = v_131 ? 88 : 26;
    }
    if (pc == 26) {
      npc = 292;
    }
    if (pc == 27) {
      uint64_t v_134 = (v_74 + (uint64_t)((int64_t)(int64_t)((uint64_t)1ULL) * 1));
      IR_ST64(v_3, v_134);
      uint8_t v_135 = IR_LD8(v_134);
      uint8_t v_136 = (v_135 == ((uint8_t)45ULL));
      npc = v_136 ? 89 : 292;
    }
    if (pc == 28) {
      uint64_t v_138 = (v_74 + (uint64_t)((int64_t)(int64_t)((uint64_t)1ULL) * 1));
      IR_ST64(v_3, v_138);
      IR_ST64(v_16, v_138);
      uint8_t v_139 = IR_LD8(v_138);
      npc = (((v_139 == 46U)) ? 91 : (((v_139 == 32U)) ? 90 : 292));
    }
    if (pc == 29) {
      uint64_t v_141 = (v_74 + (uint64_t)((int64_t)(int64_t)((uint64_t)1ULL) * 1));
      IR_ST64(v_3, v_141);
      npc = 292;
    }
    if (pc == 30) {
      uint64_t v_143 = (v_74 + (uint64_t)((int64_t)(int64_t)((uint64_t)1ULL) * 1));
      IR_ST64(v_3, v_143);
      IR_ST64(v_11, v_143);
      uint8_t v_144 = IR_LD8(v_143);
      npc = (((v_144 >= 48U && v_144 <= 57U)) ? 31 : (((v_144 == 46U)) ? 92 : 292));
    }
    if (pc == 31) {
      npc = 97;
    }
    if (pc == 32) {
      uint64_t v_147 = (v_74 + (uint64_t)((int64_t)(int64_t)((uint64_t)1ULL) * 1));
      IR_ST64(v_3, v_147);
      npc = 292;
    }
    if (pc == 33) {
      uint64_t v_149 = (v_74 + (uint64_t)((int64_t)(int64_t)((uint64_t)1ULL) * 1));
      IR_ST64(v_3, v_149);
      IR_ST64(v_10, v_149);
      uint8_t v_150 = IR_LD8(v_149);
      npc = (((v_150 == 60U)) ? 100 : (((v_150 == 33U)) ? 99 : 34));
    }
    if (pc == 34) {
      npc = 292;
    }
    if (pc == 35) {
      uint64_t v_153 = (v_74 + (uint64_t)((int64_t)(int64_t)((uint64_t)1ULL) * 1));
      IR_ST64(v_3, v_153);
      IR_ST64(v_9, v_153);
      uint8_t v_154 = IR_LD8(v_153);
      uint8_t v_155 = (v_154 == ((uint8_t)61ULL));
      npc = v_155 ? 101 : 36;
    }
    if (pc == 36) {
      npc = 292;
    }
    if (pc == 37) {
      uint64_t v_158 = (v_74 + (uint64_t)((int64_t)(int64_t)((uint64_t)1ULL) * 1));
      IR_ST64(v_3, v_158);
      npc = 292;
    }
    if (pc == 38) {
      uint64_t v_160 = (v_74 + (uint64_t)((int64_t)(int64_t)((uint64_t)1ULL) * 1));
      IR_ST64(v_3, v_160);
      uint8_t v_161 = IR_LD8(v_160);
      npc = (((v_161 == 94U)) ? 106 : (((v_161 == 63U)) ? 105 : (((v_161 == 62U)) ? 104 : (((v_161 == 37U)) ? 103 : (((v_161 == 35U)) ? 102 : 292)))));
    }
    if (pc == 39) {
      uint64_t v_163 = (v_74 + (uint64_t)((int64_t)(int64_t)((uint64_t)1ULL) * 1));
      IR_ST64(v_3, v_163);
      uint8_t v_164 = IR_LD8(v_163);
      npc = (((v_164 == 126U)) ? 141 : (((v_164 == 125U)) ? 140 : (((v_164 == 124U)) ? 139 : (((v_164 == 123U)) ? 138 : (((v_164 == 96U)) ? 137 : (((v_164 == 95U)) ? 136 : (((v_164 == 94U)) ? 135 : (((v_164 == 93U)) ? 134 : (((v_164 == 92U)) ? 133 : (((v_164 == 91U)) ? 132 : (((v_164 == 64U)) ? 131 : (((v_164 == 63U)) ? 130 : (((v_164 == 62U)) ? 129 : (((v_164 == 61U)) ? 128 : (((v_164 == 60U)) ? 127 : (((v_164 == 59U)) ? 126 : (((v_164 == 58U)) ? 125 : (((v_164 == 47U)) ? 124 : (((v_164 == 46U)) ? 123 : (((v_164 == 45U)) ? 122 : (((v_164 == 44U)) ? 121 : (((v_164 == 43U)) ? 120 : (((v_164 == 42U)) ? 119 : (((v_164 == 41U)) ? 118 : (((v_164 == 40U)) ? 117 : (((v_164 == 39U)) ? 116 : (((v_164 == 38U)) ? 115 : (((v_164 == 37U)) ? 114 : (((v_164 == 36U)) ? 113 : (((v_164 == 35U)) ? 112 : (((v_164 == 34U)) ? 111 : (((v_164 == 33U)) ? 110 : (((v_164 == 32U)) ? 109 : (((v_164 == 13U)) ? 108 : (((v_164 == 10U)) ? 107 : 292)))))))))))))))))))))))))))))))))));
    }
    if (pc == 40) {
      uint64_t v_166 = (v_74 + (uint64_t)((int64_t)(int64_t)((uint64_t)1ULL) * 1));
      IR_ST64(v_3, v_166);
      npc = 292;
    }
    if (pc == 41) {
      uint64_t v_168 = (v_74 + (uint64_t)((int64_t)(int64_t)((uint64_t)1ULL) * 1));
      IR_ST64(v_3, v_168);
      npc = 292;
    }
    if (pc == 42) {
      uint64_t v_170 = (v_74 + (uint64_t)((int64_t)(int64_t)((uint64_t)1ULL) * 1));
      IR_ST64(v_3, v_170);
      npc = 292;
    }
    if (pc == 43) {
      uint64_t v_172 = IR_LD64(v_3);
      uint64_t v_173 = (v_172 + (uint64_t)((int64_t)(int64_t)((uint64_t)1ULL) * 1));
      IR_ST64(v_3, v_173);
      uint8_t v_174 = IR_LD8(v_173);
      uint8_t v_175 = (v_174 == ((uint8_t)96ULL));
      npc = v_175 ? 43 : 292;
    }
    if (pc == 44) {
      uint64_t v_177 = (v_74 + (uint64_t)((int64_t)(int64_t)((uint64_t)1ULL) * 1));
      IR_ST64(v_3, v_177);
      IR_ST64(v_8, v_177);
      uint8_t v_178 = IR_LD8(v_177);
      npc = (((v_178 == 126U)) ? 148 : (((v_178 == 123U)) ? 146 : (((v_178 == 62U)) ? 145 : (((v_178 == 61U)) ? 144 : (((v_178 == 45U)) ? 143 : (((v_178 == 43U)) ? 142 : 45))))));
    }
    if (pc == 45) {
      npc = 292;
    }
    if (pc == 46) {
      uint64_t v_181 = IR_LD64(v_3);
      uint64_t v_182 = (v_181 + (uint64_t)((int64_t)(int64_t)((uint64_t)1ULL) * 1));
      IR_ST64(v_3, v_182);
      uint8_t v_183 = IR_LD8(v_182);
      uint8_t v_184 = (v_183 == ((uint8_t)124ULL));
      npc = v_184 ? 46 : 292;
    }
    if (pc == 47) {
      uint64_t v_186 = (v_74 + (uint64_t)((int64_t)(int64_t)((uint64_t)1ULL) * 1));
      IR_ST64(v_3, v_186);
      uint8_t v_187 = IR_LD8(v_186);
      uint8_t v_188 = (v_187 == ((uint8_t)125ULL));
      npc = v_188 ? 149 : 292;
    }
    if (pc == 48) {
      uint64_t v_190 = (v_74 + (uint64_t)((int64_t)(int64_t)((uint64_t)1ULL) * 1));
      IR_ST64(v_3, v_190);
      IR_ST64(v_7, v_190);
      uint8_t v_191 = IR_LD8(v_190);
      npc = (((v_191 == 126U)) ? 151 : (((v_191 == 62U)) ? 150 : 49));
    }
    if (pc == 49) {
      npc = 292;
    }
    if (pc == 50) {
      uint64_t v_194 = (v_74 + (uint64_t)((int64_t)(int64_t)((uint64_t)1ULL) * 1));
      IR_ST64(v_3, v_194);
      IR_ST64(v_6, v_194);
      uint8_t v_195 = IR_LD8(v_194);
      uint8_t v_196 = (v_195 == ((uint8_t)160ULL));
      npc = v_196 ? 152 : 292;
    }
    if (pc == 51) {
      uint64_t v_198 = (v_74 + (uint64_t)((int64_t)(int64_t)((uint64_t)1ULL) * 1));
      IR_ST64(v_3, v_198);
      IR_ST64(v_5, v_198);
      uint8_t v_199 = IR_LD8(v_198);
      uint8_t v_200 = (v_199 == ((uint8_t)191ULL));
      npc = v_200 ? 153 : 292;
    }
    if (pc == 52) {
      v_202 = IR_LD64(v_3);
      v_203 = (v_202 + (uint64_t)((int64_t)(int64_t)((uint64_t)1ULL) * 1));
      IR_ST64(v_3, v_203);
      uint8_t v_204 = IR_LD8(v_203);
      npc = (((v_204 == 244U)) ? 59 : (((v_204 >= 241U && v_204 <= 243U)) ? 58 : (((v_204 == 240U)) ? 57 : (((v_204 >= 225U && v_204 <= 239U)) ? 56 : (((v_204 == 224U)) ? 55 : (((v_204 >= 194U && v_204 <= 223U)) ? 54 : (((v_204 >= 0U && v_204 <= 8U) || (v_204 >= 11U && v_204 <= 12U) || (v_204 >= 14U && v_204 <= 31U) || (v_204 >= 33U && v_204 <= 127U)) ? 53 : 60)))))));
    }
    if (pc == 53) {
      IR_ST64(v_68, v_203);
      npc = 154;
    }
    if (pc == 54) {
      IR_ST64(v_67, v_203);
      npc = 155;
    }
    if (pc == 55) {
      IR_ST64(v_66, v_203);
      uint64_t v_208 = (v_202 + (uint64_t)((int64_t)(int64_t)((uint64_t)2ULL) * 1));
      IR_ST64(v_3, v_208);
      uint8_t v_209 = IR_LD8(v_208);
      uint8_t v_210 = (uint8_t)((uint32_t)v_209 & (uint32_t)((uint8_t)224ULL));
      uint8_t v_211 = (v_210 == ((uint8_t)160ULL));
      npc = v_211 ? 155 : 60;
    }
    if (pc == 56) {
      IR_ST64(v_65, v_203);
      npc = 156;
    }
    if (pc == 57) {
      IR_ST64(v_64, v_203);
      uint64_t v_214 = (v_202 + (uint64_t)((int64_t)(int64_t)((uint64_t)2ULL) * 1));
      IR_ST64(v_3, v_214);
      uint8_t v_215 = IR_LD8(v_214);
      uint8_t v_216 = (uint8_t)((uint32_t)v_215 + (uint32_t)((uint8_t)112ULL));
      uint8_t v_217 = (v_216 < ((uint8_t)48ULL));
      npc = v_217 ? 156 : 60;
    }
    if (pc == 58) {
      IR_ST64(v_63, v_203);
      uint64_t v_219 = (v_202 + (uint64_t)((int64_t)(int64_t)((uint64_t)2ULL) * 1));
      IR_ST64(v_3, v_219);
      uint8_t v_220 = IR_LD8(v_219);
      uint8_t v_221 = ((int8_t)v_220 < (int8_t)((uint8_t)192ULL));
      npc = v_221 ? 156 : 60;
    }
    if (pc == 59) {
      IR_ST64(v_62, v_203);
      uint64_t v_223 = (v_202 + (uint64_t)((int64_t)(int64_t)((uint64_t)2ULL) * 1));
      IR_ST64(v_3, v_223);
      uint8_t v_224 = IR_LD8(v_223);
      uint8_t v_225 = ((int8_t)v_224 < (int8_t)((uint8_t)144ULL));
      npc = v_225 ? 156 : 60;
    }
    if (pc == 60) {
      {
        uint32_t t0; switch (prev) {
          case 153: t0 = ((uint32_t)1ULL); break;
          case 152: t0 = ((uint32_t)1ULL); break;
          case 207: t0 = ((uint32_t)12ULL); break;
          case 214: t0 = ((uint32_t)12ULL); break;
          case 240: t0 = ((uint32_t)12ULL); break;
          case 239: t0 = ((uint32_t)12ULL); break;
          case 213: t0 = ((uint32_t)12ULL); break;
          case 212: t0 = ((uint32_t)12ULL); break;
          case 210: t0 = ((uint32_t)12ULL); break;
          case 242: t0 = ((uint32_t)15ULL); break;
          case 217: t0 = ((uint32_t)9ULL); break;
          case 161: t0 = ((uint32_t)9ULL); break;
          case 66: t0 = ((uint32_t)1ULL); break;
          case 151: t0 = ((uint32_t)8ULL); break;
          case 148: t0 = ((uint32_t)7ULL); break;
          case 260: t0 = ((uint32_t)11ULL); break;
          case 275: t0 = ((uint32_t)11ULL); break;
          case 274: t0 = ((uint32_t)11ULL); break;
          case 284: t0 = ((uint32_t)11ULL); break;
          case 287: t0 = ((uint32_t)11ULL); break;
          case 286: t0 = ((uint32_t)11ULL); break;
          case 290: t0 = ((uint32_t)11ULL); break;
          case 288: t0 = ((uint32_t)11ULL); break;
          case 237: t0 = ((uint32_t)11ULL); break;
          case 203: t0 = ((uint32_t)11ULL); break;
          case 145: t0 = ((uint32_t)7ULL); break;
          case 143: t0 = ((uint32_t)7ULL); break;
          case 142: t0 = ((uint32_t)7ULL); break;
          case 101: t0 = ((uint32_t)6ULL); break;
          case 100: t0 = ((uint32_t)5ULL); break;
          case 192: t0 = ((uint32_t)5ULL); break;
          case 99: t0 = ((uint32_t)5ULL); break;
          case 92: t0 = ((uint32_t)1ULL); break;
          case 190: t0 = v_565; break;
          case 91: t0 = ((uint32_t)1ULL); break;
          case 235: t0 = ((uint32_t)1ULL); break;
          case 184: t0 = ((uint32_t)1ULL); break;
          case 90: t0 = ((uint32_t)1ULL); break;
          case 88: t0 = ((uint32_t)4ULL); break;
          case 85: t0 = ((uint32_t)3ULL); break;
          case 82: t0 = ((uint32_t)3ULL); break;
          case 177: t0 = ((uint32_t)3ULL); break;
          case 79: t0 = v_273; break;
          case 74: t0 = ((uint32_t)2ULL); break;
          case 173: t0 = v_519; break;
          case 168: t0 = ((uint32_t)2ULL); break;
          case 229: t0 = v_663; break;
          case 224: t0 = ((uint32_t)2ULL); break;
          case 255: t0 = v_739; break;
          case 250: t0 = ((uint32_t)2ULL); break;
          case 272: t0 = v_779; break;
          case 267: t0 = ((uint32_t)2ULL); break;
          case 282: t0 = v_811; break;
          case 52: t0 = ((uint32_t)0ULL); break;
          case 59: t0 = ((uint32_t)0ULL); break;
          case 156: t0 = ((uint32_t)0ULL); break;
          case 155: t0 = ((uint32_t)0ULL); break;
          case 58: t0 = ((uint32_t)0ULL); break;
          case 57: t0 = ((uint32_t)0ULL); break;
          case 55: t0 = ((uint32_t)0ULL); break;
          case 241: t0 = ((uint32_t)15ULL); break;
          case 175: t0 = ((uint32_t)3ULL); break;
          case 232: t0 = ((uint32_t)3ULL); break;
          case 97: t0 = ((uint32_t)1ULL); break;
          default: t0 = 0; break; }
        v_227 = t0;
      }
      uint64_t v_228 = IR_LD64(v_70);
      IR_ST64(v_3, v_228);
      npc = (((v_227 == 18U)) ? 265 : (((v_227 == 17U)) ? 248 : (((v_227 == 16U)) ? 222 : (((v_227 == 15U)) ? 216 : (((v_227 == 14U)) ? 188 : (((v_227 == 13U)) ? 166 : (((v_227 == 12U)) ? 158 : (((v_227 == 11U)) ? 147 : (((v_227 == 10U)) ? 72 : (((v_227 == 9U)) ? 65 : (((v_227 == 8U)) ? 49 : (((v_227 == 7U)) ? 45 : (((v_227 == 6U)) ? 36 : (((v_227 == 5U)) ? 34 : (((v_227 == 4U)) ? 26 : (((v_227 == 3U)) ? 20 : (((v_227 == 2U)) ? 16 : (((v_227 == 1U)) ? 292 : (((v_227 == 0U)) ? 6 : 280)))))))))))))))))));
    }
    if (pc == 61) {
      npc = 292;
    }
    if (pc == 62) {
      uint64_t v_231 = IR_LD64(v_3);
      uint64_t v_232 = (v_231 + (uint64_t)((int64_t)(int64_t)((uint64_t)1ULL) * 1));
      IR_ST64(v_3, v_232);
      npc = 6;
    }
    if (pc == 63) {
      uint64_t v_234 = (v_74 + (uint64_t)((int64_t)(int64_t)((uint64_t)2ULL) * 1));
      IR_ST64(v_3, v_234);
      uint8_t v_235 = IR_LD8(v_234);
      uint8_t v_236 = (v_235 == ((uint8_t)10ULL));
      npc = v_236 ? 62 : 6;
    }
    if (pc == 64) {
      v_238 = IR_LD64(v_3);
      uint64_t v_239 = (v_238 + (uint64_t)((int64_t)(int64_t)((uint64_t)1ULL) * 1));
      IR_ST64(v_3, v_239);
      IR_ST64(v_51, v_239);
      uint8_t v_240 = IR_LD8(v_239);
      npc = (((v_240 == 194U)) ? 161 : (((v_240 == 32U)) ? 160 : (((v_240 == 13U)) ? 159 : (((v_240 == 10U)) ? 157 : 65))));
    }
    if (pc == 65) {
      npc = 292;
    }
    if (pc == 66) {
      uint64_t v_243 = IR_LD64(v_3);
      uint64_t v_244 = (v_243 + (uint64_t)((int64_t)(int64_t)((uint64_t)1ULL) * 1));
      IR_ST64(v_3, v_244);
      uint8_t v_245 = IR_LD8(v_244);
      uint8_t v_246 = (v_245 == ((uint8_t)160ULL));
      npc = v_246 ? 64 : 60;
    }
    if (pc == 67) {
      uint64_t v_248 = (v_74 + (uint64_t)((int64_t)(int64_t)((uint64_t)2ULL) * 1));
      IR_ST64(v_3, v_248);
      npc = 292;
    }
    if (pc == 68) {
      uint64_t v_250 = IR_LD64(v_3);
      uint64_t v_251 = (v_250 + (uint64_t)((int64_t)(int64_t)((uint64_t)1ULL) * 1));
      IR_ST64(v_3, v_251);
      npc = 69;
    }
    if (pc == 69) {
      uint64_t v_253 = IR_LD64(v_49);
      IR_ST64(v_3, v_253);
      npc = 292;
    }
    if (pc == 70) {
      uint64_t v_255 = IR_LD64(v_3);
      uint64_t v_256 = (v_255 + (uint64_t)((int64_t)(int64_t)((uint64_t)1ULL) * 1));
      IR_ST64(v_3, v_256);
      IR_ST64(v_19, v_256);
      uint8_t v_257 = IR_LD8(v_256);
      npc = (((v_257 == 194U)) ? 79 : (((v_257 == 13U)) ? 73 : (((v_257 == 9U) || (v_257 == 32U)) ? 71 : (((v_257 == 0U) || (v_257 == 10U)) ? 68 : 72))));
    }
    if (pc == 71) {
      npc = 70;
    }
    if (pc == 72) {
      npc = 292;
    }
    if (pc == 73) {
      uint64_t v_261 = IR_LD64(v_3);
      uint64_t v_262 = (v_261 + (uint64_t)((int64_t)(int64_t)((uint64_t)1ULL) * 1));
      IR_ST64(v_3, v_262);
      uint8_t v_263 = IR_LD8(v_262);
      uint8_t v_264 = (v_263 == ((uint8_t)10ULL));
      npc = v_264 ? 68 : 69;
    }
    if (pc == 74) {
      v_266 = (v_74 + (uint64_t)((int64_t)(int64_t)((uint64_t)2ULL) * 1));
      IR_ST64(v_3, v_266);
      uint8_t v_267 = IR_LD8(v_266);
      npc = (((v_267 == 194U)) ? 78 : (((v_267 == 35U)) ? 168 : (((v_267 == 13U)) ? 77 : (((v_267 == 9U) || (v_267 == 32U)) ? 76 : (((v_267 == 0U) || (v_267 == 10U)) ? 75 : 60)))));
    }
    if (pc == 75) {
      IR_ST64(v_44, v_266);
      npc = 162;
    }
    if (pc == 76) {
      IR_ST64(v_43, v_266);
      npc = 174;
    }
    if (pc == 77) {
      IR_ST64(v_42, v_266);
      npc = 167;
    }
    if (pc == 78) {
      IR_ST64(v_21, v_266);
      npc = 173;
    }
    if (pc == 79) {
      {
        uint32_t t0; switch (prev) {
          case 15: t0 = ((uint32_t)2ULL); break;
          case 70: t0 = ((uint32_t)10ULL); break;
          default: t0 = 0; break; }
        v_273 = t0;
      }
      uint64_t v_274 = IR_LD64(v_3);
      uint64_t v_275 = (v_274 + (uint64_t)((int64_t)(int64_t)((uint64_t)1ULL) * 1));
      IR_ST64(v_3, v_275);
      uint8_t v_276 = IR_LD8(v_275);
      uint8_t v_277 = (v_276 == ((uint8_t)160ULL));
      npc = v_277 ? 80 : 60;
    }
    if (pc == 80) {
      npc = 70;
    }
    if (pc == 81) {
      uint64_t v_280 = (v_74 + (uint64_t)((int64_t)(int64_t)((uint64_t)2ULL) * 1));
      IR_ST64(v_3, v_280);
      npc = 292;
    }
    if (pc == 82) {
      uint64_t v_282 = (v_74 + (uint64_t)((int64_t)(int64_t)((uint64_t)2ULL) * 1));
      IR_ST64(v_3, v_282);
      uint8_t v_283 = IR_LD8(v_282);
      npc = (((v_283 == 88U) || (v_283 == 120U)) ? 177 : (((v_283 >= 48U && v_283 <= 57U)) ? 83 : 60));
    }
    if (pc == 83) {
      npc = 175;
    }
    if (pc == 84) {
      uint64_t v_286 = IR_LD64(v_3);
      uint64_t v_287 = (v_286 + (uint64_t)((int64_t)(int64_t)((uint64_t)1ULL) * 1));
      IR_ST64(v_3, v_287);
      v_288 = IR_LD8(v_287);
      npc = 85;
    }
    if (pc == 85) {
      {
        uint8_t t0; switch (prev) {
          case 86: t0 = v_293; break;
          case 84: t0 = v_288; break;
          case 179: t0 = v_539; break;
          case 234: t0 = v_679; break;
          default: t0 = 0; break; }
        v_290 = t0;
      }
      npc = (((v_290 == 59U)) ? 178 : (((v_290 >= 48U && v_290 <= 57U) || (v_290 >= 65U && v_290 <= 90U) || (v_290 >= 97U && v_290 <= 122U)) ? 84 : 60));
    }
    if (pc == 86) {
      uint64_t v_292 = (v_74 + (uint64_t)((int64_t)(int64_t)((uint64_t)2ULL) * 1));
      IR_ST64(v_3, v_292);
      v_293 = IR_LD8(v_292);
      npc = (((v_293 == 77U) || (v_293 == 109U)) ? 179 : 85);
    }
    if (pc == 87) {
      uint64_t v_295 = (v_74 + (uint64_t)((int64_t)(int64_t)((uint64_t)2ULL) * 1));
      IR_ST64(v_3, v_295);
      npc = 292;
    }
    if (pc == 88) {
      uint64_t v_297 = (v_74 + (uint64_t)((int64_t)(int64_t)((uint64_t)2ULL) * 1));
      IR_ST64(v_3, v_297);
      uint8_t v_298 = IR_LD8(v_297);
      uint8_t v_299 = (v_298 == ((uint8_t)125ULL));
      npc = v_299 ? 180 : 60;
    }
    if (pc == 89) {
      uint64_t v_301 = (v_74 + (uint64_t)((int64_t)(int64_t)((uint64_t)2ULL) * 1));
      IR_ST64(v_3, v_301);
      uint8_t v_302 = IR_LD8(v_301);
      npc = (((v_302 == 125U)) ? 183 : (((v_302 == 62U)) ? 182 : (((v_302 == 45U)) ? 181 : 292)));
    }
    if (pc == 90) {
      uint64_t v_304 = (v_74 + (uint64_t)((int64_t)(int64_t)((uint64_t)2ULL) * 1));
      IR_ST64(v_3, v_304);
      uint8_t v_305 = IR_LD8(v_304);
      uint8_t v_306 = (v_305 == ((uint8_t)46ULL));
      npc = v_306 ? 184 : 60;
    }
    if (pc == 91) {
      uint64_t v_308 = (v_74 + (uint64_t)((int64_t)(int64_t)((uint64_t)2ULL) * 1));
      IR_ST64(v_3, v_308);
      uint8_t v_309 = IR_LD8(v_308);
      uint8_t v_310 = (v_309 == ((uint8_t)46ULL));
      npc = v_310 ? 185 : 60;
    }
    if (pc == 92) {
      v_312 = IR_LD64(v_3);
      v_313 = (v_312 + (uint64_t)((int64_t)(int64_t)((uint64_t)1ULL) * 1));
      IR_ST64(v_3, v_313);
      uint8_t v_314 = IR_LD8(v_313);
      npc = (((v_314 == 194U)) ? 96 : (((v_314 == 13U)) ? 95 : (((v_314 == 10U)) ? 94 : (((v_314 == 9U) || (v_314 == 32U)) ? 93 : 60))));
    }
    if (pc == 93) {
      IR_ST64(v_15, v_313);
      npc = 191;
    }
    if (pc == 94) {
      IR_ST64(v_14, v_313);
      npc = 189;
    }
    if (pc == 95) {
      IR_ST64(v_13, v_313);
      uint64_t v_318 = (v_312 + (uint64_t)((int64_t)(int64_t)((uint64_t)2ULL) * 1));
      IR_ST64(v_3, v_318);
      uint8_t v_319 = IR_LD8(v_318);
      uint8_t v_320 = (v_319 == ((uint8_t)10ULL));
      npc = v_320 ? 189 : 188;
    }
    if (pc == 96) {
      IR_ST64(v_12, v_313);
      npc = 190;
    }
    if (pc == 97) {
      uint64_t v_323 = IR_LD64(v_3);
      uint64_t v_324 = (v_323 + (uint64_t)((int64_t)(int64_t)((uint64_t)1ULL) * 1));
      IR_ST64(v_3, v_324);
      uint8_t v_325 = IR_LD8(v_324);
      npc = (((v_325 >= 48U && v_325 <= 57U)) ? 98 : (((v_325 == 46U)) ? 92 : 60));
    }
    if (pc == 98) {
      npc = 97;
    }
    if (pc == 99) {
      uint64_t v_328 = (v_74 + (uint64_t)((int64_t)(int64_t)((uint64_t)2ULL) * 1));
      IR_ST64(v_3, v_328);
      uint8_t v_329 = IR_LD8(v_328);
      uint8_t v_330 = (v_329 == ((uint8_t)45ULL));
      npc = v_330 ? 192 : 60;
    }
    if (pc == 100) {
      uint64_t v_332 = (v_74 + (uint64_t)((int64_t)(int64_t)((uint64_t)2ULL) * 1));
      IR_ST64(v_3, v_332);
      uint8_t v_333 = IR_LD8(v_332);
      uint8_t v_334 = (v_333 == ((uint8_t)125ULL));
      npc = v_334 ? 193 : 60;
    }
    if (pc == 101) {
      uint64_t v_336 = (v_74 + (uint64_t)((int64_t)(int64_t)((uint64_t)2ULL) * 1));
      IR_ST64(v_3, v_336);
      uint8_t v_337 = IR_LD8(v_336);
      uint8_t v_338 = (v_337 == ((uint8_t)125ULL));
      npc = v_338 ? 194 : 60;
    }
    if (pc == 102) {
      uint64_t v_340 = (v_74 + (uint64_t)((int64_t)(int64_t)((uint64_t)2ULL) * 1));
      IR_ST64(v_3, v_340);
      npc = 292;
    }
    if (pc == 103) {
      uint64_t v_342 = (v_74 + (uint64_t)((int64_t)(int64_t)((uint64_t)2ULL) * 1));
      IR_ST64(v_3, v_342);
      npc = 292;
    }
    if (pc == 104) {
      uint64_t v_344 = (v_74 + (uint64_t)((int64_t)(int64_t)((uint64_t)2ULL) * 1));
      IR_ST64(v_3, v_344);
      npc = 292;
    }
    if (pc == 105) {
      uint64_t v_346 = (v_74 + (uint64_t)((int64_t)(int64_t)((uint64_t)2ULL) * 1));
      IR_ST64(v_3, v_346);
      npc = 292;
    }
    if (pc == 106) {
      uint64_t v_348 = (v_74 + (uint64_t)((int64_t)(int64_t)((uint64_t)2ULL) * 1));
      IR_ST64(v_3, v_348);
      npc = 292;
    }
    if (pc == 107) {
      uint64_t v_350 = IR_LD64(v_3);
      uint64_t v_351 = (v_350 + (uint64_t)((int64_t)(int64_t)((uint64_t)1ULL) * 1));
      IR_ST64(v_3, v_351);
      npc = 292;
    }
    if (pc == 108) {
      uint64_t v_353 = (v_74 + (uint64_t)((int64_t)(int64_t)((uint64_t)2ULL) * 1));
      IR_ST64(v_3, v_353);
      uint8_t v_354 = IR_LD8(v_353);
      uint8_t v_355 = (v_354 == ((uint8_t)10ULL));
      npc = v_355 ? 107 : 292;
    }
    if (pc == 109) {
      uint64_t v_357 = (v_74 + (uint64_t)((int64_t)(int64_t)((uint64_t)2ULL) * 1));
      IR_ST64(v_3, v_357);
      npc = 292;
    }
    if (pc == 110) {
      uint64_t v_359 = (v_74 + (uint64_t)((int64_t)(int64_t)((uint64_t)2ULL) * 1));
      IR_ST64(v_3, v_359);
      npc = 292;
    }
    if (pc == 111) {
      uint64_t v_361 = (v_74 + (uint64_t)((int64_t)(int64_t)((uint64_t)2ULL) * 1));
      IR_ST64(v_3, v_361);
      npc = 292;
    }
    if (pc == 112) {
      uint64_t v_363 = (v_74 + (uint64_t)((int64_t)(int64_t)((uint64_t)2ULL) * 1));
      IR_ST64(v_3, v_363);
      npc = 292;
    }
    if (pc == 113) {
      uint64_t v_365 = (v_74 + (uint64_t)((int64_t)(int64_t)((uint64_t)2ULL) * 1));
      IR_ST64(v_3, v_365);
      npc = 292;
    }
    if (pc == 114) {
      uint64_t v_367 = (v_74 + (uint64_t)((int64_t)(int64_t)((uint64_t)2ULL) * 1));
      IR_ST64(v_3, v_367);
      npc = 292;
    }
    if (pc == 115) {
      uint64_t v_369 = (v_74 + (uint64_t)((int64_t)(int64_t)((uint64_t)2ULL) * 1));
      IR_ST64(v_3, v_369);
      npc = 292;
    }
    if (pc == 116) {
      uint64_t v_371 = (v_74 + (uint64_t)((int64_t)(int64_t)((uint64_t)2ULL) * 1));
      IR_ST64(v_3, v_371);
      npc = 292;
    }
    if (pc == 117) {
      uint64_t v_373 = (v_74 + (uint64_t)((int64_t)(int64_t)((uint64_t)2ULL) * 1));
      IR_ST64(v_3, v_373);
      npc = 292;
    }
    if (pc == 118) {
      uint64_t v_375 = (v_74 + (uint64_t)((int64_t)(int64_t)((uint64_t)2ULL) * 1));
      IR_ST64(v_3, v_375);
      npc = 292;
    }
    if (pc == 119) {
      uint64_t v_377 = (v_74 + (uint64_t)((int64_t)(int64_t)((uint64_t)2ULL) * 1));
      IR_ST64(v_3, v_377);
      npc = 292;
    }
    if (pc == 120) {
      uint64_t v_379 = (v_74 + (uint64_t)((int64_t)(int64_t)((uint64_t)2ULL) * 1));
      IR_ST64(v_3, v_379);
      npc = 292;
    }
    if (pc == 121) {
      uint64_t v_381 = (v_74 + (uint64_t)((int64_t)(int64_t)((uint64_t)2ULL) * 1));
      IR_ST64(v_3, v_381);
      npc = 292;
    }
    if (pc == 122) {
      uint64_t v_383 = (v_74 + (uint64_t)((int64_t)(int64_t)((uint64_t)2ULL) * 1));
      IR_ST64(v_3, v_383);
      npc = 292;
    }
    if (pc == 123) {
      uint64_t v_385 = (v_74 + (uint64_t)((int64_t)(int64_t)((uint64_t)2ULL) * 1));
      IR_ST64(v_3, v_385);
      npc = 292;
    }
    if (pc == 124) {
      uint64_t v_387 = (v_74 + (uint64_t)((int64_t)(int64_t)((uint64_t)2ULL) * 1));
      IR_ST64(v_3, v_387);
      npc = 292;
    }
    if (pc == 125) {
      uint64_t v_389 = (v_74 + (uint64_t)((int64_t)(int64_t)((uint64_t)2ULL) * 1));
      IR_ST64(v_3, v_389);
      npc = 292;
    }
    if (pc == 126) {
      uint64_t v_391 = (v_74 + (uint64_t)((int64_t)(int64_t)((uint64_t)2ULL) * 1));
      IR_ST64(v_3, v_391);
      npc = 292;
    }
    if (pc == 127) {
      uint64_t v_393 = (v_74 + (uint64_t)((int64_t)(int64_t)((uint64_t)2ULL) * 1));
      IR_ST64(v_3, v_393);
      npc = 292;
    }
    if (pc == 128) {
      uint64_t v_395 = (v_74 + (uint64_t)((int64_t)(int64_t)((uint64_t)2ULL) * 1));
      IR_ST64(v_3, v_395);
      npc = 292;
    }
    if (pc == 129) {
      uint64_t v_397 = (v_74 + (uint64_t)((int64_t)(int64_t)((uint64_t)2ULL) * 1));
      IR_ST64(v_3, v_397);
      npc = 292;
    }
    if (pc == 130) {
      uint64_t v_399 = (v_74 + (uint64_t)((int64_t)(int64_t)((uint64_t)2ULL) * 1));
      IR_ST64(v_3, v_399);
      npc = 292;
    }
    if (pc == 131) {
      uint64_t v_401 = (v_74 + (uint64_t)((int64_t)(int64_t)((uint64_t)2ULL) * 1));
      IR_ST64(v_3, v_401);
      npc = 292;
    }
    if (pc == 132) {
      uint64_t v_403 = (v_74 + (uint64_t)((int64_t)(int64_t)((uint64_t)2ULL) * 1));
      IR_ST64(v_3, v_403);
      npc = 292;
    }
    if (pc == 133) {
      uint64_t v_405 = (v_74 + (uint64_t)((int64_t)(int64_t)((uint64_t)2ULL) * 1));
      IR_ST64(v_3, v_405);
      uint8_t v_406 = IR_LD8(v_405);
      npc = (((v_406 == 93U)) ? 198 : (((v_406 == 91U)) ? 197 : (((v_406 == 41U)) ? 196 : (((v_406 == 40U)) ? 195 : 292))));
    }
    if (pc == 134) {
      uint64_t v_408 = (v_74 + (uint64_t)((int64_t)(int64_t)((uint64_t)2ULL) * 1));
      IR_ST64(v_3, v_408);
      npc = 292;
    }
    if (pc == 135) {
      uint64_t v_410 = (v_74 + (uint64_t)((int64_t)(int64_t)((uint64_t)2ULL) * 1));
      IR_ST64(v_3, v_410);
      npc = 292;
    }
    if (pc == 136) {
      uint64_t v_412 = (v_74 + (uint64_t)((int64_t)(int64_t)((uint64_t)2ULL) * 1));
      IR_ST64(v_3, v_412);
      npc = 292;
    }
    if (pc == 137) {
      uint64_t v_414 = (v_74 + (uint64_t)((int64_t)(int64_t)((uint64_t)2ULL) * 1));
      IR_ST64(v_3, v_414);
      npc = 292;
    }
    if (pc == 138) {
      uint64_t v_416 = (v_74 + (uint64_t)((int64_t)(int64_t)((uint64_t)2ULL) * 1));
      IR_ST64(v_3, v_416);
      npc = 292;
    }
    if (pc == 139) {
      uint64_t v_418 = (v_74 + (uint64_t)((int64_t)(int64_t)((uint64_t)2ULL) * 1));
      IR_ST64(v_3, v_418);
      npc = 292;
    }
    if (pc == 140) {
      uint64_t v_420 = (v_74 + (uint64_t)((int64_t)(int64_t)((uint64_t)2ULL) * 1));
      IR_ST64(v_3, v_420);
      npc = 292;
    }
    if (pc == 141) {
      uint64_t v_422 = (v_74 + (uint64_t)((int64_t)(int64_t)((uint64_t)2ULL) * 1));
      IR_ST64(v_3, v_422);
      npc = 292;
    }
    if (pc == 142) {
      uint64_t v_424 = (v_74 + (uint64_t)((int64_t)(int64_t)((uint64_t)2ULL) * 1));
      IR_ST64(v_3, v_424);
      uint8_t v_425 = IR_LD8(v_424);
      uint8_t v_426 = (v_425 == ((uint8_t)43ULL));
      npc = v_426 ? 199 : 60;
    }
    if (pc == 143) {
      uint64_t v_428 = (v_74 + (uint64_t)((int64_t)(int64_t)((uint64_t)2ULL) * 1));
      IR_ST64(v_3, v_428);
      uint8_t v_429 = IR_LD8(v_428);
      uint8_t v_430 = (v_429 == ((uint8_t)45ULL));
      npc = v_430 ? 200 : 60;
    }
    if (pc == 144) {
      uint64_t v_432 = (v_74 + (uint64_t)((int64_t)(int64_t)((uint64_t)2ULL) * 1));
      IR_ST64(v_3, v_432);
      uint8_t v_433 = IR_LD8(v_432);
      uint8_t v_434 = (v_433 == ((uint8_t)61ULL));
      npc = v_434 ? 201 : 292;
    }
    if (pc == 145) {
      uint64_t v_436 = (v_74 + (uint64_t)((int64_t)(int64_t)((uint64_t)2ULL) * 1));
      IR_ST64(v_3, v_436);
      uint8_t v_437 = IR_LD8(v_436);
      uint8_t v_438 = (v_437 == ((uint8_t)62ULL));
      npc = v_438 ? 202 : 60;
    }
    if (pc == 146) {
      uint64_t v_440 = (v_74 + (uint64_t)((int64_t)(int64_t)((uint64_t)2ULL) * 1));
      IR_ST64(v_3, v_440);
      IR_ST64(v_8, v_440);
      uint8_t v_441 = IR_LD8(v_440);
      uint8_t v_442 = (v_441 == ((uint8_t)84ULL));
      npc = v_442 ? 203 : 147;
    }
    if (pc == 147) {
      npc = 292;
    }
    if (pc == 148) {
      uint64_t v_445 = (v_74 + (uint64_t)((int64_t)(int64_t)((uint64_t)2ULL) * 1));
      IR_ST64(v_3, v_445);
      uint8_t v_446 = IR_LD8(v_445);
      uint8_t v_447 = (v_446 == ((uint8_t)126ULL));
      npc = v_447 ? 204 : 60;
    }
    if (pc == 149) {
      uint64_t v_449 = (v_74 + (uint64_t)((int64_t)(int64_t)((uint64_t)2ULL) * 1));
      IR_ST64(v_3, v_449);
      npc = 292;
    }
    if (pc == 150) {
      uint64_t v_451 = (v_74 + (uint64_t)((int64_t)(int64_t)((uint64_t)2ULL) * 1));
      IR_ST64(v_3, v_451);
      npc = 292;
    }
    if (pc == 151) {
      uint64_t v_453 = (v_74 + (uint64_t)((int64_t)(int64_t)((uint64_t)2ULL) * 1));
      IR_ST64(v_3, v_453);
      uint8_t v_454 = IR_LD8(v_453);
      uint8_t v_455 = (v_454 == ((uint8_t)125ULL));
      npc = v_455 ? 205 : 60;
    }
    if (pc == 152) {
      uint64_t v_457 = (v_74 + (uint64_t)((int64_t)(int64_t)((uint64_t)2ULL) * 1));
      IR_ST64(v_3, v_457);
      uint8_t v_458 = IR_LD8(v_457);
      npc = (((v_458 == 194U)) ? 66 : (((v_458 == 32U)) ? 64 : (((v_458 == 9U)) ? 61 : 60)));
    }
    if (pc == 153) {
      uint64_t v_460 = (v_74 + (uint64_t)((int64_t)(int64_t)((uint64_t)2ULL) * 1));
      IR_ST64(v_3, v_460);
      uint8_t v_461 = IR_LD8(v_460);
      uint8_t v_462 = (v_461 == ((uint8_t)188ULL));
      npc = v_462 ? 206 : 60;
    }
    if (pc == 154) {
      uint64_t v_464 = IR_LD64(v_3);
      uint64_t v_465 = (v_464 + (uint64_t)((int64_t)(int64_t)((uint64_t)1ULL) * 1));
      IR_ST64(v_3, v_465);
      uint64_t v_466 = IR_LD64(v_69);
      IR_ST64(v_3, v_466);
      npc = 292;
    }
    if (pc == 155) {
      uint64_t v_468 = IR_LD64(v_3);
      uint64_t v_469 = (v_468 + (uint64_t)((int64_t)(int64_t)((uint64_t)1ULL) * 1));
      IR_ST64(v_3, v_469);
      uint8_t v_470 = IR_LD8(v_469);
      uint8_t v_471 = ((int8_t)v_470 < (int8_t)((uint8_t)192ULL));
      npc = v_471 ? 154 : 60;
    }
    if (pc == 156) {
      uint64_t v_473 = IR_LD64(v_3);
      uint64_t v_474 = (v_473 + (uint64_t)((int64_t)(int64_t)((uint64_t)1ULL) * 1));
      IR_ST64(v_3, v_474);
      uint8_t v_475 = IR_LD8(v_474);
      uint8_t v_476 = ((int8_t)v_475 < (int8_t)((uint8_t)192ULL));
      npc = v_476 ? 155 : 60;
    }
    if (pc == 157) {
      uint64_t v_478 = IR_LD64(v_3);
      uint64_t v_479 = (v_478 + (uint64_t)((int64_t)(int64_t)((uint64_t)1ULL) * 1));
      IR_ST64(v_3, v_479);
      IR_ST64(v_51, v_479);
      uint8_t v_480 = IR_LD8(v_479);
      uint8_t v_481 = (v_480 == ((uint8_t)32ULL));
      npc = v_481 ? 207 : 158;
    }
    if (pc == 158) {
      npc = 292;
    }
    if (pc == 159) {
      uint64_t v_484 = IR_LD64(v_3);
      uint64_t v_485 = (v_484 + (uint64_t)((int64_t)(int64_t)((uint64_t)1ULL) * 1));
      IR_ST64(v_3, v_485);
      IR_ST64(v_51, v_485);
      uint8_t v_486 = IR_LD8(v_485);
      npc = (((v_486 == 32U)) ? 207 : (((v_486 == 10U)) ? 157 : 158));
    }
    if (pc == 160) {
      v_488 = IR_LD64(v_3);
      uint64_t v_489 = (v_488 + (uint64_t)((int64_t)(int64_t)((uint64_t)1ULL) * 1));
      IR_ST64(v_3, v_489);
      IR_ST64(v_51, v_489);
      uint8_t v_490 = IR_LD8(v_489);
      npc = (((v_490 == 194U)) ? 217 : (((v_490 == 32U)) ? 215 : (((v_490 == 13U)) ? 159 : (((v_490 == 10U)) ? 157 : 65))));
    }
    if (pc == 161) {
      uint64_t v_492 = (v_238 + (uint64_t)((int64_t)(int64_t)((uint64_t)2ULL) * 1));
      IR_ST64(v_3, v_492);
      uint8_t v_493 = IR_LD8(v_492);
      uint8_t v_494 = (v_493 == ((uint8_t)160ULL));
      npc = v_494 ? 160 : 60;
    }
    if (pc == 162) {
      uint64_t v_496 = IR_LD64(v_3);
      uint64_t v_497 = (v_496 + (uint64_t)((int64_t)(int64_t)((uint64_t)1ULL) * 1));
      IR_ST64(v_3, v_497);
      npc = 163;
    }
    if (pc == 163) {
      uint64_t v_499 = IR_LD64(v_45);
      IR_ST64(v_3, v_499);
      npc = 292;
    }
    if (pc == 164) {
      uint64_t v_501 = IR_LD64(v_3);
      uint64_t v_502 = (v_501 + (uint64_t)((int64_t)(int64_t)((uint64_t)1ULL) * 1));
      IR_ST64(v_3, v_502);
      IR_ST64(v_19, v_502);
      uint8_t v_503 = IR_LD8(v_502);
      npc = (((v_503 == 194U)) ? 173 : (((v_503 == 13U)) ? 167 : (((v_503 == 9U) || (v_503 == 32U)) ? 165 : (((v_503 == 0U) || (v_503 == 10U)) ? 162 : 166))));
    }
    if (pc == 165) {
      npc = 164;
    }
    if (pc == 166) {
      npc = 292;
    }
    if (pc == 167) {
      uint64_t v_507 = IR_LD64(v_3);
      uint64_t v_508 = (v_507 + (uint64_t)((int64_t)(int64_t)((uint64_t)1ULL) * 1));
      IR_ST64(v_3, v_508);
      uint8_t v_509 = IR_LD8(v_508);
      uint8_t v_510 = (v_509 == ((uint8_t)10ULL));
      npc = v_510 ? 162 : 163;
    }
    if (pc == 168) {
      v_512 = (v_74 + (uint64_t)((int64_t)(int64_t)((uint64_t)3ULL) * 1));
      IR_ST64(v_3, v_512);
      uint8_t v_513 = IR_LD8(v_512);
      npc = (((v_513 == 194U)) ? 172 : (((v_513 == 35U)) ? 224 : (((v_513 == 13U)) ? 171 : (((v_513 == 9U) || (v_513 == 32U)) ? 170 : (((v_513 == 0U) || (v_513 == 10U)) ? 169 : 60)))));
    }
    if (pc == 169) {
      IR_ST64(v_40, v_512);
      npc = 218;
    }
    if (pc == 170) {
      IR_ST64(v_39, v_512);
      npc = 230;
    }
    if (pc == 171) {
      IR_ST64(v_38, v_512);
      npc = 223;
    }
    if (pc == 172) {
      IR_ST64(v_22, v_512);
      npc = 229;
    }
    if (pc == 173) {
      {
        uint32_t t0; switch (prev) {
          case 78: t0 = ((uint32_t)2ULL); break;
          case 164: t0 = ((uint32_t)13ULL); break;
          default: t0 = 0; break; }
        v_519 = t0;
      }
      uint64_t v_520 = IR_LD64(v_3);
      uint64_t v_521 = (v_520 + (uint64_t)((int64_t)(int64_t)((uint64_t)1ULL) * 1));
      IR_ST64(v_3, v_521);
      uint8_t v_522 = IR_LD8(v_521);
      uint8_t v_523 = (v_522 == ((uint8_t)160ULL));
      npc = v_523 ? 174 : 60;
    }
    if (pc == 174) {
      npc = 164;
    }
    if (pc == 175) {
      v_526 = IR_LD64(v_3);
      uint64_t v_527 = (v_526 + (uint64_t)((int64_t)(int64_t)((uint64_t)1ULL) * 1));
      IR_ST64(v_3, v_527);
      uint8_t v_528 = IR_LD8(v_527);
      npc = (((v_528 == 59U)) ? 231 : (((v_528 >= 48U && v_528 <= 57U)) ? 176 : 60));
    }
    if (pc == 176) {
      npc = 175;
    }
    if (pc == 177) {
      uint64_t v_531 = (v_74 + (uint64_t)((int64_t)(int64_t)((uint64_t)3ULL) * 1));
      IR_ST64(v_3, v_531);
      v_532 = IR_LD8(v_531);
      uint8_t v_533 = (v_532 == ((uint8_t)59ULL));
      npc = v_533 ? 60 : 232;
    }
    if (pc == 178) {
      uint64_t v_535 = IR_LD64(v_3);
      uint64_t v_536 = (v_535 + (uint64_t)((int64_t)(int64_t)((uint64_t)1ULL) * 1));
      IR_ST64(v_3, v_536);
      npc = 292;
    }
    if (pc == 179) {
      uint64_t v_538 = (v_74 + (uint64_t)((int64_t)(int64_t)((uint64_t)3ULL) * 1));
      IR_ST64(v_3, v_538);
      v_539 = IR_LD8(v_538);
      npc = (((v_539 == 80U) || (v_539 == 112U)) ? 234 : 85);
    }
    if (pc == 180) {
      uint64_t v_541 = (v_74 + (uint64_t)((int64_t)(int64_t)((uint64_t)3ULL) * 1));
      IR_ST64(v_3, v_541);
      npc = 292;
    }
    if (pc == 181) {
      uint64_t v_543 = (v_74 + (uint64_t)((int64_t)(int64_t)((uint64_t)3ULL) * 1));
      IR_ST64(v_3, v_543);
      npc = 292;
    }
    if (pc == 182) {
      uint64_t v_545 = (v_74 + (uint64_t)((int64_t)(int64_t)((uint64_t)3ULL) * 1));
      IR_ST64(v_3, v_545);
      npc = 292;
    }
    if (pc == 183) {
      uint64_t v_547 = (v_74 + (uint64_t)((int64_t)(int64_t)((uint64_t)3ULL) * 1));
      IR_ST64(v_3, v_547);
      npc = 292;
    }
    if (pc == 184) {
      uint64_t v_549 = (v_74 + (uint64_t)((int64_t)(int64_t)((uint64_t)3ULL) * 1));
      IR_ST64(v_3, v_549);
      uint8_t v_550 = IR_LD8(v_549);
      uint8_t v_551 = (v_550 == ((uint8_t)32ULL));
      npc = v_551 ? 235 : 60;
    }
    if (pc == 185) {
      uint64_t v_553 = (v_74 + (uint64_t)((int64_t)(int64_t)((uint64_t)3ULL) * 1));
      IR_ST64(v_3, v_553);
      npc = 292;
    }
    if (pc == 186) {
      uint64_t v_555 = IR_LD64(v_3);
      uint64_t v_556 = (v_555 + (uint64_t)((int64_t)(int64_t)((uint64_t)1ULL) * 1));
      IR_ST64(v_3, v_556);
      IR_ST64(v_11, v_556);
      uint8_t v_557 = IR_LD8(v_556);
      npc = (((v_557 == 194U)) ? 190 : (((v_557 == 9U) || (v_557 == 32U)) ? 187 : 188));
    }
    if (pc == 187) {
      npc = 186;
    }
    if (pc == 188) {
      uint64_t v_560 = IR_LD64(v_71);
      IR_ST64(v_3, v_560);
      npc = 292;
    }
    if (pc == 189) {
      uint64_t v_562 = IR_LD64(v_3);
      uint64_t v_563 = (v_562 + (uint64_t)((int64_t)(int64_t)((uint64_t)1ULL) * 1));
      IR_ST64(v_3, v_563);
      npc = 188;
    }
    if (pc == 190) {
      {
        uint32_t t0; switch (prev) {
          case 96: t0 = ((uint32_t)1ULL); break;
          case 186: t0 = ((uint32_t)14ULL); break;
          default: t0 = 0; break; }
        v_565 = t0;
      }
      uint64_t v_566 = IR_LD64(v_3);
      uint64_t v_567 = (v_566 + (uint64_t)((int64_t)(int64_t)((uint64_t)1ULL) * 1));
      IR_ST64(v_3, v_567);
      uint8_t v_568 = IR_LD8(v_567);
      uint8_t v_569 = (v_568 == ((uint8_t)160ULL));
      npc = v_569 ? 191 : 60;
    }
    if (pc == 191) {
      npc = 186;
    }
    if (pc == 192) {
      uint64_t v_572 = (v_74 + (uint64_t)((int64_t)(int64_t)((uint64_t)3ULL) * 1));
      IR_ST64(v_3, v_572);
      uint8_t v_573 = IR_LD8(v_572);
      uint8_t v_574 = (v_573 == ((uint8_t)45ULL));
      npc = v_574 ? 236 : 60;
    }
    if (pc == 193) {
      uint64_t v_576 = (v_74 + (uint64_t)((int64_t)(int64_t)((uint64_t)3ULL) * 1));
      IR_ST64(v_3, v_576);
      npc = 292;
    }
    if (pc == 194) {
      uint64_t v_578 = (v_74 + (uint64_t)((int64_t)(int64_t)((uint64_t)3ULL) * 1));
      IR_ST64(v_3, v_578);
      npc = 292;
    }
    if (pc == 195) {
      uint64_t v_580 = (v_74 + (uint64_t)((int64_t)(int64_t)((uint64_t)3ULL) * 1));
      IR_ST64(v_3, v_580);
      npc = 292;
    }
    if (pc == 196) {
      uint64_t v_582 = (v_74 + (uint64_t)((int64_t)(int64_t)((uint64_t)3ULL) * 1));
      IR_ST64(v_3, v_582);
      npc = 292;
    }
    if (pc == 197) {
      uint64_t v_584 = (v_74 + (uint64_t)((int64_t)(int64_t)((uint64_t)3ULL) * 1));
      IR_ST64(v_3, v_584);
      npc = 292;
    }
    if (pc == 198) {
      uint64_t v_586 = (v_74 + (uint64_t)((int64_t)(int64_t)((uint64_t)3ULL) * 1));
      IR_ST64(v_3, v_586);
      npc = 292;
    }
    if (pc == 199) {
      uint64_t v_588 = (v_74 + (uint64_t)((int64_t)(int64_t)((uint64_t)3ULL) * 1));
      IR_ST64(v_3, v_588);
      npc = 292;
    }
    if (pc == 200) {
      uint64_t v_590 = (v_74 + (uint64_t)((int64_t)(int64_t)((uint64_t)3ULL) * 1));
      IR_ST64(v_3, v_590);
      npc = 292;
    }
    if (pc == 201) {
      uint64_t v_592 = (v_74 + (uint64_t)((int64_t)(int64_t)((uint64_t)3ULL) * 1));
      IR_ST64(v_3, v_592);
      npc = 292;
    }
    if (pc == 202) {
      uint64_t v_594 = (v_74 + (uint64_t)((int64_t)(int64_t)((uint64_t)3ULL) * 1));
      IR_ST64(v_3, v_594);
      npc = 292;
    }
    if (pc == 203) {
      uint64_t v_596 = (v_74 + (uint64_t)((int64_t)(int64_t)((uint64_t)3ULL) * 1));
      IR_ST64(v_3, v_596);
      uint8_t v_597 = IR_LD8(v_596);
      uint8_t v_598 = (v_597 == ((uint8_t)79ULL));
      npc = v_598 ? 237 : 60;
    }
    if (pc == 204) {
      uint64_t v_600 = (v_74 + (uint64_t)((int64_t)(int64_t)((uint64_t)3ULL) * 1));
      IR_ST64(v_3, v_600);
      npc = 292;
    }
    if (pc == 205) {
      uint64_t v_602 = (v_74 + (uint64_t)((int64_t)(int64_t)((uint64_t)3ULL) * 1));
      IR_ST64(v_3, v_602);
      npc = 292;
    }
    if (pc == 206) {
      uint64_t v_604 = (v_74 + (uint64_t)((int64_t)(int64_t)((uint64_t)3ULL) * 1));
      IR_ST64(v_3, v_604);
      npc = 292;
    }
    if (pc == 207) {
      v_606 = IR_LD64(v_3);
      v_607 = (v_606 + (uint64_t)((int64_t)(int64_t)((uint64_t)1ULL) * 1));
      IR_ST64(v_3, v_607);
      uint8_t v_608 = IR_LD8(v_607);
      npc = (((v_608 == 244U)) ? 214 : (((v_608 >= 241U && v_608 <= 243U)) ? 213 : (((v_608 == 240U)) ? 212 : (((v_608 >= 225U && v_608 <= 239U)) ? 211 : (((v_608 == 224U)) ? 210 : (((v_608 >= 194U && v_608 <= 223U)) ? 209 : (((v_608 >= 0U && v_608 <= 8U) || (v_608 >= 11U && v_608 <= 12U) || (v_608 >= 14U && v_608 <= 31U) || (v_608 >= 33U && v_608 <= 127U)) ? 208 : 60)))))));
    }
    if (pc == 208) {
      IR_ST64(v_58, v_607);
      npc = 238;
    }
    if (pc == 209) {
      IR_ST64(v_57, v_607);
      npc = 239;
    }
    if (pc == 210) {
      IR_ST64(v_56, v_607);
      uint64_t v_612 = (v_606 + (uint64_t)((int64_t)(int64_t)((uint64_t)2ULL) * 1));
      IR_ST64(v_3, v_612);
      uint8_t v_613 = IR_LD8(v_612);
      uint8_t v_614 = (uint8_t)((uint32_t)v_613 & (uint32_t)((uint8_t)224ULL));
      uint8_t v_615 = (v_614 == ((uint8_t)160ULL));
      npc = v_615 ? 239 : 60;
    }
    if (pc == 211) {
      IR_ST64(v_55, v_607);
      npc = 240;
    }
    if (pc == 212) {
      IR_ST64(v_54, v_607);
      uint64_t v_618 = (v_606 + (uint64_t)((int64_t)(int64_t)((uint64_t)2ULL) * 1));
      IR_ST64(v_3, v_618);
      uint8_t v_619 = IR_LD8(v_618);
      uint8_t v_620 = (uint8_t)((uint32_t)v_619 + (uint32_t)((uint8_t)112ULL));
      uint8_t v_621 = (v_620 < ((uint8_t)48ULL));
      npc = v_621 ? 240 : 60;
    }
    if (pc == 213) {
      IR_ST64(v_53, v_607);
      uint64_t v_623 = (v_606 + (uint64_t)((int64_t)(int64_t)((uint64_t)2ULL) * 1));
      IR_ST64(v_3, v_623);
      uint8_t v_624 = IR_LD8(v_623);
      uint8_t v_625 = ((int8_t)v_624 < (int8_t)((uint8_t)192ULL));
      npc = v_625 ? 240 : 60;
    }
    if (pc == 214) {
      IR_ST64(v_52, v_607);
      uint64_t v_627 = (v_606 + (uint64_t)((int64_t)(int64_t)((uint64_t)2ULL) * 1));
      IR_ST64(v_3, v_627);
      uint8_t v_628 = IR_LD8(v_627);
      uint8_t v_629 = ((int8_t)v_628 < (int8_t)((uint8_t)144ULL));
      npc = v_629 ? 240 : 60;
    }
    if (pc == 215) {
      uint64_t v_631 = IR_LD64(v_3);
      uint64_t v_632 = (v_631 + (uint64_t)((int64_t)(int64_t)((uint64_t)1ULL) * 1));
      IR_ST64(v_3, v_632);
      IR_ST64(v_51, v_632);
      uint8_t v_633 = IR_LD8(v_632);
      npc = (((v_633 == 194U)) ? 242 : (((v_633 == 32U)) ? 243 : (((v_633 == 13U)) ? 159 : (((v_633 == 10U)) ? 157 : 216))));
    }
    if (pc == 216) {
      npc = 292;
    }
    if (pc == 217) {
      uint64_t v_636 = (v_488 + (uint64_t)((int64_t)(int64_t)((uint64_t)2ULL) * 1));
      IR_ST64(v_3, v_636);
      uint8_t v_637 = IR_LD8(v_636);
      uint8_t v_638 = (v_637 == ((uint8_t)160ULL));
      npc = v_638 ? 215 : 60;
    }
    if (pc == 218) {
      uint64_t v_640 = IR_LD64(v_3);
      uint64_t v_641 = (v_640 + (uint64_t)((int64_t)(int64_t)((uint64_t)1ULL) * 1));
      IR_ST64(v_3, v_641);
      npc = 219;
    }
    if (pc == 219) {
      uint64_t v_643 = IR_LD64(v_41);
      IR_ST64(v_3, v_643);
      npc = 292;
    }
    if (pc == 220) {
      uint64_t v_645 = IR_LD64(v_3);
      uint64_t v_646 = (v_645 + (uint64_t)((int64_t)(int64_t)((uint64_t)1ULL) * 1));
      IR_ST64(v_3, v_646);
      IR_ST64(v_19, v_646);
      uint8_t v_647 = IR_LD8(v_646);
      npc = (((v_647 == 194U)) ? 229 : (((v_647 == 13U)) ? 223 : (((v_647 == 9U) || (v_647 == 32U)) ? 221 : (((v_647 == 0U) || (v_647 == 10U)) ? 218 : 222))));
    }
    if (pc == 221) {
      npc = 220;
    }
    if (pc == 222) {
      npc = 292;
    }
    if (pc == 223) {
      uint64_t v_651 = IR_LD64(v_3);
      uint64_t v_652 = (v_651 + (uint64_t)((int64_t)(int64_t)((uint64_t)1ULL) * 1));
      IR_ST64(v_3, v_652);
      uint8_t v_653 = IR_LD8(v_652);
      uint8_t v_654 = (v_653 == ((uint8_t)10ULL));
      npc = v_654 ? 218 : 219;
    }
    if (pc == 224) {
      v_656 = (v_74 + (uint64_t)((int64_t)(int64_t)((uint64_t)4ULL) * 1));
      IR_ST64(v_3, v_656);
      uint8_t v_657 = IR_LD8(v_656);
      npc = (((v_657 == 194U)) ? 228 : (((v_657 == 35U)) ? 250 : (((v_657 == 13U)) ? 227 : (((v_657 == 9U) || (v_657 == 32U)) ? 226 : (((v_657 == 0U) || (v_657 == 10U)) ? 225 : 60)))));
    }
    if (pc == 225) {
      IR_ST64(v_36, v_656);
      npc = 244;
    }
    if (pc == 226) {
      IR_ST64(v_35, v_656);
      npc = 256;
    }
    if (pc == 227) {
      IR_ST64(v_34, v_656);
      npc = 249;
    }
    if (pc == 228) {
      IR_ST64(v_23, v_656);
      npc = 255;
    }
    if (pc == 229) {
      {
        uint32_t t0; switch (prev) {
          case 172: t0 = ((uint32_t)2ULL); break;
          case 220: t0 = ((uint32_t)16ULL); break;
          default: t0 = 0; break; }
        v_663 = t0;
      }
      uint64_t v_664 = IR_LD64(v_3);
      uint64_t v_665 = (v_664 + (uint64_t)((int64_t)(int64_t)((uint64_t)1ULL) * 1));
      IR_ST64(v_3, v_665);
      uint8_t v_666 = IR_LD8(v_665);
      uint8_t v_667 = (v_666 == ((uint8_t)160ULL));
      npc = v_667 ? 230 : 60;
    }
    if (pc == 230) {
      npc = 220;
    }
    if (pc == 231) {
      uint64_t v_670 = (v_526 + (uint64_t)((int64_t)(int64_t)((uint64_t)2ULL) * 1));
      IR_ST64(v_3, v_670);
      npc = 292;
    }
    if (pc == 232) {
      {
        uint8_t t0; switch (prev) {
          case 233: t0 = v_676; break;
          case 177: t0 = v_532; break;
          default: t0 = 0; break; }
        v_672 = t0;
      }
      npc = (((v_672 == 59U)) ? 257 : (((v_672 >= 48U && v_672 <= 57U) || (v_672 >= 65U && v_672 <= 102U)) ? 233 : 60));
    }
    if (pc == 233) {
      uint64_t v_674 = IR_LD64(v_3);
      uint64_t v_675 = (v_674 + (uint64_t)((int64_t)(int64_t)((uint64_t)1ULL) * 1));
      IR_ST64(v_3, v_675);
      v_676 = IR_LD8(v_675);
      npc = 232;
    }
    if (pc == 234) {
      uint64_t v_678 = (v_74 + (uint64_t)((int64_t)(int64_t)((uint64_t)4ULL) * 1));
      IR_ST64(v_3, v_678);
      v_679 = IR_LD8(v_678);
      uint8_t v_680 = (v_679 == ((uint8_t)59ULL));
      npc = v_680 ? 258 : 85;
    }
    if (pc == 235) {
      uint64_t v_682 = (v_74 + (uint64_t)((int64_t)(int64_t)((uint64_t)4ULL) * 1));
      IR_ST64(v_3, v_682);
      uint8_t v_683 = IR_LD8(v_682);
      uint8_t v_684 = (v_683 == ((uint8_t)46ULL));
      npc = v_684 ? 259 : 60;
    }
    if (pc == 236) {
      uint64_t v_686 = (v_74 + (uint64_t)((int64_t)(int64_t)((uint64_t)4ULL) * 1));
      IR_ST64(v_3, v_686);
      npc = 292;
    }
    if (pc == 237) {
      uint64_t v_688 = (v_74 + (uint64_t)((int64_t)(int64_t)((uint64_t)4ULL) * 1));
      IR_ST64(v_3, v_688);
      uint8_t v_689 = IR_LD8(v_688);
      uint8_t v_690 = (v_689 == ((uint8_t)67ULL));
      npc = v_690 ? 260 : 60;
    }
    if (pc == 238) {
      uint64_t v_692 = IR_LD64(v_3);
      uint64_t v_693 = (v_692 + (uint64_t)((int64_t)(int64_t)((uint64_t)1ULL) * 1));
      IR_ST64(v_3, v_693);
      uint64_t v_694 = IR_LD64(v_59);
      IR_ST64(v_3, v_694);
      npc = 292;
    }
    if (pc == 239) {
      uint64_t v_696 = IR_LD64(v_3);
      uint64_t v_697 = (v_696 + (uint64_t)((int64_t)(int64_t)((uint64_t)1ULL) * 1));
      IR_ST64(v_3, v_697);
      uint8_t v_698 = IR_LD8(v_697);
      uint8_t v_699 = ((int8_t)v_698 < (int8_t)((uint8_t)192ULL));
      npc = v_699 ? 238 : 60;
    }
    if (pc == 240) {
      uint64_t v_701 = IR_LD64(v_3);
      uint64_t v_702 = (v_701 + (uint64_t)((int64_t)(int64_t)((uint64_t)1ULL) * 1));
      IR_ST64(v_3, v_702);
      uint8_t v_703 = IR_LD8(v_702);
      uint8_t v_704 = ((int8_t)v_703 < (int8_t)((uint8_t)192ULL));
      npc = v_704 ? 239 : 60;
    }
    if (pc == 241) {
      uint64_t v_706 = IR_LD64(v_3);
      uint64_t v_707 = (v_706 + (uint64_t)((int64_t)(int64_t)((uint64_t)1ULL) * 1));
      IR_ST64(v_3, v_707);
      uint8_t v_708 = IR_LD8(v_707);
      npc = (((v_708 == 194U)) ? 242 : (((v_708 == 32U)) ? 241 : (((v_708 == 13U)) ? 159 : (((v_708 == 10U)) ? 157 : 60))));
    }
    if (pc == 242) {
      uint64_t v_710 = IR_LD64(v_3);
      uint64_t v_711 = (v_710 + (uint64_t)((int64_t)(int64_t)((uint64_t)1ULL) * 1));
      IR_ST64(v_3, v_711);
      uint8_t v_712 = IR_LD8(v_711);
      uint8_t v_713 = (v_712 == ((uint8_t)160ULL));
      npc = v_713 ? 243 : 60;
    }
    if (pc == 243) {
      npc = 241;
    }
    if (pc == 244) {
      uint64_t v_716 = IR_LD64(v_3);
      uint64_t v_717 = (v_716 + (uint64_t)((int64_t)(int64_t)((uint64_t)1ULL) * 1));
      IR_ST64(v_3, v_717);
      npc = 245;
    }
    if (pc == 245) {
      uint64_t v_719 = IR_LD64(v_37);
      IR_ST64(v_3, v_719);
      npc = 292;
    }
    if (pc == 246) {
      uint64_t v_721 = IR_LD64(v_3);
      uint64_t v_722 = (v_721 + (uint64_t)((int64_t)(int64_t)((uint64_t)1ULL) * 1));
      IR_ST64(v_3, v_722);
      IR_ST64(v_19, v_722);
      uint8_t v_723 = IR_LD8(v_722);
      npc = (((v_723 == 194U)) ? 255 : (((v_723 == 13U)) ? 249 : (((v_723 == 9U) || (v_723 == 32U)) ? 247 : (((v_723 == 0U) || (v_723 == 10U)) ? 244 : 248))));
    }
    if (pc == 247) {
      npc = 246;
    }
    if (pc == 248) {
      npc = 292;
    }
    if (pc == 249) {
      uint64_t v_727 = IR_LD64(v_3);
      uint64_t v_728 = (v_727 + (uint64_t)((int64_t)(int64_t)((uint64_t)1ULL) * 1));
      IR_ST64(v_3, v_728);
      uint8_t v_729 = IR_LD8(v_728);
      uint8_t v_730 = (v_729 == ((uint8_t)10ULL));
      npc = v_730 ? 244 : 245;
    }
    if (pc == 250) {
      v_732 = (v_74 + (uint64_t)((int64_t)(int64_t)((uint64_t)5ULL) * 1));
      IR_ST64(v_3, v_732);
      uint8_t v_733 = IR_LD8(v_732);
      npc = (((v_733 == 194U)) ? 254 : (((v_733 == 35U)) ? 267 : (((v_733 == 13U)) ? 253 : (((v_733 == 9U) || (v_733 == 32U)) ? 252 : (((v_733 == 0U) || (v_733 == 10U)) ? 251 : 60)))));
    }
    if (pc == 251) {
      IR_ST64(v_32, v_732);
      npc = 261;
    }
    if (pc == 252) {
      IR_ST64(v_31, v_732);
      npc = 273;
    }
    if (pc == 253) {
      IR_ST64(v_30, v_732);
      npc = 266;
    }
    if (pc == 254) {
      IR_ST64(v_24, v_732);
      npc = 272;
    }
    if (pc == 255) {
      {
        uint32_t t0; switch (prev) {
          case 228: t0 = ((uint32_t)2ULL); break;
          case 246: t0 = ((uint32_t)17ULL); break;
          default: t0 = 0; break; }
        v_739 = t0;
      }
      uint64_t v_740 = IR_LD64(v_3);
      uint64_t v_741 = (v_740 + (uint64_t)((int64_t)(int64_t)((uint64_t)1ULL) * 1));
      IR_ST64(v_3, v_741);
      uint8_t v_742 = IR_LD8(v_741);
      uint8_t v_743 = (v_742 == ((uint8_t)160ULL));
      npc = v_743 ? 256 : 60;
    }
    if (pc == 256) {
      npc = 246;
    }
    if (pc == 257) {
      uint64_t v_746 = IR_LD64(v_3);
      uint64_t v_747 = (v_746 + (uint64_t)((int64_t)(int64_t)((uint64_t)1ULL) * 1));
      IR_ST64(v_3, v_747);
      npc = 292;
    }
    if (pc == 258) {
      uint64_t v_749 = (v_74 + (uint64_t)((int64_t)(int64_t)((uint64_t)5ULL) * 1));
      IR_ST64(v_3, v_749);
      npc = 292;
    }
    if (pc == 259) {
      uint64_t v_751 = (v_74 + (uint64_t)((int64_t)(int64_t)((uint64_t)5ULL) * 1));
      IR_ST64(v_3, v_751);
      npc = 292;
    }
    if (pc == 260) {
      uint64_t v_753 = (v_74 + (uint64_t)((int64_t)(int64_t)((uint64_t)5ULL) * 1));
      IR_ST64(v_3, v_753);
      uint8_t v_754 = IR_LD8(v_753);
      npc = (((v_754 == 125U)) ? 275 : (((v_754 == 58U)) ? 274 : 60));
    }
    if (pc == 261) {
      uint64_t v_756 = IR_LD64(v_3);
      uint64_t v_757 = (v_756 + (uint64_t)((int64_t)(int64_t)((uint64_t)1ULL) * 1));
      IR_ST64(v_3, v_757);
      npc = 262;
    }
    if (pc == 262) {
      uint64_t v_759 = IR_LD64(v_33);
      IR_ST64(v_3, v_759);
      npc = 292;
    }
    if (pc == 263) {
      uint64_t v_761 = IR_LD64(v_3);
      uint64_t v_762 = (v_761 + (uint64_t)((int64_t)(int64_t)((uint64_t)1ULL) * 1));
      IR_ST64(v_3, v_762);
      IR_ST64(v_19, v_762);
      uint8_t v_763 = IR_LD8(v_762);
      npc = (((v_763 == 194U)) ? 272 : (((v_763 == 13U)) ? 266 : (((v_763 == 9U) || (v_763 == 32U)) ? 264 : (((v_763 == 0U) || (v_763 == 10U)) ? 261 : 265))));
    }
    if (pc == 264) {
      npc = 263;
    }
    if (pc == 265) {
      npc = 292;
    }
    if (pc == 266) {
      uint64_t v_767 = IR_LD64(v_3);
      uint64_t v_768 = (v_767 + (uint64_t)((int64_t)(int64_t)((uint64_t)1ULL) * 1));
      IR_ST64(v_3, v_768);
      uint8_t v_769 = IR_LD8(v_768);
      uint8_t v_770 = (v_769 == ((uint8_t)10ULL));
      npc = v_770 ? 261 : 262;
    }
    if (pc == 267) {
      v_772 = (v_74 + (uint64_t)((int64_t)(int64_t)((uint64_t)6ULL) * 1));
      IR_ST64(v_3, v_772);
      uint8_t v_773 = IR_LD8(v_772);
      npc = (((v_773 == 194U)) ? 271 : (((v_773 == 13U)) ? 270 : (((v_773 == 9U) || (v_773 == 32U)) ? 269 : (((v_773 == 0U) || (v_773 == 10U)) ? 268 : 60))));
    }
    if (pc == 268) {
      IR_ST64(v_28, v_772);
      npc = 276;
    }
    if (pc == 269) {
      IR_ST64(v_27, v_772);
      npc = 283;
    }
    if (pc == 270) {
      IR_ST64(v_26, v_772);
      npc = 281;
    }
    if (pc == 271) {
      IR_ST64(v_25, v_772);
      npc = 282;
    }
    if (pc == 272) {
      {
        uint32_t t0; switch (prev) {
          case 254: t0 = ((uint32_t)2ULL); break;
          case 263: t0 = ((uint32_t)18ULL); break;
          default: t0 = 0; break; }
        v_779 = t0;
      }
      uint64_t v_780 = IR_LD64(v_3);
      uint64_t v_781 = (v_780 + (uint64_t)((int64_t)(int64_t)((uint64_t)1ULL) * 1));
      IR_ST64(v_3, v_781);
      uint8_t v_782 = IR_LD8(v_781);
      uint8_t v_783 = (v_782 == ((uint8_t)160ULL));
      npc = v_783 ? 273 : 60;
    }
    if (pc == 273) {
      npc = 263;
    }
    if (pc == 274) {
      uint64_t v_786 = (v_74 + (uint64_t)((int64_t)(int64_t)((uint64_t)6ULL) * 1));
      IR_ST64(v_3, v_786);
      uint8_t v_787 = IR_LD8(v_786);
      uint8_t v_788 = (uint8_t)((uint32_t)v_787 + (uint32_t)((uint8_t)208ULL));
      uint8_t v_789 = (v_788 < ((uint8_t)10ULL));
      npc = v_789 ? 284 : 60;
    }
    if (pc == 275) {
      uint64_t v_791 = (v_74 + (uint64_t)((int64_t)(int64_t)((uint64_t)6ULL) * 1));
      IR_ST64(v_3, v_791);
      uint8_t v_792 = IR_LD8(v_791);
      uint8_t v_793 = (v_792 == ((uint8_t)125ULL));
      npc = v_793 ? 285 : 60;
    }
    if (pc == 276) {
      uint64_t v_795 = IR_LD64(v_3);
      uint64_t v_796 = (v_795 + (uint64_t)((int64_t)(int64_t)((uint64_t)1ULL) * 1));
      IR_ST64(v_3, v_796);
      npc = 277;
    }
    if (pc == 277) {
      uint64_t v_798 = IR_LD64(v_29);
      IR_ST64(v_3, v_798);
      npc = 292;
    }
    if (pc == 278) {
      uint64_t v_800 = IR_LD64(v_3);
      uint64_t v_801 = (v_800 + (uint64_t)((int64_t)(int64_t)((uint64_t)1ULL) * 1));
      IR_ST64(v_3, v_801);
      IR_ST64(v_19, v_801);
      uint8_t v_802 = IR_LD8(v_801);
      npc = (((v_802 == 194U)) ? 282 : (((v_802 == 13U)) ? 281 : (((v_802 == 9U) || (v_802 == 32U)) ? 279 : (((v_802 == 0U) || (v_802 == 10U)) ? 276 : 280))));
    }
    if (pc == 279) {
      npc = 278;
    }
    if (pc == 280) {
      npc = 292;
    }
    if (pc == 281) {
      uint64_t v_806 = IR_LD64(v_3);
      uint64_t v_807 = (v_806 + (uint64_t)((int64_t)(int64_t)((uint64_t)1ULL) * 1));
      IR_ST64(v_3, v_807);
      uint8_t v_808 = IR_LD8(v_807);
      uint8_t v_809 = (v_808 == ((uint8_t)10ULL));
      npc = v_809 ? 276 : 277;
    }
    if (pc == 282) {
      {
        uint32_t t0; switch (prev) {
          case 271: t0 = ((uint32_t)2ULL); break;
          case 278: t0 = ((uint32_t)19ULL); break;
          default: t0 = 0; break; }
        v_811 = t0;
      }
      uint64_t v_812 = IR_LD64(v_3);
      uint64_t v_813 = (v_812 + (uint64_t)((int64_t)(int64_t)((uint64_t)1ULL) * 1));
      IR_ST64(v_3, v_813);
      uint8_t v_814 = IR_LD8(v_813);
      uint8_t v_815 = (v_814 == ((uint8_t)160ULL));
      npc = v_815 ? 283 : 60;
    }
    if (pc == 283) {
      npc = 278;
    }
    if (pc == 284) {
      uint64_t v_818 = (v_74 + (uint64_t)((int64_t)(int64_t)((uint64_t)7ULL) * 1));
      IR_ST64(v_3, v_818);
      uint8_t v_819 = IR_LD8(v_818);
      npc = (((v_819 == 125U)) ? 287 : (((v_819 == 45U)) ? 286 : 60));
    }
    if (pc == 285) {
      uint64_t v_821 = (v_74 + (uint64_t)((int64_t)(int64_t)((uint64_t)7ULL) * 1));
      IR_ST64(v_3, v_821);
      npc = 292;
    }
    if (pc == 286) {
      uint64_t v_823 = (v_74 + (uint64_t)((int64_t)(int64_t)((uint64_t)8ULL) * 1));
      IR_ST64(v_3, v_823);
      uint8_t v_824 = IR_LD8(v_823);
      uint8_t v_825 = (uint8_t)((uint32_t)v_824 + (uint32_t)((uint8_t)208ULL));
      uint8_t v_826 = (v_825 < ((uint8_t)10ULL));
      npc = v_826 ? 288 : 60;
    }
    if (pc == 287) {
      uint64_t v_828 = (v_74 + (uint64_t)((int64_t)(int64_t)((uint64_t)8ULL) * 1));
      IR_ST64(v_3, v_828);
      uint8_t v_829 = IR_LD8(v_828);
      uint8_t v_830 = (v_829 == ((uint8_t)125ULL));
      npc = v_830 ? 289 : 60;
    }
    if (pc == 288) {
      uint64_t v_832 = (v_74 + (uint64_t)((int64_t)(int64_t)((uint64_t)9ULL) * 1));
      IR_ST64(v_3, v_832);
      uint8_t v_833 = IR_LD8(v_832);
      uint8_t v_834 = (v_833 == ((uint8_t)125ULL));
      npc = v_834 ? 290 : 60;
    }
    if (pc == 289) {
      uint64_t v_836 = (v_74 + (uint64_t)((int64_t)(int64_t)((uint64_t)9ULL) * 1));
      IR_ST64(v_3, v_836);
      npc = 292;
    }
    if (pc == 290) {
      uint64_t v_838 = (v_74 + (uint64_t)((int64_t)(int64_t)((uint64_t)10ULL) * 1));
      IR_ST64(v_3, v_838);
      uint8_t v_839 = IR_LD8(v_838);
      uint8_t v_840 = (v_839 == ((uint8_t)125ULL));
      npc = v_840 ? 291 : 60;
    }
    if (pc == 291) {
      uint64_t v_842 = (v_74 + (uint64_t)((int64_t)(int64_t)((uint64_t)11ULL) * 1));
      IR_ST64(v_3, v_842);
      npc = 292;
    }
    if (pc == 292) {
      {
        uint32_t t0; switch (prev) {
          case 206: t0 = ((uint32_t)228ULL); break;
          case 280: t0 = ((uint32_t)194ULL); break;
          case 265: t0 = ((uint32_t)193ULL); break;
          case 248: t0 = ((uint32_t)192ULL); break;
          case 222: t0 = ((uint32_t)191ULL); break;
          case 216: t0 = ((uint32_t)187ULL); break;
          case 188: t0 = ((uint32_t)223ULL); break;
          case 166: t0 = ((uint32_t)190ULL); break;
          case 158: t0 = ((uint32_t)219ULL); break;
          case 147: t0 = ((uint32_t)150ULL); break;
          case 72: t0 = ((uint32_t)189ULL); break;
          case 65: t0 = ((uint32_t)188ULL); break;
          case 49: t0 = ((uint32_t)185ULL); break;
          case 45: t0 = ((uint32_t)215ULL); break;
          case 36: t0 = ((uint32_t)180ULL); break;
          case 34: t0 = ((uint32_t)148ULL); break;
          case 26: t0 = ((uint32_t)182ULL); break;
          case 20: t0 = ((uint32_t)152ULL); break;
          case 16: t0 = ((uint32_t)218ULL); break;
          case 6: t0 = ((uint32_t)221ULL); break;
          case 238: t0 = ((uint32_t)220ULL); break;
          case 61: t0 = ((uint32_t)188ULL); break;
          case 205: t0 = ((uint32_t)95ULL); break;
          case 150: t0 = ((uint32_t)92ULL); break;
          case 149: t0 = ((uint32_t)151ULL); break;
          case 204: t0 = ((uint32_t)91ULL); break;
          case 285: t0 = ((uint32_t)210ULL); break;
          case 289: t0 = ((uint32_t)211ULL); break;
          case 291: t0 = ((uint32_t)212ULL); break;
          case 202: t0 = ((uint32_t)89ULL); break;
          case 201: t0 = ((uint32_t)96ULL); break;
          case 200: t0 = ((uint32_t)87ULL); break;
          case 199: t0 = ((uint32_t)85ULL); break;
          case 42: t0 = ((uint32_t)131ULL); break;
          case 41: t0 = ((uint32_t)184ULL); break;
          case 40: t0 = ((uint32_t)137ULL); break;
          case 141: t0 = ((uint32_t)169ULL); break;
          case 140: t0 = ((uint32_t)169ULL); break;
          case 139: t0 = ((uint32_t)169ULL); break;
          case 138: t0 = ((uint32_t)169ULL); break;
          case 137: t0 = ((uint32_t)169ULL); break;
          case 136: t0 = ((uint32_t)169ULL); break;
          case 135: t0 = ((uint32_t)169ULL); break;
          case 134: t0 = ((uint32_t)169ULL); break;
          case 198: t0 = ((uint32_t)177ULL); break;
          case 197: t0 = ((uint32_t)176ULL); break;
          case 196: t0 = ((uint32_t)175ULL); break;
          case 195: t0 = ((uint32_t)174ULL); break;
          case 132: t0 = ((uint32_t)169ULL); break;
          case 131: t0 = ((uint32_t)169ULL); break;
          case 130: t0 = ((uint32_t)169ULL); break;
          case 129: t0 = ((uint32_t)169ULL); break;
          case 128: t0 = ((uint32_t)169ULL); break;
          case 127: t0 = ((uint32_t)169ULL); break;
          case 126: t0 = ((uint32_t)169ULL); break;
          case 125: t0 = ((uint32_t)169ULL); break;
          case 124: t0 = ((uint32_t)169ULL); break;
          case 123: t0 = ((uint32_t)169ULL); break;
          case 122: t0 = ((uint32_t)169ULL); break;
          case 121: t0 = ((uint32_t)169ULL); break;
          case 120: t0 = ((uint32_t)169ULL); break;
          case 119: t0 = ((uint32_t)169ULL); break;
          case 118: t0 = ((uint32_t)169ULL); break;
          case 117: t0 = ((uint32_t)169ULL); break;
          case 116: t0 = ((uint32_t)169ULL); break;
          case 115: t0 = ((uint32_t)169ULL); break;
          case 114: t0 = ((uint32_t)169ULL); break;
          case 113: t0 = ((uint32_t)169ULL); break;
          case 112: t0 = ((uint32_t)169ULL); break;
          case 111: t0 = ((uint32_t)169ULL); break;
          case 110: t0 = ((uint32_t)169ULL); break;
          case 109: t0 = ((uint32_t)169ULL); break;
          case 106: t0 = ((uint32_t)139ULL); break;
          case 105: t0 = ((uint32_t)140ULL); break;
          case 104: t0 = ((uint32_t)138ULL); break;
          case 103: t0 = ((uint32_t)143ULL); break;
          case 102: t0 = ((uint32_t)141ULL); break;
          case 37: t0 = ((uint32_t)149ULL); break;
          case 194: t0 = ((uint32_t)97ULL); break;
          case 193: t0 = ((uint32_t)90ULL); break;
          case 236: t0 = ((uint32_t)171ULL); break;
          case 32: t0 = ((uint32_t)158ULL); break;
          case 29: t0 = ((uint32_t)183ULL); break;
          case 185: t0 = ((uint32_t)161ULL); break;
          case 259: t0 = ((uint32_t)161ULL); break;
          case 183: t0 = ((uint32_t)88ULL); break;
          case 182: t0 = ((uint32_t)172ULL); break;
          case 181: t0 = ((uint32_t)159ULL); break;
          case 180: t0 = ((uint32_t)86ULL); break;
          case 24: t0 = ((uint32_t)130ULL); break;
          case 23: t0 = ((uint32_t)145ULL); break;
          case 22: t0 = ((uint32_t)144ULL); break;
          case 87: t0 = ((uint32_t)168ULL); break;
          case 178: t0 = ((uint32_t)170ULL); break;
          case 258: t0 = ((uint32_t)153ULL); break;
          case 257: t0 = ((uint32_t)170ULL); break;
          case 231: t0 = ((uint32_t)170ULL); break;
          case 18: t0 = ((uint32_t)224ULL); break;
          case 81: t0 = ((uint32_t)179ULL); break;
          case 69: t0 = ((uint32_t)189ULL); break;
          case 163: t0 = ((uint32_t)190ULL); break;
          case 219: t0 = ((uint32_t)191ULL); break;
          case 245: t0 = ((uint32_t)192ULL); break;
          case 262: t0 = ((uint32_t)193ULL); break;
          case 277: t0 = ((uint32_t)194ULL); break;
          case 10: t0 = ((uint32_t)163ULL); break;
          case 67: t0 = ((uint32_t)142ULL); break;
          case 154: t0 = ((uint32_t)222ULL); break;
          case 4: t0 = ((uint32_t)186ULL); break;
          case 60: t0 = v_73; break;
          case 51: t0 = v_73; break;
          case 50: t0 = v_73; break;
          case 30: t0 = v_73; break;
          case 28: t0 = v_73; break;
          case 9: t0 = v_73; break;
          case 8: t0 = v_73; break;
          case 3: t0 = v_73; break;
          case 17: t0 = ((uint32_t)178ULL); break;
          case 21: t0 = ((uint32_t)162ULL); break;
          case 27: t0 = ((uint32_t)160ULL); break;
          case 38: t0 = ((uint32_t)136ULL); break;
          case 39: t0 = ((uint32_t)213ULL); break;
          case 47: t0 = ((uint32_t)216ULL); break;
          case 89: t0 = ((uint32_t)160ULL); break;
          case 108: t0 = ((uint32_t)219ULL); break;
          case 107: t0 = ((uint32_t)219ULL); break;
          case 133: t0 = ((uint32_t)169ULL); break;
          case 144: t0 = ((uint32_t)214ULL); break;
          case 43: t0 = ((uint32_t)155ULL); break;
          case 46: t0 = ((uint32_t)181ULL); break;
          default: t0 = 0; break; }
        uint8_t t1; switch (prev) {
          case 206: t1 = 0; break;
          case 280: t1 = 0; break;
          case 265: t1 = 0; break;
          case 248: t1 = 0; break;
          case 222: t1 = 0; break;
          case 216: t1 = 0; break;
          case 188: t1 = 0; break;
          case 166: t1 = 0; break;
          case 158: t1 = 0; break;
          case 147: t1 = 0; break;
          case 72: t1 = 0; break;
          case 65: t1 = 0; break;
          case 49: t1 = 0; break;
          case 45: t1 = 0; break;
          case 36: t1 = 0; break;
          case 34: t1 = 0; break;
          case 26: t1 = 0; break;
          case 20: t1 = 0; break;
          case 16: t1 = 0; break;
          case 6: t1 = 0; break;
          case 238: t1 = 0; break;
          case 61: t1 = 0; break;
          case 205: t1 = 0; break;
          case 150: t1 = 0; break;
          case 149: t1 = 0; break;
          case 204: t1 = 0; break;
          case 285: t1 = 0; break;
          case 289: t1 = 0; break;
          case 291: t1 = 0; break;
          case 202: t1 = 0; break;
          case 201: t1 = 0; break;
          case 200: t1 = 0; break;
          case 199: t1 = 0; break;
          case 42: t1 = 0; break;
          case 41: t1 = 0; break;
          case 40: t1 = 0; break;
          case 141: t1 = 0; break;
          case 140: t1 = 0; break;
          case 139: t1 = 0; break;
          case 138: t1 = 0; break;
          case 137: t1 = 0; break;
          case 136: t1 = 0; break;
          case 135: t1 = 0; break;
          case 134: t1 = 0; break;
          case 198: t1 = 0; break;
          case 197: t1 = 0; break;
          case 196: t1 = 0; break;
          case 195: t1 = 0; break;
          case 132: t1 = 0; break;
          case 131: t1 = 0; break;
          case 130: t1 = 0; break;
          case 129: t1 = 0; break;
          case 128: t1 = 0; break;
          case 127: t1 = 0; break;
          case 126: t1 = 0; break;
          case 125: t1 = 0; break;
          case 124: t1 = 0; break;
          case 123: t1 = 0; break;
          case 122: t1 = 0; break;
          case 121: t1 = 0; break;
          case 120: t1 = 0; break;
          case 119: t1 = 0; break;
          case 118: t1 = 0; break;
          case 117: t1 = 0; break;
          case 116: t1 = 0; break;
          case 115: t1 = 0; break;
          case 114: t1 = 0; break;
          case 113: t1 = 0; break;
          case 112: t1 = 0; break;
          case 111: t1 = 0; break;
          case 110: t1 = 0; break;
          case 109: t1 = 0; break;
          case 106: t1 = 0; break;
          case 105: t1 = 0; break;
          case 104: t1 = 0; break;
          case 103: t1 = 0; break;
          case 102: t1 = 0; break;
          case 37: t1 = 0; break;
          case 194: t1 = 0; break;
          case 193: t1 = 0; break;
          case 236: t1 = 0; break;
          case 32: t1 = 0; break;
          case 29: t1 = 0; break;
          case 185: t1 = 0; break;
          case 259: t1 = 0; break;
          case 183: t1 = 0; break;
          case 182: t1 = 0; break;
          case 181: t1 = 0; break;
          case 180: t1 = 0; break;
          case 24: t1 = 0; break;
          case 23: t1 = 0; break;
          case 22: t1 = 0; break;
          case 87: t1 = 0; break;
          case 178: t1 = 0; break;
          case 258: t1 = 0; break;
          case 257: t1 = 0; break;
          case 231: t1 = 0; break;
          case 18: t1 = 0; break;
          case 81: t1 = 0; break;
          case 69: t1 = 0; break;
          case 163: t1 = 0; break;
          case 219: t1 = 0; break;
          case 245: t1 = 0; break;
          case 262: t1 = 0; break;
          case 277: t1 = 0; break;
          case 10: t1 = 0; break;
          case 67: t1 = 0; break;
          case 154: t1 = 0; break;
          case 4: t1 = 0; break;
          case 60: t1 = 1; break;
          case 51: t1 = 1; break;
          case 50: t1 = 1; break;
          case 30: t1 = 1; break;
          case 28: t1 = 1; break;
          case 9: t1 = 1; break;
          case 8: t1 = 1; break;
          case 3: t1 = 1; break;
          case 17: t1 = 0; break;
          case 21: t1 = 0; break;
          case 27: t1 = 0; break;
          case 38: t1 = 0; break;
          case 39: t1 = 0; break;
          case 47: t1 = 0; break;
          case 89: t1 = 0; break;
          case 108: t1 = 0; break;
          case 107: t1 = 0; break;
          case 133: t1 = 0; break;
          case 144: t1 = 0; break;
          case 43: t1 = 0; break;
          case 46: t1 = 0; break;
          default: t1 = 0; break; }
        v_844 = t0;
        v_845 = t1;
      }
      npc = v_845 ? 1 : 293;
    }
    if (pc == 293) {
      {
        uint32_t t0; switch (prev) {
          case 292: t0 = v_844; break;
          case 1: t0 = ((uint32_t)0ULL); break;
          default: t0 = 0; break; }
        v_847 = t0;
      }
      return v_847;
    }
    prev = pc; pc = npc; }
}
