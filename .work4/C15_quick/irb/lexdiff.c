#include <stdio.h>
#include <string.h>
#include <stdlib.h>
#include "lexer.h"
#include "ir_native.h"
#include "/verif/.work4/C15_quick/irb/lexer_single_b222f3.c"
int main(int argc,char**argv){ long n=0,bad=0;
  for(int a=1;a<argc;a++){ FILE*f=fopen(argv[a],"rb"); if(!f) continue; static char buf[1<<21]; size_t len=fread(buf,1,sizeof buf-1,f); buf[len]=0; fclose(f);
    Scanner s1={buf,buf,buf,buf}, s2={buf,buf,buf,buf}; int t1,t2;
    do { t1=scan(&s1,buf+len); t2=(int)ir_scan((uint64_t)(uintptr_t)&s2,(uint64_t)(uintptr_t)(buf+len)); n++;
      if(t1!=t2||s1.cur!=s2.cur||s1.start!=s2.start){bad++; printf("DIFF %s t1=%d t2=%d\n",argv[a],t1,t2); break;} } while(t1); }
  printf("tokens=%ld bad=%ld\n",n,bad); return bad!=0; }
