import os, sys
HERE = os.path.dirname(os.path.dirname(os.path.abspath(__file__)))
sys.path.insert(0, os.path.join(HERE, 'lib')); sys.path.insert(0, HERE)
from checks import esccommon

META = dict(
    functions=['html.c: mmd_print_string_html, mmd_print_char_html', 'latex.c: mmd_print_string_latex, mmd_print_char_latex',
               'opendocument-content.c: mmd_print_string_opendocument, mmd_print_char_opendocument', 'opml.c: mmd_print_source_opml', 'itmz.c: mmd_print_source_itmz'],
    stubs=['d_string.c -> ds_model (C19)'],
    assumptions=['e-mail obfuscation (c04_esc_html_obfuscated): the generator is abstract (any draw); which numeric form is chosen does not matter'],
    outside=['"every body word appears in every format", order and nesting of writer markup are whole-tree properties of the writer switches: not encoded',
             'that every text position funnels into these escapers (syntactic side condition, not proved)'],
)

def harnesses(tier):
    hs = []
    for fmt in range(8):
        N = (3 if fmt in (2, 3, 4) else 4) if tier == 'quick' else (4 if fmt in (2, 3, 4) else 6)
        hs.append(esccommon.escape('c04_esc', fmt, N, tier))
    return hs

CLAIM = dict(
    text='For every byte string within the bound CBMC proves, on the real escaper of each textual format, that each character reserved in the '
         'target (& < > " in HTML/XML; \\\\ { } $ % & # _ ^ ~ in LaTeX) is emitted only inside an escape sequence and that undoing the '
         'escaping returns exactly the input: the escaping half of the property, for all texts rather than sampled ones.',
    note='trusted: CBMC; ds_model; the decoder vocabulary in harness/esc/escape.c; strings <= 3-6 bytes; word-preservation and nesting of the writers are outside',
    technique='CBMC bounded model checking of the per-format escapers with an inverse-decoder oracle over all byte strings',
)
