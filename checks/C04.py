import os, sys
HERE = os.path.dirname(os.path.dirname(os.path.abspath(__file__)))
sys.path.insert(0, os.path.join(HERE, 'lib')); sys.path.insert(0, HERE)
from checks import esccommon

META = dict(
    functions=['html.c: mmd_print_string_html, mmd_print_char_html', 'latex.c: mmd_print_string_latex, mmd_print_char_latex',
               'opendocument-content.c: mmd_print_string_opendocument, mmd_print_char_opendocument', 'opml.c: mmd_print_source_opml', 'itmz.c: mmd_print_source_itmz',
               'html.c / latex.c / beamer.c / memoir.c / opendocument-content.c: mmd_export_token_<w>, 24 block-level cases each (c04_nesting_*)'],
    stubs=['d_string.c -> ds_model (C19)', 'c04_nesting_*: d_string.c -> ds_sink (streams appended characters to the recogniser); tree walkers -> no-ops (the table instance renders its header child with the real case); label/alignment/info-string helpers -> constants'],
    assumptions=['c04_nesting_*: close_para set on entry; a definition list is not followed by another one (consecutive lists share one element); beamer heading cases excluded (frames are closed by the outline mechanism); LaTeX-family table header judged inside its table', 'e-mail obfuscation (c04_esc_html_obfuscated): the generator is abstract (any draw); which numeric form is chosen does not matter'],
    outside=['"every body word appears in every format" and source order are whole-tree properties of the writer switches: not encoded', 'nesting of span-level markup (emphasis, links, notes) and balance that spans several cases (beamer frames)',
             'that every text position funnels into these escapers (syntactic side condition, not proved)'],
)

def harnesses(tier):
    hs = []
    for fmt in range(8):
        N = (3 if fmt in (2, 3, 4) else 4) if tier == 'quick' else (4 if fmt in (2, 3, 4) else (5 if fmt in (5, 6) else 6))      # opml/itmz at 6 bytes: no verdict in 3000 s (measured)
        hs.append(esccommon.escape('c04_esc', fmt, N, tier))
    hs += nesting(tier)
    hs += latex_tt(tier)
    return hs

def lit_rules():
    import re, vrun
    txt = open(os.path.join(vrun.SRC, 'lexer.re')).read()
    return [(m.group(2), m.group(3)) for m in re.finditer(r'^\s*(["\'])((?:\\.|[^"\'\\])+)\1\s*\{ return ([A-Z_0-9]+); \}', txt, re.M)]

def latex_tt(tier):
    from checks import C08
    hs = []
    trees = ['mmd_export_token_tree_latex', 'mmd_export_token_tree_latex_raw', 'mmd_export_token_tree_latex_tt']
    for i, (lit, kind) in enumerate(lit_rules()):
        hs.append(dict(name='c04_latex_tt_%02d_%s' % (i, kind.lower()), src='c04/latextt.c', defs=dict(EXPORT='mmd_export_token_latex_tt', IDX=i, TREE1=trees[0], TREE2=trees[1], TREE3=trees[2]),
                       prepare=C08.gen_lit_table, pool_off=True,
                       units=[dict(src='repo:latex.c', remove=trees), 'repo:token.c', 'repo:stack.c', 'repo:object_pool.c', 'repo:char.c'],
                       nobody_ok='*', ignore_failed=['no-body'], unwind=90, timeout=300, mem_gb=4, functional=True, replay=False,
                       desc='mmd_export_token_latex_tt, token %s with its literal text: reserved characters only escaped, decoded output == source text' % kind))
    # the verbatim environments (fenced / indented code): mmd_export_token_latex_raw must copy the text unchanged
    for i, (lit, kind) in enumerate(lit_rules()):
        hs.append(dict(name='c04_latex_raw_%02d_%s' % (i, kind.lower()), src='c04/latextt.c', defs=dict(EXPORT='mmd_export_token_latex_raw', IDX=i, RAW_IDENTITY=1, TREE1=trees[0], TREE2=trees[1], TREE3=trees[2]),
                       prepare=C08.gen_lit_table, pool_off=True,
                       units=[dict(src='repo:latex.c', remove=trees), 'repo:token.c', 'repo:stack.c', 'repo:object_pool.c', 'repo:char.c'],
                       nobody_ok='*', ignore_failed=['no-body'], unwind=90, timeout=300, mem_gb=4, functional=True, replay=False,
                       desc='mmd_export_token_latex_raw (verbatim / lstlisting environments), token %s with its literal text: the output is exactly the source text' % kind))
    # tokens defined by a pattern: one concrete text each
    for nm, txt, kind in (('hash1', '# ', 'HASH1'), ('hash2', '## ', 'HASH2'), ('hash3', '### ', 'HASH3'), ('hash6', '###### ', 'HASH6'), ('hash2_eol', '##', 'HASH2')):
        hs.append(dict(name='c04_latex_tt_x_' + nm, src='c04/latextt.c', defs=dict(EXPORT='mmd_export_token_latex_tt', IDX=0, XLIT='"%s"' % txt, XKIND=kind, TREE1=trees[0], TREE2=trees[1], TREE3=trees[2]),
                       prepare=C08.gen_lit_table, pool_off=True,
                       units=[dict(src='repo:latex.c', remove=trees), 'repo:token.c', 'repo:stack.c', 'repo:object_pool.c', 'repo:char.c'],
                       nobody_ok='*', ignore_failed=['no-body'], unwind=90, timeout=300, mem_gb=4, functional=True, replay=False,
                       bounds='token %s with the text %r, followed by any lower-case letter' % (kind, txt),
                       desc='mmd_export_token_latex_tt, token %s (pattern-defined): reserved characters only escaped, decoded output == source text' % kind))
    return hs

NEST_KINDS = ['BLOCK_BLOCKQUOTE', 'BLOCK_CODE_FENCED', 'BLOCK_CODE_INDENTED', 'BLOCK_DEFLIST', 'BLOCK_DEFINITION', 'BLOCK_H1', 'BLOCK_H3', 'BLOCK_H6', 'BLOCK_HR',
              'BLOCK_LIST_BULLETED', 'BLOCK_LIST_BULLETED_LOOSE', 'BLOCK_LIST_ENUMERATED', 'BLOCK_LIST_ENUMERATED_LOOSE', 'BLOCK_LIST_ITEM', 'BLOCK_LIST_ITEM_TIGHT',
              'BLOCK_PARA', 'BLOCK_SETEXT_1', 'BLOCK_SETEXT_2', 'BLOCK_TABLE', 'BLOCK_TABLE_HEADER', 'BLOCK_TABLE_SECTION', 'BLOCK_TERM', 'TABLE_ROW', 'TABLE_CELL']
NEST_WRITERS = [
    ('html', 'repo:html.c', 'mmd_export_token_html', 1, 'FORMAT_HTML', ['mmd_export_token_tree_html', 'mmd_export_token_tree_html_raw', 'mmd_export_token_tree_html_math'], []),
    ('opendocument', 'repo:opendocument-content.c', 'mmd_export_token_opendocument', 1, 'FORMAT_FODT', ['mmd_export_token_tree_opendocument', 'mmd_export_token_tree_opendocument_raw', 'mmd_export_token_tree_opendocument_math'], []),
    ('latex', 'repo:latex.c', 'mmd_export_token_latex', 0, 'FORMAT_LATEX', ['mmd_export_token_tree_latex', 'mmd_export_token_tree_latex_raw', 'mmd_export_token_tree_latex_tt'], []),
    ('beamer', 'repo:beamer.c', 'mmd_export_token_beamer', 0, 'FORMAT_BEAMER', ['mmd_export_token_tree_beamer', 'mmd_export_token_tree_latex_raw', 'mmd_export_token_tree_latex'], ['repo:latex.c']),
    ('memoir', 'repo:memoir.c', 'mmd_export_token_memoir', 0, 'FORMAT_MEMOIR', ['mmd_export_token_tree_memoir', 'mmd_export_token_tree_latex_raw', 'mmd_export_token_tree_latex'], ['repo:latex.c']),
]

def nesting(tier):
    hs = []
    for nm, unit, fn, fam, fmt, trees, more in NEST_WRITERS:
        for k in NEST_KINDS:
            if nm == 'beamer' and (k.startswith('BLOCK_H') and k != 'BLOCK_HR' or k.startswith('BLOCK_SETEXT')):
                continue          # beamer opens a frame at a heading and closes it through the outline mechanism (mmd_outline_add_beamer), not in the heading's case
            if fam == 0 and k == 'BLOCK_TABLE_HEADER':
                continue          # LaTeX family: the header's case opens tabulary, the table's case closes it -- judged together in the BLOCK_TABLE instance
            rm = [t for t in trees if not (more and 'latex' in t)]
            units = [dict(src=unit, remove=rm, cflags=['-Dexit=verif_exit'])]
            if more:
                # beamer/memoir fall back to the LaTeX writer for the kinds they do not handle themselves: link it, with its tree walkers removed
                units.append(dict(src='repo:latex.c', remove=['mmd_export_token_tree_latex', 'mmd_export_token_tree_latex_raw', 'mmd_export_token_tree_latex_tt'], cflags=['-Dexit=verif_exit']))
            d = dict(EXPORT=fn, FAMILY=fam, FMT=fmt, TY=k, TREE1=trees[0], TREE2=trees[1], TREE3=trees[2])
            if more:
                d['TREE4'] = 'mmd_export_token_tree_latex_tt'
            hs.append(dict(name='c04_nesting_%s_%s' % (nm, k.lower()), src='c04/nesting.c', defs=d, pool_off=True,
                           units=units + ['repo:token.c', 'repo:stack.c', 'repo:object_pool.c', 'repo:char.c', 'common/ds_sink.c'],
                           nobody_ok='*', ignore_failed=['no-body'], unwind=200, timeout=600, mem_gb=4, functional=True, replay=False,
                           bounds='one %s token with two children (paragraph or text), optional successor of any kind; all extension words, tight/loose, base header level 1..3, with/without info string' % k,
                           desc='%s, case %s: what the case emits is balanced (%s)' % (fn, k, 'begin/end environments' if fam == 0 else 'elements')))
    return hs

CLAIM = dict(
    text='For every byte string within the bound CBMC proves, on the real escaper of each textual format, that each character reserved in the '
         'target (& < > " in HTML/XML; \\\\ { } $ % & # _ ^ ~ in LaTeX) is emitted only inside an escape sequence and that undoing the '
         'escaping returns exactly the input: the escaping half of the property, for all texts rather than sampled ones.  The nesting half is '
         'decided per block-level case of the five writers: what each case emits, for every extension word and every state it consults, is '
         'streamed through a recogniser of the target nesting syntax and proved balanced with matching names.',
    note='trusted: CBMC; ds_model / ds_sink; the decoder vocabulary in harness/esc/escape.c; strings <= 3-6 bytes; the nesting recognisers in harness/c04/nesting.c; '
         'word-preservation, span-level markup and balance across cases (beamer frames, merged definition lists) are outside',
    technique='CBMC bounded model checking of the per-format escapers with an inverse-decoder oracle over all byte strings; per-case balanced-markup recogniser over the real writer switches',
)
