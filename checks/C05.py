META = dict(
    functions=['mmd.c: mmd_engine_parse_substring, mmd_engine_reset, mmd_parse_token_chain (depth counter balance)', 'writer.c: scratch_pad_new, footnote_free, link_free, meta_free', 'html.c: rand()/srand() sites (gated by EXT_RANDOM_FOOT: asserted in the C10 harnesses)', 'rng.c: ran_num_next / ran_start via mmd_print_char_html(obfuscate)'],
    stubs=['rand/srand -> counting stubs', 'lemon Parse* -> observers', 'd_string.c -> ds_model', 'asset hash abstracted to empty', 'rng.c -> contract model: ran_start(seed) restarts stream UF[seed], ran_num_next() = next element; never-started stream continues across exports'],
    assumptions=['engine stacks with 0..2 entries of the right kind each'],
    outside=['whole conversions in sequence', 'the token pool across conversions (C18)', 'immutability of the source bytes during a parse'],
)

def harnesses(tier):
    hs = [
        dict(name='c05_reset', src='c05/reset.c', defs=dict(DS_CAP=8),
             units=['repo:mmd.c', 'repo:writer.c', 'repo:token.c', 'repo:stack.c', 'repo:object_pool.c', 'repo:char.c', 'common/ds_model.c'],
             unwind=12, timeout=900, mem_gb=8, slice=True,
             bounds='each of the 10 engine stacks with 0..2 entries, root present or not', desc='mmd_engine_reset: nothing of the previous parse survives'),
        dict(name='c05_rand_gate', src='c05/randgate.c', defs=dict(DS_CAP=8),
             units=['repo:writer.c', 'repo:token.c', 'repo:stack.c', 'repo:object_pool.c', 'repo:char.c', 'common/ds_model.c'],
             unwind=6, timeout=900, mem_gb=8, functional=True,
             bounds='all 2^17 extension sets x 13 formats', desc='scratch_pad_new: rand()/srand() only under EXT_RANDOM_*; all per-export state starts from constants'),
        dict(name='c05_depth_balance', src='c07/parse_guard.c', defs=dict(DS_CAP=8),
             units=['repo:mmd.c', 'repo:token.c', 'repo:object_pool.c', 'repo:stack.c', 'repo:char.c', 'common/ds_model.c'], pool_off=True,
             unwind=5, timeout=600, mem_gb=4, replay=False,
             bounds='any depth counter 0..limit', desc='mmd_parse_token_chain restores e->recurse_depth on every return path (the engine field survives into the next conversion)'),
    ]
    hs.append(dict(name='c05_parse_options', src='c05/parsesub.c', defs=dict(DS_CAP=8),
             units=[dict(src='repo:mmd.c', remove=['mmd_engine_reset', 'mmd_tokenize_string', 'mmd_parse_token_chain', 'mmd_assign_ambidextrous_tokens_in_block', 'mmd_pair_tokens_in_block', 'pair_emphasis_tokens', 'mmd_convert_opml_string', 'mmd_convert_itmz_string']),
                    'repo:token.c', 'repo:stack.c', 'repo:object_pool.c', 'repo:char.c', 'common/ds_model.c'],
             unwind=8, timeout=600, mem_gb=4, functional=True, replay=False,
             bounds='all 2^17 extension sets, any sub-range of the text, engine with or without a stale tree', desc='mmd_engine_parse_substring: reset first, extension word restored (temporary EXT_NO_METADATA does not leak)'))
    hs.append(dict(name='c05_obfus', src='c05/obfus.c', defs=dict(DS_CAP=8, DS_NO_PRINTF=1),
             units=[dict(src='repo:writer.c', remove=['url_accept']), dict(src='repo:html.c', cflags=['-Dexit=verif_exit', '-Dfprintf=verif_fprintf'], remove=['mmd_export_token_tree_html', 'mmd_export_token_tree_html_raw', 'mmd_export_token_tree_html_math']), 'repo:token.c', 'repo:stack.c', 'repo:object_pool.c', 'repo:char.c', 'common/ds_null.c'],
             pool_off=True, unwind=24, timeout=900, mem_gb=8, functional=True, replay=False,
             bounds='any 0..3 earlier draws, any 2 printable characters, any extension set with EXT_OBFUSCATE', desc='obfuscation of the same text is identical after an arbitrary history and in a fresh process (rng.c modelled by its contract)'))
    return hs

CLAIM = dict(
    text='The places where history could leak into a conversion are checked at the mechanism: CBMC proves that mmd_engine_reset empties every '
         'stack of an arbitrary engine, that the export prologue consults the process-global libc PRNG only when random anchors/labels were '
         'requested and otherwise starts from constants, that the parse-depth counter stored in the engine is restored on every path, and that '
         'the e-mail obfuscation stream restarts per export.',
    note='trusted: CBMC; stacks of <= 2 entries; whole conversion sequences are outside',
    technique='CBMC bounded model checking of engine reset / export prologue / depth counter / obfuscation generator state',
)
