META = dict(
    functions=['token.c: token_pool_init, token_pool_drain, token_pool_free, token_new (pool on)', 'object_pool.c: pool_new, pool_add_slab, pool_allocate_object, pool_drain, pool_free', 'stack.c'],
    stubs=[],
    assumptions=['pre-state: ANY state with PROTOINV {count>0 => pool exists} and POOLINV {pool drained (next=last=NULL, no slabs) or next/last delimit the free tail of the newest of 1..2 slabs}',
                 'operations respect the bracketing the property quantifies over: token_new and drain need count>0, free needs count==0',
                 'quick tier: slabs of 4 objects via the guarded hook MMD6_VERIF_POOL_OBJECTS (code is parametric in the constant); thorough adds the real 1024-object slab'],
    outside=['conversions as pool clients; token_pool_count is a short (overflow after 32767 nested inits); unbracketed sequences'],
)

def harnesses(tier):
    hs = []
    OPS = ['init', 'token_new', 'drain', 'free']
    for i, op in enumerate(OPS):
        hs.append(dict(name='c18_step_' + op, src='c18/proto.c', defs=dict(OP=i, NOBJ=4, MMD6_VERIF_POOL_OBJECTS=4),
                       units=['repo:object_pool.c', 'repo:stack.c'], unwind=6, timeout=900, mem_gb=8, slice=True,
                       bounds='4-object slabs, <= 2 live slabs, any use count 0..999, any fill level',
                       desc='protocol step %s from an arbitrary valid protocol state' % op))
    if tier == 'thorough':
        # the real 1024-object slab has no verdict (14 GB, measured): a 64-object slab is the deepest that completes
        hs.append(dict(name='c18_step_token_new_slab64', src='c18/proto.c', defs=dict(OP=1, NOBJ=64, MMD6_VERIF_POOL_OBJECTS=64),
                       units=['repo:object_pool.c', 'repo:stack.c'], unwind=6, timeout=3000, mem_gb=14, backend='cadical',
                       bounds='64-object slabs (through the MMD6_VERIF_POOL_OBJECTS hook)', desc='allocation step at a 64-object slab'))
    return hs

CLAIM = dict(
    text='CBMC proves, for an arbitrary pool/protocol state satisfying the stated invariants and any single bracketed operation, that init '
         'creates a pool only when none exists, allocation hands out a fresh in-slab slot without freeing anything (including the '
         'last-slot / new-slab boundary), an inner drain frees nothing, the outermost drain frees every slab and leaves a clean pool, free '
         'removes the pool, and the invariants are re-established: an inductive argument that covers well-bracketed histories of any length, '
         'which no finite set of test histories does.',
    note='trusted: CBMC; slab size 4 through the MMD6_VERIF hook in the quick tier; invariants as listed in evidence.assumptions',
    technique='CBMC bounded model checking: one-step inductive protocol/invariant preservation for token.c + object_pool.c',
)
