OPS = ['new', 'append', 'append_c', 'append_c_array', 'prepend', 'insert', 'insert_c', 'insert_c_array', 'erase',
       'copy_substring', 'replace', 'append_printf', 'insert_printf']

META = dict(
    functions=['d_string.c: d_string_new, d_string_append, d_string_append_c, d_string_append_c_array, d_string_append_printf, '
               'd_string_prepend, d_string_insert, d_string_insert_c, d_string_insert_c_array, d_string_insert_printf, d_string_erase, '
               'd_string_copy_substring, d_string_replace_text_in_range, ensureStringBufferCanHold, vasprintf (repo replacement)'],
    stubs=['c19_replace: d_string_erase/d_string_insert replaced by their ideal in-place versions (justified by c19_op_erase/c19_op_insert)', 'malloc/realloc/free inside d_string.c -> fixed 16/32-byte objects with recorded request size and solver-chosen canaries beyond it', 'memmove/memcpy/strncpy/strncat/strlen/strstr -> byte-loop models (harness/common/vh_libc.h)', 'vsnprintf -> arbitrary string of <= A bytes (formatting itself is libc)', 'realloc -> size recorder in c19_grow only'],
    assumptions=['append_c_array/insert_c_array: bytes == (size_t)-1 or bytes <= strlen(argument) (callers pass spans of NUL-free text)',
                 'replace_text_in_range: original is non-empty (with an empty pattern the loop does not terminate; callers never pass one)',
                 'pre-state is ANY state satisfying the representation invariant (capacity > length, NUL at length, capacity bytes allocated); '
                 'capacities 1..CAPMAX so that growth is crossed at small sizes; c19_grow covers the size arithmetic up to 2^32'],
    outside=['operation sequences are covered inductively (one step from an arbitrary valid state), not enumerated',
             'content longer than M bytes / arguments longer than A bytes', 'allocation failure'],
)

def harnesses(tier):
    M, A, CAP, BIG = (4, 2, 6, 16) if tier == 'quick' else (6, 3, 10, 32)
    hs = []
    for i, op in enumerate(OPS):
        if op == 'replace':
            continue
        hs.append(dict(
            name='c19_op_' + op, src='c19/op.c', defs=dict(OP=i, M=M, A=A, CAPMAX=CAP, BIG=BIG),
            unwind=max(BIG, M + 6 * A + 2) + 3, timeout=900 if tier == 'quick' else 3000, mem_gb=4,
            bounds='content<=%d bytes, arguments<=%d bytes, capacity 1..%d, positions/lengths full 64-bit' % (M, A, CAP),
            desc='d_string_%s from an arbitrary valid DString vs ideal string' % op))
    RM = 3 if tier == 'quick' else 4      # 5: beyond 7 GB (measured)
    hs.append(dict(name='c19_replace', src='c19/replace.c', defs=dict(M=RM, A=2),
                   units=[dict(src='repo:d_string.c', remove=['d_string_erase', 'd_string_insert'], cflags=['-include', 'vh_libc.h'])],
                   unwind=RM * 2 + RM + 6, timeout=900 if tier == 'quick' else 4000, mem_gb=6 if tier == 'quick' else 20,
                   bounds='content<=%d bytes, pattern 1..2 bytes, replacement 0..2 bytes, pos/len full 64-bit' % RM,
                   desc='d_string_replace_text_in_range loop bookkeeping vs ideal string (erase/insert = their ideal versions)'))
    hs.append(dict(name='c19_new_boundary', src='c19/newsize.c', unwind=8, timeout=600, mem_gb=6, functional=True, replay=False,
                   bounds='every starting-string length 0..8190 (symbolic)', desc='d_string_new sizing loop: capacity > length at every power-of-two boundary'))
    hs.append(dict(name='c19_grow', src='c19/grow.c', unwind=80, timeout=600, mem_gb=4,
                   bounds='capacity and request < 2^32, growth loop <= 79 iterations (unwinding assertion)',
                   desc='ensureStringBufferCanHold size arithmetic'))
    return hs

CLAIM = dict(
    text='Every DString operation of d_string.c, started from ANY state satisfying the representation invariant, is proved by CBMC to '
         'leave exactly the ideal string (content, length, NUL, capacity > length, no write outside the held buffer) for all contents, '
         'argument strings and full-range 64-bit positions/lengths within the stated byte bounds; because the step is from an arbitrary '
         'valid state it covers operation sequences of any length. Bounded model checking is the right level: the interesting inputs '
         '(wrapping lengths, capacity boundaries) are rare values the solver finds and tests do not.',
    note='trusted: CBMC 6.11 + MiniSat; byte-loop libc models; fixed-size allocation model with canaries (DESIGN §3 C19); content <= 4/6 bytes, '
         'arguments <= 2/3 bytes; replace loop checked with erase/insert replaced by their ideal versions',
    technique='CBMC bounded model checking of d_string.c: per-operation inductive refinement against an ideal string from an arbitrary valid state',
)
