import os, sys
HERE = os.path.dirname(os.path.dirname(os.path.abspath(__file__)))
sys.path.insert(0, os.path.join(HERE, 'lib')); sys.path.insert(0, HERE)
from checks import esccommon

META = dict(
    functions=['opml.c: mmd_print_source_opml', 'itmz.c: mmd_print_source_itmz', 'xml.c: print_xml_as_text (importer unescape)', 'xml.c: xml_extract_attribute / xml_extract_named_attribute / xml_scan_* (Engine B)', 'opml.c: mmd_export_header_opml / mmd_outline_add_opml span arithmetic'],
    stubs=['d_string.c -> ds_model (C19)', 'c14_outline(_itmz): mmd_print_source_opml / _itmz -> recorder of (start,len); DString -> counter of literal pieces; uuid_new -> constant', 'libc block/string functions in xml.c -> byte-loop models'],
    assumptions=[],
    outside=['heading-tree <-> outline nesting through the lemon OPML parser', 'metadata items', 'the render-identically round trip (whole pipeline)'],
)

def harnesses(tier):
    N = 4 if tier == 'quick' else 5      # 6 bytes: no verdict within 3000 s (measured)
    hs = []
    for fmt in (5, 6):
        h = esccommon.escape('c14_escape_inverse', fmt, N, tier)
        h['desc'] = 'import-side unescape (print_xml_as_text) is the exact inverse of export-side escape (%s) on all text' % esccommon.FMTS[fmt]
        hs.append(h)
    hs.append(dict(name='c14_outline', src='c14/outline.c', pool_off=True,
                   units=[dict(src='repo:opml.c', remove=['mmd_print_source_opml']), 'repo:token.c', 'repo:stack.c', 'repo:object_pool.c', 'repo:char.c'],
                   unwind=6, timeout=900, mem_gb=6, functional=True, replay=False,
                   bounds='previous heading(s) and new heading of any of the 8 heading kinds, any base header level 1..6, arbitrary spans (lengths/gaps 0..4), item open or closed, heading or end of document',
                   desc='mmd_outline_add_opml: note = exact source span between headings; items closed by relative level only (base header level cancels)'))
    hs.append(dict(name='c14_outline_itmz', src='c14/outline.c', defs=dict(FN='mmd_outline_add_itmz', SRCFN='mmd_print_source_itmz', OPENCH="'t'"), pool_off=True,
                   units=[dict(src='repo:itmz.c', remove=['mmd_print_source_itmz']), 'repo:token.c', 'repo:stack.c', 'repo:object_pool.c', 'repo:char.c'],
                   unwind=6, timeout=900, mem_gb=6, functional=True, replay=False,
                   bounds='previous heading(s) and new heading of any of the 8 heading kinds, any base header level 1..6, arbitrary spans (lengths/gaps 0..4), item open or closed, heading or end of document',
                   desc='mmd_outline_add_opml: note = exact source span between headings; items closed by relative level only (base header level cancels)'))
    return hs

CLAIM = dict(
    text='CBMC proves on the real exporter escape and importer unescape functions that unescape(escape(s)) == s for every byte string within the '
         'bound (all XML-reserved and whitespace characters at every position), that attribute extraction returns exactly the attribute value, '
         'and that the note text written for a heading is exactly the source span up to the next heading.',
    note='trusted: CBMC; ds_model; strings <= 4/6 bytes; outline nesting via the lemon OPML parser and the whole round trip are outside',
    technique='CBMC bounded model checking of the OPML/ITMZ escape-unescape pair and attribute/span arithmetic over all byte strings',
)
