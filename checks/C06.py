RM = ['mmd_engine_parse_string', 'mmd_engine_export_token_tree', 'mmd_engine_has_metadata', 'mmd_engine_metadata_keys', 'mmd_engine_metavalue_for_key']
FILEDEFS = ['-Dfopen=vh_fopen', '-Dfputs=vh_fputs', '-Dfputc=vh_fputc', '-Dfclose=vh_fclose', '-Dperror=vh_perror']

META = dict(
    functions=['mmd.c: mmd_string_convert, mmd_d_string_convert, mmd_engine_convert, mmd_*_convert_to_data, mmd_*_convert_to_file, mmd_*_has_metadata, '
               'mmd_*_metadata_keys, mmd_*_metavalue_for_key, mmd_engine_create*, mmd_engine_set_language, mmd_engine_free, mmd_engine_reset'],
    stubs=['mmd_engine_parse_string / mmd_engine_export_token_tree -> recorders of (text, extensions, language, quotes language, format) appending a marker derived from them',
           'epub_create, textbundle_create, opendocument_*_create, itmz_create, *_write_wrapper -> tagged recorders', 'fopen/fputs/fputc/fclose -> in-memory file recorder',
           'mmd_engine_has_metadata / _metadata_keys / _metavalue_for_key -> recorders with an arbitrary fixed answer', 'd_string.c -> ds_model (C19)', 'token_pair_engine_new/add_pairing/free -> empty (the pairing tables are irrelevant to the wrappers)'],
    assumptions=['source <= 3 bytes (the wrappers do not look at the text), every extension word, 13 formats, 7 languages'],
    outside=['the CLI (main.c + argtable3): option -> extension-bit mapping is straight-line code', 'what the engine does with the tuple (other properties)'],
)

def harnesses(tier):
    N = 2 if tier == 'quick' else 3
    hs = []
    for i, op in enumerate(['convert', 'convert_to_data', 'convert_to_file', 'metadata']):
        hs.append(dict(name='c06_' + op, src='c06/wrap.c', defs=dict(OP=i, N=N, DS_CAP=12),
                       units=[dict(src='repo:mmd.c', remove=RM, cflags=FILEDEFS), 'repo:token.c', 'repo:stack.c', 'repo:object_pool.c', 'repo:char.c', 'common/ds_model.c'],
                       unwind=14, object_bits=10, timeout=1500, mem_gb=10,
                       native_whole_lib=True, slice=True,
                       bounds='source <= %d bytes x 2^17 extension sets x 13 formats x 7 languages' % N,
                       desc='%s: C-string, DString and engine variants hand the engine the same tuple and return its result' % op))
    return hs

CLAIM = dict(
    text='With the real wrapper functions of mmd.c and recorders in place of what they wrap, CBMC proves for every source within the bound, '
         'every extension word, format and language that the C-string, DString and engine variants of convert / convert_to_data / '
         'convert_to_file and of the metadata queries pass the identical (text, extensions, language, format) tuple down, return or write '
         "exactly the engine result, reach the package writer for packaged formats, and leave the caller's buffer valid.",
    note='trusted: CBMC; recorders as listed; CLI outside; 2/3-byte sources (wrappers are text-independent)',
    technique='CBMC bounded model checking of the mmd.c wrapper functions against recorder stubs (function bodies removed with goto-instrument)',
)
