"""shared harness specs over writer.c string kernels (used by C01, C11, C16)"""
def strings(name, mode, N, tier, desc, extra_defs=None, functional=True):
    d = dict(MODE=mode, N=N, DS_CAP=N + 4)
    d.update(extra_defs or {})
    return dict(name=name, src='w/strings.c', defs=d,
                units=['repo:writer.c', 'repo:char.c', 'common/ds_model.c'],
                unwind=N + 5, timeout=900 if tier == 'quick' else 3000, mem_gb=6, functional=functional,
                bounds='every NUL-terminated string of <= %d bytes (all byte values)' % N, desc=desc)
