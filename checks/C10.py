HTML = dict(src='repo:html.c', cflags=['-Dexit=verif_exit', '-Dfprintf=verif_fprintf'],
            remove=['mmd_export_token_tree_html', 'mmd_export_token_tree_html_raw', 'mmd_export_token_tree_html_math', 'mmd_print_string_html'])

META = dict(
    functions=['html.c: mmd_export_token_html (PAIR_BRACKET_FOOTNOTE, PAIR_BRACKET_CITATION incl. locator form, PAIR_BRACKET_GLOSSARY, BLOCK_PARA back-links), '
               'mmd_export_footnote_list_html, mmd_export_citation_list_html, mmd_export_glossary_list_html'],
    stubs=['writer.c footnote/citation/glossary_from_bracket -> contract stub (number = position in the used-notes stack, first use pushes)',
           'mmd_export_token_tree_html* -> no rendering, but can perform a nested first use while a list entry is printed',
           'd_string_append_printf -> recorder of the integers spliced into href/id attributes', 'srand/rand -> uninterpreted function of the seed', 'd_string.c -> ds_null (output text discarded; anchors observed through the printf recorder)'],
    assumptions=['<= 3 notes, <= 3 calls, one nested first use'],
    outside=['numbering across a whole document tree walk, LaTeX \\\\autoref/\\\\label, captioned tables'],
)

def harnesses(tier):
    hs = []
    for k, nm in enumerate(['footnote', 'citation', 'glossary']):
        for vn, (reuse, nest) in [('two', (0, 0)), ('reuse', (1, 0)), ('nested', (0, 1))]:
            hs.append(dict(name='c10_notes_%s_%s' % (nm, vn), src='c10/notes.c', defs=dict(KIND=k, SECOND_REUSE=reuse, NEST_AT=nest, DS_CAP=16, DS_NO_PRINTF=1),
                           units=[HTML, 'repo:token.c', 'repo:stack.c', 'repo:object_pool.c', 'repo:char.c', 'common/ds_null.c'],
                           pool_off=True, unwind=12, unwindset=['mmd_export_token_html:3', 'mmd_export_token_tree_html:3', 'has.0:170', 'has.1:170', 'strlen.0:24'], object_bits=12, timeout=1500, mem_gb=8, replay=False,
                           functional=True, bounds='2 explicit calls (%s)%s, any random seed base, extension bits RANDOM_FOOT/SMART/COMPLETE' % ('first use + re-use' if reuse else 'two first uses', ' + a nested first use while the list is printed' if nest else ''),
                           desc='%s anchors: call href == entry id, back-link == id of first call, entries 1..n, every used note listed' % nm))
    rm = ['mmd_start_complete_html', 'mmd_end_complete_html', 'process_definition_stack', 'process_header_stack', 'process_table_stack', 'identify_global_search_terms', 'process_metadata_stack', 'scratch_pad_free']
    hs.append(dict(name='c10_list_order', src='c10/listorder.c', defs=dict(DS_CAP=8), pool_off=True,
                   units=[dict(src='repo:writer.c', remove=rm), 'repo:token.c', 'repo:stack.c', 'repo:object_pool.c', 'repo:char.c', 'common/ds_model.c'],
                   nobody_ok='*', ignore_failed=['no-body'], unwind=18, timeout=900, mem_gb=8, functional=True, replay=False,
                   bounds='body and list entries registering 0..1 first uses of each note kind; all extension words; HTML',
                   desc='mmd_engine_export_token_tree (HTML): every note first called in the body or in an entry of another list is known when its own list is printed'))
    for k0, k1 in ((0, 1), (1, 0), (0, 0), (2, 5)):
        hs.append(dict(name='c10_toc_targets_h%d_h%d' % (k0 + 1, k1 + 1), src='c10/toc.c', defs=dict(DS_NO_PRINTF=1, K0=k0, K1=k1), pool_off=True,
                       units=[dict(src='repo:html.c', remove=['mmd_export_token_tree_html']), 'repo:token.c', 'repo:stack.c', 'repo:object_pool.c', 'repo:char.c', 'common/ds_null.c'],
                       nobody_ok='*', ignore_failed=['no-body'], unwind=8, unwindset=['mmd_export_toc_entry_html:3'], timeout=600, mem_gb=6, functional=True, replay=False,
                       bounds='two ATX headings of levels %d and %d, base header level 1..3, all extension words except random ids' % (k0 + 1, k1 + 1),
                       desc='html.c heading case vs mmd_export_toc_html: a TOC entry links only to an id that its heading carries'))
    hs.append(dict(name='c10_heading_ids', src='c10/headings.c', defs=dict(DS_CAP=16), pool_off=True,
                   units=[dict(src='repo:writer.c', remove=['manual_label_from_header', 'label_from_token', 'link_new'], cflags=['-include', 'vh_libc.h']), 'repo:token.c', 'repo:stack.c', 'repo:object_pool.c', 'repo:char.c', 'common/ds_model.c'],
                   nobody_ok='*', ignore_failed=['no-body'], unwind=12, timeout=600, mem_gb=6, functional=True,
                   bounds='ATX level 1..6 with/without closing marker, Setext 1 and 2, with/without manual label, all extension words',
                   desc='process_header_to_links vs label_from_header: the automatic link of a heading is built from the same source span as the id the writers print'))
    return hs

CLAIM = dict(
    text='CBMC runs the real HTML writer code for note calls, note lists and back-links with the integers spliced into href/id attributes '
         'recorded, the libc PRNG as an uninterpreted function, and proves for every seed base, extension choice and call pattern within the '
         'bound that each call resolves to the entry of its note, each entry links back to the first call, and entries are numbered 1..n '
         '(or consistently renamed under random anchors).  The automatic link of a heading (parse time) and the id the writers and the table of contents '
         'print (export time) are proved to be built from the same source span for every heading style, TOC entries link only to ids that are printed, '
         'and the export driver is checked against note uses registered while another list is printed (2 listed findings).',
    note='trusted: CBMC; contract stubs for writer.c note bookkeeping; <= 3 notes; whole-document numbering outside',
    technique='CBMC bounded model checking of html.c anchor-producing code with a printf-argument recorder and uninterpreted rand()',
)
