import os, re, sys, time, glob
HERE = os.path.dirname(os.path.dirname(os.path.abspath(__file__)))
sys.path.insert(0, os.path.join(HERE, 'lib'))
import vrun

WALKERS = [('html', 'repo:html.c', 'mmd_export_token_tree_html', 'mmd_export_token_html'),
           ('latex', 'repo:latex.c', 'mmd_export_token_tree_latex', 'mmd_export_token_latex'),
           ('beamer', 'repo:beamer.c', 'mmd_export_token_tree_beamer', 'mmd_export_token_beamer'),
           ('memoir', 'repo:memoir.c', 'mmd_export_token_tree_memoir', 'mmd_export_token_memoir'),
           ('opendocument', 'repo:opendocument-content.c', 'mmd_export_token_tree_opendocument', 'mmd_export_token_opendocument'),
           ('opml', 'repo:opml.c', 'mmd_export_token_tree_opml', 'mmd_export_token_opml'),
           ('itmz', 'repo:itmz.c', 'mmd_export_token_tree_itmz', 'mmd_export_token_itmz')]

META = dict(
    functions=['mmd.c: mmd_parse_token_chain', 'token_pairs.c: token_pairs_match_pairs_inside_token'] + ['%s: %s' % (u[5:], t) for _, u, t, _ in WALKERS] + ['parser.c tables (stack depth: see C02 c02_stack_ranking)'],
    stubs=['per-token exporters / lemon Parse* -> observers of the depth counter', 'd_string.c -> ds_model'],
    assumptions=['depth counter value arbitrary in [0, limit]'],
    outside=['the cost half of the property (work proportional to k, pathological patterns): executed-basic-block counts on inputs of 10^3..10^6 bytes cannot be expressed as a bounded symbolic query: not claimed',
             'depth of the unguarded child-only walks (pair_emphasis_tokens, whitespace_fix, token_tree_free ...) is bounded by tree depth, which the guarded passes bound: argument in prose'],
)

def harnesses(tier):
    hs = []
    for nm, unit, tree, tok in WALKERS:
        hs.append(dict(name='c07_guard_' + nm, src='c07/guard.c', defs=dict(TREE=tree, TOKEN=tok, DS_CAP=8),
                       units=[dict(src=unit, remove=[tok]), 'repo:token.c', 'repo:object_pool.c', 'repo:stack.c', 'repo:char.c', 'common/ds_model.c'], pool_off=True,
                       unwind=5, timeout=600, mem_gb=4, replay=False,
                       bounds='any depth counter 0..limit, chains of 1..2 tokens', desc='%s: stops at kMaxExportRecursiveDepth, hands children down at depth+1, restores the counter' % tree))
    hs.append(dict(name='c07_guard_parse', src='c07/parse_guard.c', defs=dict(DS_CAP=8),
                   units=['repo:mmd.c', 'repo:token.c', 'repo:object_pool.c', 'repo:stack.c', 'repo:char.c', 'common/ds_model.c'], pool_off=True,
                   unwind=5, timeout=600, mem_gb=4, replay=False,
                   bounds='any depth counter 0..limit, 1..2 line tokens', desc='mmd_parse_token_chain: stops at kMaxParseRecursiveDepth, counter balanced on every path'))
    hs.append(dict(name='c07_guard_pairs', src='c07/pairs_guard.c',
                   units=['repo:token_pairs.c', 'repo:token.c', 'repo:object_pool.c', 'repo:stack.c', 'repo:char.c'], pool_off=True,
                   unwind=8, unwindset=['token_pairs_match_pairs_inside_token:3', 'token_pairs_match_pairs_inside_token.0:232', 'token_pair_engine_new.0:4'], timeout=900, mem_gb=8, replay=False,
                   bounds='depth in {limit-1, limit}, two nesting levels', desc='token_pairs_match_pairs_inside_token: no pairing / no recursion at the limit'))
    return hs

def stack_budget(tier):
    """Engine C: frame sizes (gcc -fstack-usage on the current tree) x depth limits must fit the default 8 MiB stack; decided by z3."""
    t0 = time.time()
    res = dict(name='c07_stack_budget', verdict='error', wall=0, rss_kb=0, n_props=1, failed=[], cover_total=0, cover_sat=0, detail='',
               bounds='limits read from the headers, frames from gcc -fstack-usage (-O2, as in the release build)', desc='z3: sum(limit x frame of each guarded recursion cycle) < 8 MiB')
    work = os.path.join(os.environ.get('VERIF_WORK_DIR', os.path.join(HERE, '.work')), 'C07_%s' % tier, 'budget'); os.makedirs(work, exist_ok=True)
    inc = vrun.prepare_inc(work)
    units = ['mmd.c', 'token_pairs.c', 'html.c', 'latex.c', 'beamer.c', 'memoir.c', 'opendocument-content.c', 'opml.c', 'itmz.c', 'parser.c', 'writer.c', 'token.c']
    su = {}
    for u in units:
        r = vrun.run(['gcc', '-c', '-O2', '-w', '-DNDEBUG', '-fstack-usage', '-I', vrun.SRC, '-I', inc, os.path.join(vrun.SRC, u), '-o', os.path.join(work, u + '.o')], timeout=300, cwd=work)
        if r['rc'] != 0:
            res['detail'] = 'gcc -fstack-usage failed on %s: %s' % (u, r['err'][-300:]); return res
        for f in glob.glob(os.path.join(work, u.replace('.c', '') + '*.su')) + glob.glob(os.path.join(work, u + '.su')):
            for ln in open(f):
                p = ln.split('\t')
                if len(p) >= 2:
                    su[p[0].split(':')[-1]] = int(p[1])
    def lim(h, name):
        m = re.search(r'#define\s+%s\s+(\d+)' % name, open(os.path.join(vrun.SRC, h)).read()); return int(m.group(1))
    L_parse, L_pair, L_exp = lim('mmd.h', 'kMaxParseRecursiveDepth'), lim('token_pairs.h', 'kMaxPairRecursiveDepth'), lim('writer.h', 'kMaxExportRecursiveDepth')
    def fr(*names):
        tot = 0
        for n in names:
            c = [v for k, v in su.items() if k == n or k.startswith(n + '.')]
            if not c: return None
            tot += max(c)
        return tot
    cycles = {
        'parse': (L_parse, fr('mmd_parse_token_chain', 'Parse', 'recursive_parse_blockquote')),
        'pairs': (L_pair, fr('token_pairs_match_pairs_inside_token')),
    }
    for nm, unit, tree, tok in WALKERS:
        cycles['export_' + nm] = (L_exp, fr(tree, tok))
    missing = [k for k, (l, f) in cycles.items() if f is None]
    if missing:
        res['detail'] = 'no stack-usage entry for %s' % missing; return res
    worst_export = max(f for k, (l, f) in cycles.items() if k.startswith('export_'))
    # phases run one after the other: parse (+pairing inside blocks) then export; 64 bytes per frame for return address/saved registers slack
    smt = ['(set-logic QF_LIA)', '(declare-const total_parse Int)', '(declare-const total_export Int)',
           '(assert (= total_parse (+ (* %d (+ %d 64)) (* %d (+ %d 64)))))' % (cycles['parse'][0], cycles['parse'][1], cycles['pairs'][0], cycles['pairs'][1]),
           '(assert (= total_export (* %d (+ %d 64))))' % (L_exp, worst_export),
           '(assert (or (>= total_parse %d) (>= total_export %d)))' % (8 * 1024 * 1024 - 65536, 8 * 1024 * 1024 - 65536), '(check-sat)']
    f = os.path.join(work, 'budget.smt2'); open(f, 'w').write('\n'.join(smt) + '\n')
    z = vrun.run(['z3', f], timeout=60)
    res['queries'] = 1
    out = z['out'].strip()
    info = 'limits parse/pair/export=%d/%d/%d; frames: %s' % (L_parse, L_pair, L_exp, ', '.join('%s=%d' % (k, f) for k, (l, f) in sorted(cycles.items())))
    if '(error' in out: res['detail'] = 'z3 error ' + out[:200]
    elif out.startswith('unsat'):
        res['verdict'] = 'pass'; res['cover_total'] = res['cover_sat'] = 2; res['detail'] = 'fits 8 MiB: ' + info
    elif out.startswith('sat'):
        res['verdict'] = 'fail'; res['failed'] = [dict(property='stack_budget', description='depth limit x recursive frame size exceeds the 8 MiB default stack: nested input can overflow the stack before the guard triggers', loc=info)]
        res['detail'] = info
    else: res['detail'] = 'z3 inconclusive ' + out[:100]
    res['wall'] = time.time() - t0
    return res

def extra(tier):
    return [stack_budget(tier)]

CLAIM = dict(
    text="The stack half of the property: CBMC proves on the real code that each guarded recursion (block parser, pair matcher, the seven tree "
         "exporters) stops exactly at its limit, hands children down at depth+1 and restores its counter on every path, for ANY counter value; "
         "z3 decides that limit x frame size (gcc -fstack-usage of the current tree) fits the default stack; the LALR parser stack bound is C02's "
         "ranking check. The cost half (work proportional to k) is not claimed: it is not expressible as a bounded symbolic query.",
    note='trusted: CBMC, z3, gcc -fstack-usage frame sizes (+64 bytes slack per frame), 8 MiB stack; unguarded child-only walks argued in prose',
    technique='CBMC bounded model checking of the recursion guards for arbitrary depth-counter values + z3 arithmetic check of limit x frame size',
)
