META = dict(
    functions=['writer.c: process_metadata_stack, mmd_engine_export_token_tree, scratch_pad_new, scratch_pad_free, label_from_string, my_strdup', 'stack.c'],
    stubs=['c20_wrapper: start/end/body/list exporters and the pre-passes -> marker stubs; process_metadata_stack -> its decision rule (proved in c20_decision)', 'd_string.c -> ds_model (C19)', 'atoi/strcmp/strlen -> byte-loop models'],
    assumptions=['metadata stack of <= 2 entries with keys among the 10 control keys and 4 other keys, values of 2 arbitrary bytes; all 17 extension bits; all 13 formats'],
    outside=['that the body writers do not read EXT_COMPLETE or other metadata; YAML fences; CLI -f/-s; metadata variables'],
)

def harnesses(tier):
    n = 2
    hs = [dict(name='c20_decision', src='c20/decision.c', defs=dict(NMAX=n, DS_CAP=8),
               units=[dict(src='repo:writer.c', cflags=['-include', 'vh_libc.h']), 'repo:stack.c', 'repo:char.c', 'common/ds_model.c'],
               unwind=6, unwindset=['vh_strcmp.0:19', 'process_metadata_stack.0:4', 'main.0:4', 'main.1:4', 'main.2:4', 'run.0:4', 'run.1:4'], timeout=1500, mem_gb=10,
               functional=True,
               bounds='<= %d metadata entries x 14 keys x 2-byte values x 2^17 extension sets x 13 formats' % n,
               desc='process_metadata_stack: EXT_COMPLETE decision, frame condition, order independence')]
    rm = ['process_definition_stack', 'process_header_stack', 'process_table_stack', 'identify_global_search_terms', 'process_metadata_stack']
    hs.append(dict(name='c20_wrapper', src='c20/wrapper.c', defs=dict(DS_CAP=8),
                   units=[dict(src='repo:writer.c', remove=rm), 'repo:token.c', 'repo:stack.c', 'repo:object_pool.c', 'repo:char.c', 'common/ds_model.c'],
                   unwind=18, timeout=900, mem_gb=8, functional=True, replay=False,
                   bounds='html / html-with-assets / latex / beamer / memoir x all 2^17 extension sets x metadata forcing complete or not',
                   desc='mmd_engine_export_token_tree: output shape [H] B L* [F], H/F exactly when complete; body exporter sees the same extensions in both modes'))
    return hs

CLAIM = dict(
    text='CBMC runs the real process_metadata_stack on every metadata stack within the bound, every extension set and format, and proves that '
         'the complete/snippet decision is exactly "requested, or some key outside the rendering-control family is present and no snippet '
         'switch", independent of key order, and that nothing but the documented scratch fields changes; the wrapper placement is checked on '
         'the real export driver with the body writers stubbed.',
    note='trusted: CBMC; ds_model; <= 2 metadata entries; body writers not reading metadata is outside the claim',
    technique='CBMC bounded model checking of writer.c process_metadata_stack / export driver with symbolic metadata, extensions and format',
)
