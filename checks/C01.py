import os, sys
HERE = os.path.dirname(os.path.dirname(os.path.abspath(__file__)))
sys.path.insert(0, os.path.join(HERE, 'lib'))
import vrun, irb

META = dict(
    functions=['mmd.c: mmd_assign_ambidextrous_tokens_in_block, mmd_engine_reset', 'xml.c: xml_extract_named_attribute, xml_extract_attribute', 'writer.c: footnote_free, link_free, meta_free, read_table_column_alignments', 'token.c: token_free, token_tree_free (pool disabled)', 'scanners.c: all 29 scan_* functions (Engine B: clang -O1 IR -> flat C, translation validated against the real functions on tests/MMD6Tests every run)'],
    stubs=['byte arena MEM[] with an explicit valid window [buf, buf+len] (NUL included) for the IR-derived scanners'],
    assumptions=['input is a NUL-terminated buffer; every byte value allowed'],
    outside=['epub.c, zip.c/miniz.c, textbundle.c, packaging, uthash macro bodies, argtable3, file.c I/O', 'defects that need more than N bytes or K tokens to trigger', 'interaction between units beyond the span invariant of C15'],
)

def scanner_harnesses(tier):
    hs = []
    N = 4 if tier == 'quick' else 6
    for nm in irb.scanner_names():
        n = N
        if nm in ('scan_html_block', 'scan_html_line', 'scan_html', 'scan_ref_link_no_attributes', 'scan_attributes'):
            n = N - 1
        d = dict(FN='ir_' + nm, N=n, ARENA=40)
        if nm == 'scan_alignment_string':
            d['RESULT_IS_FLAGS'] = 1
        hs.append(dict(name='c01_' + nm, src='irb/scan1.c', defs=d, prepare=irb.prepare_scanner,
                       unwind_auto=[8 * n, 12 * n, 20 * n, 32 * n, 50 * n], timeout=900 if tier == 'quick' else 3000, mem_gb=4, replay_units=['repo:scanners.c'],
                       bounds='every NUL-terminated buffer of <= %d bytes (all byte values)' % n,
                       desc='%s (IR of the current scanners.c): reads only inside the buffer incl. NUL, result inside the buffer' % nm))
    return hs

def harnesses(tier):
    hs = scanner_harnesses(tier)
    AN = 4 if tier == 'quick' else 6
    hs.append(dict(name='c01_ambi', src='c01/ambi.c', defs=dict(N=AN), pool_off=True,
                   units=['repo:mmd.c', 'repo:token.c', 'repo:object_pool.c', 'repo:stack.c', 'repo:char.c'],
                   unwind=AN + 4, unwindset=['mmd_assign_ambidextrous_tokens_in_block:2'], timeout=1500, mem_gb=8, slice=True,
                   bounds='every source of 1..%d bytes, one delimiter token of 14 look-around kinds at every offset (incl. first and last byte), all extension sets' % AN,
                   desc='mmd_assign_ambidextrous_tokens_in_block: look-behind/look-ahead never leaves the source'))
    LXN = 2 if tier == 'quick' else 3
    hs.append(dict(name='c01_lexer', src='irb/lexer.c', defs=dict(N=LXN), prepare=irb.prepare_lexer,
                   unwind_auto=[10 * LXN, 16 * LXN, 25 * LXN, 40 * LXN], timeout=1500 if tier == 'quick' else 6000, mem_gb=10,
                   bounds='every NUL-terminated buffer of 1..%d bytes (all byte values), scan() called until end of input' % LXN,
                   desc='lexer scan() (IR of the current lexer.c): reads inside the buffer only, writes only its Scanner'))
    hs.append(dict(name='c01_table_align', src='c01/table.c', defs=dict(CMAX=52, DS_CAP=8), pool_off=True,
                   units=['repo:writer.c', 'repo:token.c', 'repo:stack.c', 'repo:object_pool.c', 'repo:char.c', 'common/ds_model.c'],
                   unwind=56, unwindset=['main.1:1200'], timeout=900, mem_gb=8, slice=True,
                   bounds='separator line with 0..52 cells (the array holds 48), any alignment answer',
                   desc='read_table_column_alignments: column count stays inside table_alignment[48], nothing behind the array is written'))
    XN = 5 if tier == 'quick' else 7
    hs.append(dict(name='c01_xml_attr', src='c01/xmlattr.c', defs=dict(N=XN),
                   units=[dict(src='repo:xml.c', remove=['xml_scan_wsnl', 'xml_scan_attribute_name', 'xml_scan_until_value', 'xml_scan_value'], cflags=['-include', 'vh_libc.h'])],
                   unwind=XN + 4, unwindset=['xml_extract_named_attribute.2:%d' % (XN + 2)], timeout=900, mem_gb=8, slice=True, replay=False,
                   bounds='source of %d arbitrary bytes, scanner answers arbitrary (inside the text), searched name "text"' % XN,
                   desc='xml_extract_named_attribute / xml_extract_attribute: heap copies never over-read or over-written, whatever the scanners report'))
    ALN = 4 if tier == 'quick' else 6
    hs.append(dict(name='c01_attr_lemma', src='irb/attrlemma.c', defs=dict(N=ALN, ARENA=40), prepare=irb.prepare_scanner,
                   unwind_auto=[12 * ALN, 20 * ALN, 32 * ALN, 50 * ALN], timeout=1500, mem_gb=8,
                   bounds='every NUL-terminated buffer of <= %d bytes' % ALN,
                   desc='scan_attr accepts => spnl/key/value pieces inside the string, key and value non-empty (contract used by c01_attrs)'))
    ATN = 6 if tier == 'quick' else 8
    hs.append(dict(name='c01_attrs', src='c01/attrs.c', defs=dict(N=ATN, DS_CAP=8),
                   units=['repo:writer.c', 'repo:token.c', 'repo:stack.c', 'repo:object_pool.c', 'repo:char.c', 'common/ds_model.c'],
                   unwind=ATN + 4, timeout=900, mem_gb=8, slice=True, replay=False,
                   bounds='every attribute string of <= %d bytes, up to 3 attributes, scanner answers arbitrary within the proved contract' % ATN,
                   desc='parse_attributes + attr_new: copies stay inside their buffers, value[len-1] never before the copy'))
    hs.append(dict(name='c01_reset_ownership', src='c05/reset.c', defs=dict(OWNERSHIP=1, DS_CAP=8), pool_off=True,
                   units=['repo:mmd.c', 'repo:writer.c', 'repo:token.c', 'repo:stack.c', 'repo:object_pool.c', 'repo:char.c', 'common/ds_model.c'],
                   unwind=12, unwindset=['token_free:5', 'token_tree_free:5'], timeout=900, mem_gb=8, slice=True,
                   bounds='engine with a 3-token tree, notes of all four kinds whose content is shared with the tree or owned, 0..2 further entries per stack',
                   desc='mmd_engine_reset with the pool disabled: every token and note freed exactly once (no double free, no use after free)'))
    FW = [('html', 'repo:html.c', 'mmd_export_token_html', ['mmd_export_token_tree_html', 'mmd_export_token_tree_html_raw', 'mmd_export_token_tree_html_math']),
          ('latex', 'repo:latex.c', 'mmd_export_token_latex', ['mmd_export_token_tree_latex', 'mmd_export_token_tree_latex_raw', 'mmd_export_token_tree_latex_math']),
          ('opendocument', 'repo:opendocument-content.c', 'mmd_export_token_opendocument', ['mmd_export_token_tree_opendocument', 'mmd_export_token_tree_opendocument_raw', 'mmd_export_token_tree_opendocument_math']),
          ('beamer', 'repo:beamer.c', 'mmd_export_token_beamer', ['mmd_export_token_tree_beamer', 'mmd_export_token_tree_latex_raw', 'mmd_export_token_tree_latex']),
          ('memoir', 'repo:memoir.c', 'mmd_export_token_memoir', ['mmd_export_token_tree_memoir', 'mmd_export_token_tree_latex_raw', 'mmd_export_token_tree_latex'])]
    for nm, unit, fn, trees in FW:
        hs.append(dict(name='c01_fence_' + nm, src='c01/fence.c', defs=dict(EXPORT=fn, TREE1=trees[0], TREE2=trees[1], TREE3=trees[2], DS_NO_C_ARRAY=1), pool_off=True,
                       units=[dict(src=unit, remove=[t for t in trees if not (nm in ('beamer', 'memoir') and 'latex' in t)]), 'repo:token.c', 'repo:stack.c', 'repo:object_pool.c', 'repo:char.c', 'common/ds_null.c'],
                       nobody_ok='*', unwind=8, object_bits=10, timeout=900, mem_gb=6, replay=False,
                       bounds='fenced block of 1..3 lines of arbitrary kinds (1..3 bytes each), info string absent / arbitrary 5 bytes / raw filter, filter matching or not',
                       desc='%s, case BLOCK_CODE_FENCED: no missing line dereferenced, raw copy inside the block' % fn))
    for nm, unit, fn, tree in (('latex', 'repo:latex.c', 'mmd_export_image_latex', 'mmd_export_token_tree_latex'), ('opendocument', 'repo:opendocument-content.c', 'mmd_export_image_opendocument', 'mmd_export_token_tree_opendocument')):
        for vl in ((1, 2, 3) if tier == 'quick' else (1, 2, 3, 4, 5)):
            hs.append(dict(name='c01_image_dims_%s_%d' % (nm, vl), src='c01/imgdims.c', defs=dict(EXPORT_IMAGE=fn, TREE1=tree, VL=vl), pool_off=True,
                           units=[dict(src=unit, cflags=['-include', 'vh_libc.h'], remove=[tree]), 'repo:token.c', 'repo:object_pool.c', 'repo:char.c', 'common/ds_null.c'],
                           nobody_ok='*', unwind=12, object_bits=10, timeout=600, mem_gb=6, replay=False,
                           bounds='width / height / other attribute whose value is any %d non-NUL bytes, figure or inline' % vl,
                           desc='%s + correct_dimension_units: the private copy of the attribute value is read and written only inside its block' % fn))
    hs.append(dict(name='c01_bundle_image_url', src='c01/bundleurl.c', defs=dict(PMAX=1200 if tier == 'quick' else 4000), pool_off=True,
                   units=['repo:textbundle.c', 'repo:token.c', 'repo:stack.c', 'repo:object_pool.c', 'repo:char.c'],
                   nobody_ok='*', unwind=6, unwindset=['main.0:10'], timeout=600, mem_gb=6, replay=False,
                   bounds='inline image whose (url) group spans 2..%d bytes, at block level or inside a block quote' % (1200 if tier == 'quick' else 4000),
                   desc='textbundle.c sub_asset_paths/traverse_for_images: the image url is copied without leaving the receiving buffer'))
    hs.append(dict(name='c01_source_copy', src='c19/newsize.c', unwind=8, timeout=600, mem_gb=6, functional=True, replay=False,
                   bounds='every source length 0..8190 (symbolic)',
                   desc='d_string_new (the private copy every string entry point makes of the caller\'s text): the buffer has room for the text and its terminator at every power-of-two length'))
    return hs

CLAIM = dict(
    text='Memory safety is decided by CBMC on the units the anchors name, with arbitrary input: every re2c scanner (via its LLVM IR) reads only inside '
         'the NUL-terminated buffer for ALL byte strings within the bound; the token primitives leave no freed object reachable (pool disabled); the '
         'string kernels, attribute/table/look-around code run under the built-in pointer, bounds, overflow and shift checks with exact-size buffers. '
         'No functional oracle is needed: the obligation is that no check fires.  The same holds for the fenced-code cases of all five writers on blocks of 1..3 '
         'arbitrary lines, the image-dimension helpers, the TextBundle image-url copy and the private source copy every entry point makes.',
    note='trusted: CBMC, clang IR + ir2c translation (validated natively each run against the real functions); bounds per harness (N<=3-6 bytes, K<=3-4 tokens); whole-pipeline runs are out of reach',
    technique='CBMC bounded model checking (built-in memory-safety checks) of real units and of IR-derived scanners on symbolic NUL-terminated buffers',
    engine='ir2c+cbmc',
)
