import os, sys
HERE = os.path.dirname(os.path.dirname(os.path.abspath(__file__)))
sys.path.insert(0, os.path.join(HERE, 'lib'))
import vrun, irb

META = dict(functions=[], stubs=[], assumptions=[], outside=[])

def scanner_harnesses(tier):
    hs = []
    N = 4 if tier == 'quick' else 6
    for nm in irb.scanner_names():
        n = N
        if nm in ('scan_html_block', 'scan_html_line', 'scan_html', 'scan_ref_link_no_attributes', 'scan_attributes'):
            n = N - 1
        d = dict(FN='ir_' + nm, N=n, ARENA=40)
        if nm == 'scan_alignment_string':
            d['RESULT_IS_FLAGS'] = 1
        hs.append(dict(name='c01_' + nm, src='irb/scan1.c', defs=d, prepare=irb.prepare_scanner,
                       unwind_auto=[8 * n, 12 * n, 20 * n, 32 * n, 50 * n], timeout=900 if tier == 'quick' else 3000, mem_gb=4, replay_units=['repo:scanners.c'],
                       bounds='every NUL-terminated buffer of <= %d bytes (all byte values)' % n,
                       desc='%s (IR of the current scanners.c): reads only inside the buffer incl. NUL, result inside the buffer' % nm))
    return hs

def harnesses(tier):
    return scanner_harnesses(tier)

CLAIM = dict(text='x', note='x')
