FMTS = ['html', 'html_br', 'latex', 'odf', 'odf_br', 'opml', 'itmz']
UNIT = {0: 'repo:html.c', 1: 'repo:html.c', 2: 'repo:latex.c', 3: 'repo:opendocument-content.c', 4: 'repo:opendocument-content.c', 5: 'repo:opml.c', 6: 'repo:itmz.c'}
MAXSEQ = {0: 6, 1: 6, 2: 17, 3: 19, 4: 19, 5: 6, 6: 6}

def escape(prefix, fmt, N, tier, u8=False):
    cap = MAXSEQ[fmt] * N + 4
    defs = dict(FMT=fmt, N=N, DS_CAP=cap)
    if u8:
        defs['U8'] = 1
    units = [UNIT[fmt], 'repo:char.c', 'common/ds_model.c']
    if fmt >= 5:
        units.append(dict(src='repo:xml.c', cflags=['-include', 'vh_libc.h']))
    return dict(name='%s_%s' % (prefix, FMTS[fmt]), src='esc/escape.c', defs=defs, units=units,
                unwind=max(cap, 22) + 3, timeout=900 if tier == 'quick' else 3000, mem_gb=8, functional=True,
                bounds='every byte string of <= %d bytes%s' % (N, ' that is valid UTF-8' if u8 else ''),
                desc='%s escaper: reserved characters only inside emitted escapes; unescape(escape(s)) == s%s%s' % (
                    FMTS[fmt], '; print_xml_as_text inverse' if fmt >= 5 else '', '; output valid UTF-8' if u8 else ''))
