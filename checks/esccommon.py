FMTS = ['html', 'html_br', 'latex', 'odf', 'odf_br', 'opml', 'itmz', 'html_obfuscated']
UNIT = {0: 'repo:html.c', 1: 'repo:html.c', 2: 'repo:latex.c', 3: 'repo:opendocument-content.c', 4: 'repo:opendocument-content.c', 5: 'repo:opml.c', 6: 'repo:itmz.c', 7: 'repo:html.c'}
MAXSEQ = {0: 6, 1: 6, 2: 17, 3: 19, 4: 19, 5: 6, 6: 6, 7: 6}

def obfchar(prefix):
    return dict(name=prefix + '_html_obfuscated_char', src='esc/obfchar.c', defs=dict(DS_CAP=12, DS_NO_PRINTF=1),
                units=['repo:html.c', 'repo:char.c', 'common/ds_model.c'], unwind=14, timeout=600, mem_gb=4, functional=True,
                bounds='every byte value x every generator draw (exhaustive over the function\'s inputs)',
                desc='mmd_print_char_html(obfuscate): 7-bit characters become a reference to exactly that character, other bytes pass through unchanged')

def escape(prefix, fmt, N, tier, u8=False):
    if fmt == 7:
        return obfchar(prefix)
    cap = MAXSEQ[fmt] * N + 4
    defs = dict(FMT=fmt, N=N, DS_CAP=cap)
    if u8:
        defs['U8'] = 1
    if fmt == 7:
        defs['DS_NO_PRINTF'] = 1
    units = [UNIT[fmt], 'repo:char.c', 'common/ds_model.c']
    if fmt >= 5:
        units.append(dict(src='repo:xml.c', cflags=['-include', 'vh_libc.h']))
    return dict(name='%s_%s' % (prefix, FMTS[fmt]), src='esc/escape.c', defs=defs, units=units,
                unwind=max(cap, 22) + 3, timeout=900 if tier == 'quick' else 3000, mem_gb=8 if tier == 'quick' else 20, functional=True,
                bounds='every byte string of <= %d bytes%s' % (N, ' that is valid UTF-8' if u8 else ''),
                desc='%s escaper: reserved characters only inside emitted escapes; unescape(escape(s)) == s%s%s' % (
                    FMTS[fmt], '; print_xml_as_text inverse' if fmt >= 5 else '', '; output valid UTF-8' if u8 else ''))
