import os, re, sys
sys.path.insert(0, os.path.join(os.path.dirname(os.path.dirname(os.path.abspath(__file__))), 'lib'))

import irb
OPS = ['prune_graft', 'tokens_prune', 'pop_link', 'split', 'append_child', 'new_parent', 'remove_child', 'chain_append', 'split_on_char']

META = dict(
    functions=['token.c: token_new, token_copy, token_new_parent, token_chain_append, token_append_child, token_remove_first_child, '
               'token_remove_last_child, token_remove_tail, fix_token_chain_tail, token_pop_link_from_chain, tokens_prune, token_prune_graft, '
               'token_split, token_free, token_tree_free (pool disabled: real malloc/free)', 'mmd.c: deindent_line, strip_quote_markers_from_line, prune_first_child_from_line'],
    stubs=[],
    assumptions=['pre-state: ANY sibling chain of <= K tokens (optionally with 2-token child chains and one mated pair) satisfying INV = '
                 '{doubly linked, head.prev==NULL, starts non-decreasing, spans inside parent/source, mates symmetric, head.tail==last}',
                 'tokens_prune / pop_link: operand is not the chain head (callers re-point the parent themselves) and pruned tokens are not mated to survivors',
                 'token_split: leaf token, requested span does not wrap (callers pass a match found inside the token)',
                 'append: the appended token lies after the existing children (callers append in source order)'],
    outside=['whole-document trees; `tail` of a grafted single child (token_prune_graft first==last leaves child->tail at the container: not part of the property statement)',
             'token_split_on_char (does not maintain prev links; only used on a detached copy in writer.c)'],
)

def gen_enum_list(spec, work, work_root):
    import vrun
    hdr = open(os.path.join(vrun.SRC, 'libMultiMarkdown.h')).read()
    m = re.search(r'enum token_types \{(.*?)\};', hdr, re.S)
    body = re.sub(r'//[^\n]*', '', m.group(1)); body = re.sub(r'/\*.*?\*/', '', body, flags=re.S)
    names = [x.split('=')[0].strip() for x in body.split(',') if x.strip()]
    pdefs = re.findall(r'^#define\s+(\w+)\s+\d+', open(os.path.join(vrun.SRC, 'parser.h')).read(), re.M)
    mmd = open(os.path.join(vrun.SRC, 'mmd.c')).read() + open(os.path.join(vrun.SRC, 'critic_markup.c')).read()
    pt = set()
    for mm in re.finditer(r'token_pair_engine_add_pairing\(([^;]*)\);', mmd):
        args = [a.strip() for a in mm.group(1).split(',')]
        for a in args[1:4]:
            if re.fullmatch(r'[A-Z][A-Z0-9_]*', a): pt.add(a)
    pt = sorted(pt)
    if len(names) < 100 or len(pdefs) < 30 or len(pt) < 10:
        raise vrun.Fail('enum extraction found too little: %d %d %d' % (len(names), len(pdefs), len(pt)))
    with open(os.path.join(work, 'enum_list.h'), 'w') as f:
        f.write('static const int ALL_TYPES[] = {%s};\n#define N_ALL_TYPES %d\n' % (', '.join(names), len(names)))
        f.write('static const int PARSER_DEFS[] = {%s};\n#define N_PARSER_DEFS %d\n' % (', '.join(pdefs), len(pdefs)))
        f.write('static const int PAIRING_TYPES[] = {%s};\n#define N_PAIRING_TYPES %d\n' % (', '.join(pt), len(pt)))
    spec['unwind'] = max(len(names), len(pdefs)) + 2
    spec['bounds'] = 'exhaustive over %d token kinds, %d parser codes, %d pairing types of the current headers' % (len(names), len(pdefs), len(pt))

def harnesses(tier):
    K = 3 if tier == 'quick' else 4
    hs = []
    for i, op in enumerate(OPS):
        hs.append(dict(name='c15_ops_' + op, src='c15/ops.c', defs=dict(OP=i, K=K), pool_off=True,
                       units=['repo:token.c', 'repo:char.c'], unwind=K + 6, unwindset=['token_free:4', 'token_tree_free:4'], timeout=600, mem_gb=4,
                       bounds='chain of <= %d tokens, spans <= 4 bytes, one level of children, one mated pair' % K,
                       desc='token.c %s from an arbitrary chain satisfying INV; INV re-established, no freed object reachable' % op))
    for op, nm in enumerate(['deindent_line', 'strip_quote_markers_from_line']):
        hs.append(dict(name='c15_line_' + nm, src='c15/lines.c', defs=dict(OP=op, K=3), pool_off=True,
                       units=['repo:mmd.c', 'repo:token.c', 'repo:object_pool.c', 'repo:stack.c', 'repo:char.c'],
                       unwind=15, unwindset=['token_free:4', 'token_tree_free:4'], timeout=900, mem_gb=6, slice=True,
                       bounds='line with 1..3 child tokens of 6 kinds, lengths 1..4, 12 arbitrary source bytes',
                       desc='mmd.c %s: children stay a well-formed chain inside the line, no freed token reachable' % nm))
    hs.append(dict(name='c15_enum', src='c15/enum.c', prepare=gen_enum_list, timeout=600, mem_gb=4,
                   desc='published enum ranges vs kMaxTokenTypes / parser.h / arithmetic runs'))
    LXN = 2 if tier == 'quick' else 3
    hs.append(dict(name='c15_lexer_spans', src='irb/lexer.c', defs=dict(N=LXN), prepare=irb.prepare_lexer,
                   unwind_auto=[10 * LXN, 16 * LXN, 25 * LXN, 40 * LXN], timeout=1500 if tier == 'quick' else 6000, mem_gb=10, functional=True,
                   bounds='every NUL-terminated buffer of 1..%d bytes (all byte values), scan() called until end of input' % LXN,
                   desc='lexer scan() (IR of the current lexer.c): tokens non-empty, contiguous, in order, inside [start, stop]'))
    # line kinds are enumerated by the driver (symbolic, the two-line shape has no verdict in 900 s): index into LK[] of harness/c15/striplines.c
    LKN = ['plain', 'continuation', 'empty', 'indented_tab', 'indented_space', 'atx_2', 'blockquote', 'list_bulleted', 'setext_1', 'setext_2', 'meta', 'table', 'definition']
    PAIRS = [(0, 0), (0, 2), (2, 0), (4, 0), (4, 4), (3, 2), (0, 8), (0, 9), (5, 0), (6, 6), (7, 4), (12, 0), (11, 0), (10, 1)] if tier == 'quick' else [(a, b) for a in range(13) for b in range(13)]
    for bt in ('BLOCK_PARA', 'BLOCK_BLOCKQUOTE', 'BLOCK_LIST_ITEM', 'BLOCK_CODE_INDENTED', 'BLOCK_CODE_FENCED', 'BLOCK_H2', 'BLOCK_SETEXT_1', 'BLOCK_HTML', 'BLOCK_DEFINITION'):
        for (a, b2) in PAIRS:
            if bt == 'BLOCK_CODE_INDENTED' and (a not in (3, 4) or b2 == 2):
                continue          # indented code starts with an indented line; its trailing empty lines are dropped on purpose (not this harness's subject)
            hs.append(dict(name='c15_strip_lines_%s_%s_%s' % (bt.lower()[6:], LKN[a], LKN[b2]), src='c15/striplines.c', defs=dict(BT=bt, LK0=a, LK1=b2), pool_off=True,
                           units=[dict(src='repo:mmd.c', remove=['strip_line_tokens_from_metadata', 'strip_line_tokens_from_deflist', 'strip_line_tokens_from_table']), dict(src='repo:token.c', remove=['token_free', 'token_tree_free']), 'repo:object_pool.c', 'repo:stack.c', 'repo:char.c'],
                           nobody_ok='*', unwind=10, unwindset=['strip_line_tokens_from_block:1'], timeout=600, mem_gb=4,
                           bounds='%s holding 1..2 lines of kinds %s, %s; each line a leading token of any kind (text, blank, indent) followed by a text or newline token' % (bt, LKN[a], LKN[b2]),
                           desc='strip_line_tokens_from_block on a %s: children form a well-formed chain, every text token of every line survives in order, no freed token reachable' % bt))
    SP = 3 if tier == 'quick' else 4
    hs.append(dict(name='c15_tokenize_lines', src='c15/toklines.c', defs=dict(SPAN=SP), pool_off=True,
                   units=[dict(src='repo:mmd.c', remove=['mmd_assign_line_type']), 'repo:token.c', 'repo:object_pool.c', 'repo:stack.c', 'repo:char.c'],
                   unwind=SP + 4, timeout=900 if tier == 'quick' else 3000, mem_gb=8, functional=True,
                   bounds='range of 0..%d bytes at offset 0..2; any lexer behaviour inside the contract of c15_lexer_spans (token kinds, lengths 1..%d, skipped bytes), any line kinds, all extension words, stop_on_empty_line on/off' % (SP, SP),
                   desc='mmd_tokenize_string over an abstract lexer/classifier: leaf tokens tile the requested range exactly, every line classified once and hung under the root, metadata gate set and closed as documented'))
    return hs

CLAIM = dict(
    text='Each tree-surgery primitive of token.c, run by CBMC from an arbitrary sibling chain that satisfies the structural invariant '
         '(doubly linked, source order, spans inside the parent, mates symmetric), re-establishes that invariant and leaves no freed token '
         'reachable, for all shapes/types/spans within the bound; an inductive step, so it covers surgery sequences of any length. The '
         'compile-time relations between the public token enums and the library tables are decided exhaustively.  Line stripping (all block kinds x '
         'line-kind pairs) and the tokeniser driver over an abstract lexer are proved to keep every token, in order, in a well-formed chain that tiles the source range.',
    note='trusted: CBMC; K<=3/4 tokens per chain, one nesting level; whole-document trees are outside the claim',
    technique='CBMC bounded model checking: one-step inductive invariant preservation for token.c primitives + exhaustive enum-relation assertions',
)
