import os, sys
HERE = os.path.dirname(os.path.dirname(os.path.abspath(__file__)))
sys.path.insert(0, os.path.join(HERE, 'lib')); sys.path.insert(0, HERE)
from checks import wcommon

META = dict(
    functions=['mmd.c: mmd_engine_update_metavalue_for_key, strip_line_tokens_from_metadata', 'writer.c: meta_new, meta_set_value', 'writer.c: clean_string (metadata value normalisation used by meta_set_value), label_from_string (key normalisation used by meta_new / lookups)'],
    stubs=['d_string.c -> ds_model (ideal bounded string; refinement is C19)', 'mmd_engine_has_metadata -> reports the layout (end offset, key start offsets) of the metadata block the harness built'],
    assumptions=['values without backslash in c11_value (backslash-newline joining is a separate documented rule)'],
    outside=['block recognition through the parser, continuation-line joining through real line tokens, CLI -m/-e, <meta> emission'],
)

def linetype(tier):
    # metadata line recognition: the classifier asks scan_meta_line about the START OF THE LINE (not about the first token after leading
    # space), and a line it recognises gets LINE_META; shares the C02 classifier harness, instantiated for the first-token kinds a key can start with
    from checks import C02
    LN = 4 if tier == 'quick' else 6
    out = []
    for k in ('TEXT_PLAIN', 'NON_INDENT_SPACE', 'TEXT_NUMBER_POSS_LIST', 'INDENT_TAB', 'INDENT_SPACE', 'TEXT_NL', 'TEXT_LINEBREAK'):
        d = dict(N=LN, T1=k)
        if k == 'TEXT_NUMBER_POSS_LIST' and tier == 'quick':
            d['ONE_TOKEN'] = 1
        out.append(dict(name='c11_linetype_' + k.lower(), src='c02/linetype.c', defs=d, prepare=C02.gen_terminals, pool_off=True,
                        units=['repo:mmd.c', 'repo:token.c', 'repo:object_pool.c', 'repo:stack.c', 'repo:char.c'],
                        unwind=LN + 6, unwindset=['main.0:45', 'main.1:45', 'main.2:45'], timeout=600, mem_gb=4, functional=True,
                        desc='mmd_assign_line_type (first token %s): line-level scanners incl. scan_meta_line are asked about the line start; the line gets a grammar kind' % k))
    return out

def harnesses(tier):
    N = 5 if tier == 'quick' else 7
    return [
        wcommon.strings('c11_value', 0, N, tier, 'metadata value read back = source value whitespace-normalised, no character lost or added (clean_string vs reference)'),
        wcommon.strings('c11_key', 2, N, tier, 'key normalisation: lower-case, spaces removed, idempotent (label_from_string)'),
    ] + [dict(name='c11_update_k%d_v%d%d' % (uk, v1, v2), src='c11/update.c', defs=dict(UK=uk, VL1=v1, VL2=v2, DS_CAP=24),
              units=[dict(src='repo:mmd.c', remove=['mmd_engine_has_metadata'], cflags=['-include', 'vh_libc.h']), dict(src='repo:writer.c', cflags=['-include', 'vh_libc.h']), 'repo:token.c', 'repo:stack.c', 'repo:object_pool.c', 'repo:char.c', 'common/ds_model.c'],
              unwind=26, timeout=900, mem_gb=6, functional=True, replay=False,
              bounds='two-key metadata block, value lengths %d/%d (driver-enumerated), value bytes, new value 0..2 bytes, separator space/tab symbolic; %s' % (v1, v2, ['update first key', 'update last key', 'add a new key'][uk]),
              desc='mmd_engine_update_metavalue_for_key: edited key reads the new value, other key and body unchanged')
         for uk in (0, 1, 2) for (v1, v2) in ((1, 1), (0, 1), (1, 0), (2, 2))] + linetype(tier) + [
        dict(name='c11_strip_value_' + tn, src='c11/stripvalue.c', defs=dict(TERM=t, VL=3 if tier == 'quick' else 4, DS_CAP=16),
             units=[dict(src='repo:mmd.c', cflags=['-include', 'vh_libc.h']), dict(src='repo:writer.c', cflags=['-include', 'vh_libc.h']), 'repo:token.c', 'repo:stack.c', 'repo:object_pool.c', 'repo:char.c', 'common/ds_model.c'],
             unwind=12, unwindset=['label_from_string.0:4', 'label_from_string.1:4'], timeout=900, mem_gb=6, functional=True, pool_off=True,
             bounds='value of %d arbitrary bytes (no line break, no backslash, already trimmed, single inner spaces); line followed by: %s' % (3 if tier == 'quick' else 4, tn.replace('_', ' ')),
             desc='strip_line_tokens_from_metadata + meta_set_value: stored value == source value, whatever follows the line')
        for t, tn in enumerate(['eof_without_newline', 'newline_then_eof', 'blank_line', 'next_key', 'crlf_then_eof', 'continuation_line'])] + [
        dict(name='c11_tokenize_meta_gate', src='c15/toklines.c', defs=dict(SPAN=2), pool_off=True,
             units=[dict(src='repo:mmd.c', remove=['mmd_assign_line_type']), 'repo:token.c', 'repo:object_pool.c', 'repo:stack.c', 'repo:char.c'],
             unwind=6, timeout=900, mem_gb=8, functional=True,
             bounds='range of 0..2 bytes at offset 0..2, any lexer behaviour inside the contract of c15_lexer_spans, any line kinds, all extension words',
             desc='mmd_tokenize_string: metadata is allowed iff neither compatibility mode nor no-metadata is set; the gate closes after a non-metadata first line')]

CLAIM = dict(
    text='CBMC compares the real value/key normalisation kernels of the metadata path with the documented reference on every string within '
         'the bound (all byte values, every position incl. end of input), and checks the offset arithmetic of the in-place update; the '
         'interesting inputs (an ampersand next to whitespace, a multi-byte character at the end) are found by the solver, not sampled.',
    note='trusted: CBMC; ds_model justified by C19; strings <= 5/7 bytes; block recognition by the LALR parser is outside',
    technique='CBMC differential check of writer.c metadata kernels (clean_string, label_from_string, update arithmetic) against a reference model',
)
