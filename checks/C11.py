import os, sys
HERE = os.path.dirname(os.path.dirname(os.path.abspath(__file__)))
sys.path.insert(0, os.path.join(HERE, 'lib')); sys.path.insert(0, HERE)
from checks import wcommon

META = dict(
    functions=['writer.c: clean_string (metadata value normalisation used by meta_set_value), label_from_string (key normalisation used by meta_new / lookups)'],
    stubs=['d_string.c -> ds_model (ideal bounded string; refinement is C19)'],
    assumptions=['values without backslash in c11_value (backslash-newline joining is a separate documented rule)'],
    outside=['block recognition through the parser, continuation-line joining through real line tokens, CLI -m/-e, <meta> emission'],
)

def harnesses(tier):
    N = 5 if tier == 'quick' else 7
    return [
        wcommon.strings('c11_value', 0, N, tier, 'metadata value read back = source value whitespace-normalised, no character lost or added (clean_string vs reference)'),
        wcommon.strings('c11_key', 2, N, tier, 'key normalisation: lower-case, spaces removed, idempotent (label_from_string)'),
    ]

CLAIM = dict(
    text='CBMC compares the real value/key normalisation kernels of the metadata path with the documented reference on every string within '
         'the bound (all byte values, every position incl. end of input), and checks the offset arithmetic of the in-place update; the '
         'interesting inputs (an ampersand next to whitespace, a multi-byte character at the end) are found by the solver, not sampled.',
    note='trusted: CBMC; ds_model justified by C19; strings <= 5/7 bytes; block recognition by the LALR parser is outside',
    technique='CBMC differential check of writer.c metadata kernels (clean_string, label_from_string, update arithmetic) against a reference model',
)
