import os, re, sys, time, glob
HERE = os.path.dirname(os.path.dirname(os.path.abspath(__file__)))
sys.path.insert(0, os.path.join(HERE, 'lib')); sys.path.insert(0, HERE)
import vrun
from checks import C02

META = dict(
    functions=['every unit of libMultiMarkdown compiled with -DDISABLE_OBJECT_POOL (inventory of objects with static storage duration from the LLVM IR)',
               'writer.c: scratch_pad_new, scratch_pad_free', 'html.c: mmd_export_token_html (all token kinds)', 'rng.c interface: ran_start, ran_num_next'],
    stubs=['rand/srand/ran_start/ran_num_next -> counting stubs', 'tree walkers and other callees of the writer switch -> abstract'],
    assumptions=['no scheduler is explored: what is decided is the premise that makes every interleaving equivalent to a serial run -- with the pool disabled the conversion '
                 'code writes no object with static storage duration; the inference from that premise to schedule-independence is the standard one and is stated, not mechanised',
                 'configurations with the random-anchor switches are excluded (a serial run is not reproducible there either)'],
    outside=['epub.c/uuid.c/miniz.c beyond the inventory of their globals (localtime() static buffer, rand() for uuids)', 'unsynchronised reads of state another thread writes are covered only through the absence of writers'],
)

ALLOWED_GLOBALS = {
    'ran_x': 'rng.c Knuth generator state (listed finding email_rng: written by e-mail autolink obfuscation)',
    'ran_arr_buf': 'rng.c', 'ran_arr_dummy': 'rng.c', 'ran_arr_started': 'rng.c', 'ran_arr_ptr': 'rng.c',
}

def harnesses(tier):
    hs = [dict(name='c17_prologue', src='c17/prologue.c', defs=dict(DS_CAP=8), pool_off=True,
               units=['repo:writer.c', 'repo:token.c', 'repo:stack.c', 'repo:object_pool.c', 'repo:char.c', 'common/ds_model.c'],
               unwind=6, timeout=900, mem_gb=8, functional=True,
               bounds='all 2^17 extension sets x 13 formats', desc='scratch_pad_new/scratch_pad_free: no Knuth-generator access; libc PRNG only under EXT_RANDOM_*')]
    for nm, unit, fn, trees in C02.WRITERS[:1]:
        d = dict(EXPORT=fn, TREE1=trees[0], TREE2=trees[1], TREE3=trees[2], DS_CAP=8, C17_RNG=1)
        hs.append(dict(name='c17_dispatch_' + nm, src='c02/dispatch.c', defs=d, prepare=C02.gen_dispatch, pool_off=True,
                       units=[dict(src=unit, cflags=['-Dexit=verif_exit', '-Dfprintf=verif_fprintf'], remove=trees), 'repo:token.c', 'repo:stack.c', 'repo:object_pool.c', 'repo:char.c', 'common/ds_null.c'],
                       nobody_ok='*', ignore_failed=['precondition_instance', 'no-body'], unwinding_assertions=False, object_bits=12, timeout=1500, mem_gb=8, functional=True, replay=False,
                       desc='%s: no token kind makes the writer touch the process-global generator (except the listed finding)' % fn))
    return hs

def inventory(tier):
    t0 = time.time()
    res = dict(name='c17_globals_inventory', verdict='error', wall=0, rss_kb=0, n_props=0, failed=[], cover_total=0, cover_sat=0, detail='',
               bounds='exhaustive over the global definitions of all library units (LLVM IR of the current tree at -O1, where globalopt has marked never-written internal objects constant; -DDISABLE_OBJECT_POOL)',
               desc='every object with static storage duration is constant, except the rng.c generator state')
    work = os.path.join(os.environ.get('VERIF_WORK_DIR', os.path.join(HERE, '.work')), 'C17_%s' % tier, 'inventory'); os.makedirs(work, exist_ok=True)
    inc = vrun.prepare_inc(work)
    bad = []; n_units = 0; n_glob = 0
    for f in sorted(os.listdir(vrun.SRC)):
        if not f.endswith('.c') or f in ('main.c', 'argtable3.c', 'char_lookup.c'):
            continue
        ll = os.path.join(work, f + '.ll')
        r = vrun.run(['clang-14', '-O1', '-S', '-emit-llvm', '-w', '-DNDEBUG', '-DDISABLE_OBJECT_POOL=1', '-I', vrun.SRC, '-I', inc, os.path.join(vrun.SRC, f), '-o', ll], timeout=300)
        if r['rc'] != 0:
            res['detail'] = 'clang failed on %s: %s' % (f, r['err'][-300:]); return res
        n_units += 1
        for ln in open(ll):
            m = re.match(r'^@([\w.]+) = (.*)$', ln)
            if not m or ' external ' in (' ' + m.group(2)) or m.group(2).startswith('external'):
                continue
            n_glob += 1
            if re.search(r'\bconstant\b', m.group(2)):
                continue
            name = m.group(1).split('.')[-1] if m.group(1).count('.') and not m.group(1).startswith('.') else m.group(1)
            if m.group(1) in ALLOWED_GLOBALS or name in ALLOWED_GLOBALS:
                continue
            bad.append('%s:@%s' % (f, m.group(1)))
    res['n_props'] = n_glob; res['queries'] = 0
    if bad:
        res['verdict'] = 'fail'
        res['failed'] = [dict(property='writable_global', description='object with static storage duration that is not constant: shared by all threads', loc=b) for b in bad[:20]]
        res['detail'] = 'writable globals: ' + ', '.join(bad[:20])
    else:
        res['verdict'] = 'pass'; res['cover_total'] = res['cover_sat'] = 2
        res['detail'] = '%d units, %d global definitions, all constant except rng.c generator state' % (n_units, n_glob)
    res['wall'] = time.time() - t0
    return res

def extra(tier):
    return [inventory(tier)]

CLAIM = dict(
    text='No interleaving is explored (CBMC cannot run two conversions as threads here). What is decided is the premise under which every schedule '
         'equals a serial one: with the pool disabled, (a) every object with static storage duration in the library is constant except the rng.c '
         'generator state (exhaustive inventory from the LLVM IR of the current tree), (b) CBMC proves the export prologue/epilogue never touch that '
         'generator and reach libc rand()/srand() only under the random-anchor switches, and (c) CBMC proves over ALL token kinds that the HTML writer '
         'switch reaches the generator only in the e-mail autolink case, which is the listed finding.',
    note='trusted: CBMC, clang IR global inventory; the step from "no shared writable state" to schedule independence is argued, not mechanised; epub/uuid rand() and localtime() outside',
    technique='CBMC bounded model checking of the no-shared-mutable-state premise (reachability of global-state functions over all token kinds) + exhaustive IR inventory of static storage',
)
