import os, sys
HERE = os.path.dirname(os.path.dirname(os.path.abspath(__file__)))
import sys as _sys; _sys.path.insert(0, os.path.join(HERE, 'lib'))
import irb
sys.path.insert(0, os.path.join(HERE, 'lib')); sys.path.insert(0, HERE)
from checks import wcommon, esccommon
import irb

META = dict(
    functions=['writer.c: label_from_string, clean_string (lowercase / url_clean / plain)', 'token.c: token_trim_leading_whitespace, token_trim_trailing_whitespace', 'char.c: smart_char_type table',
               'html.c/latex.c/opendocument-content.c/opml.c: character escapers (shared with C04/C08)', 'lexer.c: scan (Engine B) token boundaries'],
    stubs=['d_string.c -> ds_model (C19)'],
    assumptions=['input restricted to valid UTF-8 (standard DFA: shortest form, no surrogates, <= U+10FFFF) by an assumption over the symbolic bytes'],
    outside=['byte-wise case mapping inside whole writers, truncation by %.*s, whole outputs'],
)

def harnesses(tier):
    N = 5 if tier == 'quick' else 7
    hs = []
    for f1, nm in enumerate(['label_from_string', 'clean_string_lower', 'clean_string_url', 'clean_string_plain']):
        hs.append(wcommon.strings('c16_' + nm, 1, N, tier, 'valid UTF-8 in -> valid UTF-8 out: ' + nm, dict(F1=f1)))
    EN = 4 if tier == 'quick' else 5
    for fmt in (0, 2, 3, 5, 7):
        hs.append(esccommon.escape('c16_esc', fmt, (3 if tier == 'quick' else 4) if fmt in (2, 3) else EN, tier, u8=True))      # latex at 5 bytes: beyond 8 GB (measured)
    hs.append(dict(name='c16_char_table', src='c16/chartab.c', units=['repo:char.c'], unwind=4, timeout=300, mem_gb=4,
                   bounds='all 256 byte values (exhaustive)', desc='char.c smart_char_type: no byte >= 0x80 is classified as whitespace, line ending or punctuation by the byte-class predicates used for trimming'))
    hs.append(dict(name='c16_meta_value_at_eof', src='c11/stripvalue.c', defs=dict(TERM=0, VL=3, U8=1, DS_CAP=16),
                   units=[dict(src='repo:mmd.c', cflags=['-include', 'vh_libc.h']), dict(src='repo:writer.c', cflags=['-include', 'vh_libc.h']), 'repo:token.c', 'repo:stack.c', 'repo:object_pool.c', 'repo:char.c', 'common/ds_model.c'],
                   unwind=12, unwindset=['label_from_string.0:4', 'label_from_string.1:4'], timeout=900, mem_gb=6, functional=True, pool_off=True, replay=False,
                   bounds='metadata value of 3 bytes ending in a 2-byte UTF-8 character, at end of input without newline',
                   desc='the `len--` adjustment in strip_line_tokens_from_metadata never cuts a multi-byte character'))
    LXN = 2 if tier == 'quick' else 3
    hs.append(dict(name='c16_lexer_boundaries', src='irb/lexer.c', defs=dict(N=LXN, U8=1), prepare=irb.prepare_lexer,
                   unwind_auto=[10 * LXN, 16 * LXN, 25 * LXN, 40 * LXN], timeout=1500 if tier == 'quick' else 6000, mem_gb=10, functional=True,
                   bounds='every NUL-terminated buffer of 1..%d bytes that is valid UTF-8, scan() called until end of input' % LXN,
                   desc='lexer scan() (IR of the current lexer.c): no token boundary inside a multi-byte character'))
    return hs

CLAIM = dict(
    text='For every valid-UTF-8 byte string within the bound (the validity predicate is an assumption over symbolic bytes, so all code points '
         'whose encodings contain 0xA0, 0xC2/0xC3 leads, 3- and 4-byte forms are included at every position incl. end of input) CBMC proves the '
         'byte-level kernels that build labels, ids, metadata values, trimmed spans and escaped text return valid UTF-8.',
    note='trusted: CBMC, the UTF-8 DFA in the harness; strings <= 5/7 bytes; only the named kernels, not whole documents',
    technique='CBMC bounded model checking of byte-level kernels under a symbolic valid-UTF-8 precondition',
)
