META = dict(
    functions=['critic_markup.c: mmd_critic_tokenize_string, critic_parse_substring, accept_token, accept_token_tree, accept_token_tree_sub, reject_token, reject_token_tree, reject_token_tree_sub, mmd_critic_markup_accept/_reject(_range)',
               'token_pairs.c: token_pair_engine_new, token_pair_engine_add_pairing, token_pairs_match_pairs_inside_token, token_pair_mate', 'token.c (pool off), stack.c'],
    stubs=['aho-corasick.c -> reference leftmost-longest search over the patterns recorded from the real trie_insert calls (automaton construction does not finish symbolically)', 'd_string.c -> ds_model with erase (C19)'],
    assumptions=['edit scripts of ITEMS items over 12-13 item kinds (5 mark types, 3 nestings, stray closer/opener/divider, escaped brace), payloads of 0..1 bytes from {a,b,space,newline}/{a,c}',
                 'a stray opener is not followed by a real closer of its kind (it would legitimately pair)'],
    outside=['the Aho-Corasick automaton itself', 'writer-side accept/reject of inline pairs', 'CLI -a/-r == rendering of the accepted text'],
)

def harnesses(tier):
    I = 2 if tier == 'quick' else 3
    return [dict(name='c12_script', src='c12/script.c', defs=dict(ITEMS=I, DS_CAP=I * 13 + 4), pool_off=True,
                 units=['repo:critic_markup.c', 'repo:token_pairs.c', 'repo:token.c', 'repo:stack.c', 'repo:object_pool.c', 'repo:char.c', 'common/ds_model.c'],
                 unwind=I * 13 + 6, unwindset=['token_pairs_match_pairs_inside_token:4', 'token_pairs_match_pairs_inside_token.0:232', 'token_pairs_match_pairs_inside_token.1:232', 'token_free:6', 'token_tree_free:6', 'accept_token:4', 'reject_token:4', 'accept_token_tree:4', 'reject_token_tree:4', 'token_pair_engine_new.0:4'],
                 object_bits=11, timeout=2400, mem_gb=12, functional=True, native_exclude=['aho-corasick.c'],
                 bounds='every edit script of %d items (13 item kinds, payloads 0..1 byte), accept and reject' % I,
                 desc='mmd_critic_markup_accept/_reject == expected edited text, idempotent, strays untouched')]

CLAIM = dict(
    text='CBMC generates every well-formed CriticMarkup edit script within the bound symbolically (kinds, payload bytes, nestings, stray markers), '
         'serialises it, runs the real tokenise-glue / pairing / back-to-front erasure code and proves the result equals the expected accepted or '
         'rejected text byte for byte, and that a second application changes nothing.',
    note='trusted: CBMC; reference multi-pattern search in place of aho-corasick.c; ds_model; scripts of 2/3 items',
    technique='CBMC bounded model checking of critic_markup.c + token_pairs.c against an edit-script oracle generated symbolically',
)
