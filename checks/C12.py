META = dict(
    functions=['critic_markup.c: mmd_critic_tokenize_string, critic_parse_substring, accept_token, accept_token_tree, accept_token_tree_sub, reject_token, reject_token_tree, reject_token_tree_sub, mmd_critic_markup_accept/_reject(_range)',
               'token_pairs.c: token_pair_engine_new, token_pair_engine_add_pairing, token_pairs_match_pairs_inside_token, token_pair_mate', 'token.c (pool off), stack.c'],
    stubs=['mmd_critic_tokenize_string -> the token chain the script dictates (marker tokens + plain payload tokens); the tokeniser glue has its own harness', 'token_pair_engine_new -> zero-initialised static engine (same tables; the real one memcpy-zeroes them, which defeats constant folding)', 'MMD6_VERIF_MAX_TOKEN_TYPES=20 (hook): CriticMarkup uses token types 1..17', 'MMD6_VERIF_LARGE_STACK_THRESHOLD=0 (hook) in the *_shortcut harnesses: the large-stack short-circuit (1000 pending openers in the real build) is taken with one pending opener', 'd_string.c -> ds_model with erase (C19)'],
    assumptions=['edit scripts: every ordered pair (thorough: selected triples) of 13 item kinds (5 mark types, 3 nestings, stray closer/opener/divider, escaped brace); kinds and payload lengths are enumerated by the driver (one solver query each), payload bytes and accept/reject are symbolic',
                 'a stray opener is not followed by a real closer of its kind (it would legitimately pair)'],
    outside=['the Aho-Corasick automaton itself', 'writer-side accept/reject of inline pairs', 'CLI -a/-r == rendering of the accepted text'],
)

KINDS = ['plain', 'add', 'del', 'sub', 'com', 'hi', 'add_del', 'del_add', 'hi_add', 'stray_close', 'stray_open', 'esc_brace', 'stray_div',
         'stray_sub_close', 'stray_sub_open', 'stray_add_open', 'stray_del_close', 'stray_hi_close', 'stray_com_open']
# a stray opener followed by a real closer of its kind legitimately pairs up (it is then not a stray): such ordered pairs are skipped
OPENER_PAIRS_WITH = {10: (2, 6, 7, 16), 14: (3, 13), 15: (1, 6, 7, 8, 9), 18: (4,)}

def one(tier, ks, empty=0, plen=1, thr=None):
    I = len(ks)
    d = dict(ITEMS=I, K0=ks[0], K1=ks[1], EMPTY=empty, PLEN=plen, DS_CAP=I * 17 + 4, MMD6_VERIF_MAX_TOKEN_TYPES=20)
    if I > 2: d['K2'] = ks[2]
    if thr is not None: d['MMD6_VERIF_LARGE_STACK_THRESHOLD'] = thr
    nm = 'c12_' + '_'.join(KINDS[k] for k in ks) + ('_empty' if empty else '') + ('_len2' if plen == 2 else '') + ('_shortcut' if thr is not None else '')
    return dict(name=nm, src='c12/script.c', defs=d, pool_off=True,
                units=[dict(src='repo:critic_markup.c', remove=['mmd_critic_tokenize_string']), dict(src='repo:token_pairs.c', remove=['token_pair_engine_new', 'token_pair_engine_free']),
                       'repo:token.c', 'repo:stack.c', 'repo:object_pool.c', 'repo:char.c', 'common/ds_model.c'],
                unwind=I * 17 + 8, unwindset=['token_pairs_match_pairs_inside_token:4', 'token_free:6', 'token_tree_free:6', 'accept_token:4', 'reject_token:4', 'accept_token_tree:4', 'reject_token_tree:4'],
                object_bits=11, timeout=900, mem_gb=4, functional=True, replay=False,
                bounds='script %s, payload bytes arbitrary (length %d), accept and reject' % (' + '.join(KINDS[k] for k in ks), 0 if empty else plen),
                desc='accept/reject of the script == expected edited text byte for byte; strays untouched')

def harnesses(tier):
    hs = []
    TN = 4 if tier == 'quick' else 6
    hs.append(dict(name='c12_tokenize', src='c12/tokenize.c', defs=dict(N=TN), pool_off=True,
                   units=['repo:critic_markup.c', 'repo:token.c', 'repo:object_pool.c', 'repo:stack.c', 'repo:char.c'],
                   unwind=TN + 4, unwindset=['ac_trie_leftmost_longest_search.1:26', 'token_free:6', 'token_tree_free:6'], timeout=900, mem_gb=6, functional=True, replay=False,
                   bounds='every text of %d characters over the 10-letter marker alphabet, every sub-range (start, len)' % TN,
                   desc='mmd_critic_tokenize_string: search covers exactly the requested range; tokens contiguous from start'))
    NK = len(KINDS)
    for a in range(NK):
        for b in range(NK):
            if b in OPENER_PAIRS_WITH.get(a, ()):
                continue
            if a >= 9 and b >= 9 and a == b:
                continue
            hs.append(one(tier, (a, b)))
    # the large-stack short-circuit of the pair matcher (kLargeStackThreshold, 1000 pending openers in the real build) made reachable with the
    # hook MMD6_VERIF_LARGE_STACK_THRESHOLD=0: it must not change any result
    for a in (1, 3, 6, 7, 8, 10, 15):
        for b in (1, 2, 3, 6, 9, 16):
            if b in OPENER_PAIRS_WITH.get(a, ()):
                continue
            hs.append(one(tier, (a, b), thr=0))
    for a in range(1, 9):
        for b in (0, 1, 3):
            hs.append(one(tier, (a, b), empty=15))
    if tier == 'thorough':
        for a in range(9):
            for b in range(9):
                for c in (0, 1, 2, 3, 6):
                    hs.append(one(tier, (a, b, c)))
        for a in range(1, 9):
            for b in range(9):
                hs.append(one(tier, (a, b), plen=2))
    return hs

CLAIM = dict(
    text='For every CriticMarkup edit script within the bound (item kinds and payload lengths enumerated by the driver, payload bytes and the '
         'accept/reject choice symbolic) CBMC serialises it, runs the real tokenise-glue / pairing / back-to-front erasure code and proves the result equals the expected accepted or '
         'rejected text byte for byte, and that a second application changes nothing.',
    note='trusted: CBMC; script-dictated token chain in place of the Aho-Corasick tokeniser; ds_model; scripts of 2/3 items; payload lengths enumerated, bytes symbolic',
    technique='CBMC bounded model checking of critic_markup.c + token_pairs.c against an edit-script oracle generated symbolically',
)
