import os, sys
HERE = os.path.dirname(os.path.dirname(os.path.abspath(__file__)))
sys.path.insert(0, os.path.join(HERE, 'lib')); sys.path.insert(0, HERE)
from checks import esccommon

META = dict(
    functions=['opml.c: mmd_print_source_opml', 'itmz.c: mmd_print_source_itmz', 'opendocument-content.c: mmd_print_string_opendocument, mmd_export_link_opendocument, mmd_export_image_opendocument',
               'html.c: mmd_print_string_html (EPUB OPF/nav text, XHTML body), mmd_export_link_html, mmd_export_image_html'],
    stubs=['d_string.c -> ds_model with a small %s/%d formatter', 'tree exporters for link text -> empty'],
    assumptions=['text without control characters (the property excludes them)'],
    outside=['well-formedness of complete documents (element balance is decided per block-level case, not across cases)', 'ODT/EPUB package members other than the OPF and navigation documents', 'verbatim (raw/math) exporters beyond the literal-token check'],
)

def gen_lit_table(spec, work, work_root):
    """(text, kind) for every lexer rule whose pattern is a plain string literal -- from the current lexer.re"""
    import re, vrun
    txt = open(os.path.join(vrun.SRC, 'lexer.re')).read()
    rows = []
    for m in re.finditer(r'^\s*(["\'])((?:\\.|[^"\'\\])+)\1\s*\{ return ([A-Z_0-9]+); \}', txt, re.M):
        lit, kind = m.group(2), m.group(3)
        rows.append((lit, kind))
    if len(rows) < 60:
        raise vrun.Fail('literal-rule extraction found only %d rules' % len(rows))
    mx = 0
    with open(os.path.join(work, 'lit_table.h'), 'w') as f:
        f.write('static const char *const LIT_TXT[] = {%s};\n' % ', '.join('"%s"' % l for l, k in rows))
        f.write('static const int LIT_KIND[] = {%s};\n#define N_LIT %d\n#define LIT_MAX 8\n' % (', '.join(k for l, k in rows), len(rows)))
    spec['bounds'] = 'all %d literal lexer rules of the current lexer.re (exhaustive), followed by any byte' % len(rows)

def harnesses(tier):
    hs = []
    N = 4 if tier == 'quick' else 6
    for fmt in (0, 3, 5, 6):
        hs.append(esccommon.escape('c08_text', fmt, (3 if fmt == 3 else N) if tier == 'quick' else (4 if fmt == 3 else (5 if fmt in (5, 6) else N)), tier))      # opml/itmz at 6 bytes: no verdict in 3000 s (measured)
    hs.append(esccommon.obfchar('c08_text'))
    units = {0: 'repo:opendocument-content.c', 1: 'repo:opendocument-content.c', 2: 'repo:html.c', 3: 'repo:html.c'}
    rm = {0: ['mmd_export_token_tree_opendocument'], 1: ['mmd_export_token_tree_opendocument'], 2: ['mmd_export_token_tree_html'], 3: ['mmd_export_token_tree_html']}
    names = ['link_opendocument', 'image_opendocument', 'link_html', 'image_html']
    AN = 3 if tier == 'quick' else 4
    for op in range(4):
        hs.append(dict(name='c08_attr_' + names[op], src='c08/attr.c', defs=dict(OP=op, N=AN),
                       units=[dict(src=units[op], remove=rm[op]), 'repo:char.c'],
                       unwind=260, timeout=1500, mem_gb=8, replay=False,
                       bounds='url 1..%d bytes, title 0..%d bytes, all byte values >= 0x20' % (AN, AN),
                       desc='%s: url/title cannot break out of the attribute or element' % names[op]))
    NOTE = [('opendocument', 'repo:opendocument-content.c', 'mmd_export_token_opendocument', ['mmd_export_token_tree_opendocument', 'mmd_export_token_tree_opendocument_raw', 'mmd_export_token_tree_opendocument_math']),
            ('html', 'repo:html.c', 'mmd_export_token_html', ['mmd_export_token_tree_html', 'mmd_export_token_tree_html_raw', 'mmd_export_token_tree_html_math'])]
    for wn, unit, fn, trees in NOTE:
        esc = dict(ESCAPER='mmd_print_string_html') if wn == 'html' else dict(ESCAPER='verif_unused_escaper', ESCAPER3='mmd_print_string_opendocument')
        escrm = ['mmd_print_string_html'] if wn == 'html' else ['mmd_print_string_opendocument']
        for kind in ('PAIR_BRACKET_ABBREVIATION', 'PAIR_BRACKET_GLOSSARY'):
            hs.append(dict(name='c08_note_%s_%s' % (wn, kind.split('_')[-1].lower()), src='c08/note.c',
                           defs=dict(EXPORT=fn, TREE1=trees[0], TREE2=trees[1], TREE3=trees[2], NOTEKIND=kind, **esc), pool_off=True,
                           units=[dict(src=unit, cflags=['-Dexit=verif_exit', '-Dfprintf=verif_fprintf'], remove=trees + escrm), 'repo:token.c', 'repo:stack.c', 'repo:object_pool.c', 'repo:char.c'],
                           unwind=12, unwindset=['mmd_export_token_%s:2' % wn, 'd_string_append_printf.0:120', 'strlen.0:40'], object_bits=11, timeout=900, mem_gb=6, functional=True, replay=False,
                           bounds='first use / re-use x reference / inline definition; the note strings are tracked by identity (any content)',
                           desc='%s %s: abbreviation/glossary text is escaped on every path (first use, re-use, inline, reference)' % (fn, kind)))
    RAW = [('opendocument_raw', 'repo:opendocument-content.c', 'mmd_export_token_opendocument_raw', ['mmd_export_token_tree_opendocument', 'mmd_export_token_tree_opendocument_raw', 'mmd_export_token_tree_opendocument_math']),
           ('opendocument_math', 'repo:opendocument-content.c', 'mmd_export_token_opendocument_math', ['mmd_export_token_tree_opendocument', 'mmd_export_token_tree_opendocument_raw', 'mmd_export_token_tree_opendocument_math']),
           ('html_raw', 'repo:html.c', 'mmd_export_token_html_raw', ['mmd_export_token_tree_html', 'mmd_export_token_tree_html_raw', 'mmd_export_token_tree_html_math']),
           ('html_math', 'repo:html.c', 'mmd_export_token_html_math', ['mmd_export_token_tree_html', 'mmd_export_token_tree_html_raw', 'mmd_export_token_tree_html_math'])]
    for nm, unit, fn, trees in RAW:
        hs.append(dict(name='c08_' + nm, src='c08/raw.c', defs=dict(EXPORT=fn, TREE1=trees[0], TREE2=trees[1], TREE3=trees[2]), prepare=gen_lit_table, pool_off=True,
                       units=[dict(src=unit, cflags=['-Dexit=verif_exit', '-Dfprintf=verif_fprintf'], remove=trees), 'repo:token.c', 'repo:stack.c', 'repo:object_pool.c', 'repo:char.c'],
                       unwind=14, object_bits=11, timeout=900, mem_gb=6, functional=True, replay=False, nobody_ok=['verif_exit', 'verif_fprintf'],
                       desc='%s: delimiter tokens with literal text are escaped in verbatim context (no raw <, no bare &)' % fn))
    # element balance of the block-level cases of the two XML-producing writers (the harnesses of C04's nesting half; EPUB's main.xhtml is the HTML writer's output)
    from checks import C04
    for h in C04.nesting(tier):
        if h['name'].startswith('c04_nesting_html_') or h['name'].startswith('c04_nesting_opendocument_'):
            h = dict(h); h['name'] = 'c08' + h['name'][3:]
            hs.append(h)
    hs.append(dict(name='c08_odf_link_image_shape', src='c08/odfobj.c', pool_off=True,
                   units=[dict(src='repo:opendocument-content.c', remove=['mmd_export_token_tree_opendocument', 'mmd_print_string_opendocument'], cflags=['-include', 'vh_libc.h']), 'repo:token.c', 'repo:object_pool.c', 'repo:char.c', 'common/ds_sink.c'],
                   nobody_ok='*', ignore_failed=['no-body'], unwind=12, unwindset=['d_string_append.0:230', 'd_string_append_c_array.0:230', 'd_string_append_printf.0:80', 'd_string_append_printf.2:40'], timeout=600, mem_gb=6, functional=True, replay=False,
                   bounds='link / image x destination present or absent x title x width/height attributes (hostile values) x figure/inline x stored asset or not',
                   desc='mmd_export_link_opendocument / mmd_export_image_opendocument: balanced XML for every link record shape; attribute values only through the escaper'))
    for op, nm in enumerate(['link_attributes', 'image_alt_and_attributes', 'fence_info_string', 'citation_locator']):
        hs.append(dict(name='c08_html_raw_' + nm, src='c08/htmltaint.c', defs=dict(OP=op, DS_SINK_PTR=1, DS_SINK_TARGET=1), pool_off=True,
                       units=[dict(src='repo:html.c', cflags=['-include', 'vh_libc.h', '-Dfree=verif_free'], remove=['mmd_print_string_html', 'mmd_print_char_html', 'mmd_export_token_tree_html', 'mmd_export_token_tree_html_raw']),
                              dict(src='repo:writer.c', cflags=['-include', 'vh_libc.h'], remove=['label_from_token', 'get_fence_language_specifier', 'raw_filter_text_matches', 'text_inside_pair', 'label_from_string', 'citation_from_bracket', 'pad', 'store_asset']),
                              'repo:token.c', 'repo:stack.c', 'repo:object_pool.c', 'repo:char.c', 'common/ds_sink.c'],
                       nobody_ok='*', ignore_failed=['no-body'], unwind=12, unwindset=['d_string_append.0:230', 'd_string_append_c_array.0:230', 'd_string_append_printf.0:120', 'd_string_append_printf.1:40', 'd_string_append_printf.2:300', 'vh_strlen.0:60', 'vh_strcmp.0:60'], timeout=600, mem_gb=6, functional=True, replay=False,
                       bounds='one %s; strings of 3 arbitrary bytes tracked by identity; all extension words' % nm.replace('_', ' '),
                       desc='html.c: %s reach(es) the output only through the escaper' % nm.replace('_', ' ')))
    hs.append(dict(name='c08_html_head', src='c08/htmlhead.c', defs=dict(DS_SINK_PTR=1), pool_off=True,
                   units=[dict(src='repo:html.c', cflags=['-include', 'verif_uthash.h', '-include', 'vh_libc.h'], remove=['mmd_print_string_html']), 'common/ds_sink.c'],
                   nobody_ok='*', ignore_failed=['no-body'], unwind=20, unwindset=['d_string_append.0:230', 'd_string_append_c_array.0:230', 'd_string_append_printf.0:120'], timeout=600, mem_gb=4, functional=True, replay=False,
                   bounds='one metadata entry: key among language/title/css/author/htmlheader/xhtmlheader/quoteslanguage/other, value arbitrary (tracked by identity); all extension words and languages',
                   desc='html.c mmd_start_complete_html (also the head of EPUB main.xhtml): metadata keys and values reach the head only through the escaper (htmlheader/xhtmlheader are raw by design)'))
    hs.append(dict(name='c08_epub_members', src='c08/epubmeta.c', defs=dict(DS_SINK_PTR=1), pool_off=True,
                   units=[dict(src='repo:epub.c', cflags=['-include', 'verif_uthash.h'], remove=['epub_export_nav']), 'common/ds_sink.c'],
                   nobody_ok='*', ignore_failed=['no-body'], unwind=120, timeout=600, mem_gb=4, functional=True, replay=False,
                   bounds='package document and navigation document; each of uuid/title/author/language/date present or absent with an arbitrary value (tracked by identity); all languages',
                   desc='epub.c epub_package_document / epub_nav: metadata values reach the member only through the escaper; the member is balanced XML'))
    hs.append(dict(name='c08_raw_gate', src='c08/rawfilter.c', defs=dict(PL=7 if tier == 'quick' else 9),
                   units=[dict(src='repo:writer.c', cflags=['-include', 'vh_libc.h'])],
                   unwind=12, timeout=900, mem_gb=6, functional=True,
                   bounds='filter text 0..%d arbitrary non-NUL bytes x all 13 output formats' % (7 if tier == 'quick' else 9),
                   desc='raw_filter_text_matches: the gate that lets raw source through unescaped opens iff the filter is a wildcard or names the writer\'s own format family'))
    return hs

CLAIM = dict(
    text='CBMC proves for every control-free string within the bound that the escape helpers used for text put no raw < & " into the output, '
         'and that the real link/image exporters keep arbitrary URLs and titles inside their attribute (same number of quotes and < as for a '
         'harmless value, every & a reference): the "cannot break out" half of well-formedness, for all strings.  Strings from the document that the '
         'HTML writer (= EPUB main.xhtml), the OpenDocument link/image exporters and the EPUB package/navigation documents place into attributes or '
         'element content are tracked by identity and proved to reach the output only through those escapers; the block-level cases of both writers '
         'and the EPUB members are proved balanced by a streaming recogniser; the raw-source gate opens only for the writer\'s own format family.',
    note='trusted: CBMC; ds_model formatter; strings <= 2-6 bytes; whole-document element balance is outside',
    technique='CBMC bounded model checking of XML escape helpers and attribute-building exporters with a differential (harmless-value) oracle; taint-by-identity and balanced-markup recognisers over the real writer cases',
)
