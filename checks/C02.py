import os, re, sys, time, subprocess
HERE = os.path.dirname(os.path.dirname(os.path.abspath(__file__)))
sys.path.insert(0, os.path.join(HERE, 'lib'))
import vrun

META = dict(
    functions=['parser.c: yy_find_shift_action, yy_find_reduce_action tables (yy_action, yy_lookahead, yy_shift_ofst, yy_reduce_ofst, yy_default, yyFallback)',
               'mmd.c: mmd_assign_line_type (line kind totality), strip_line_tokens_from_block', 'html.c/latex.c/opendocument-content.c: mmd_export_token_* dispatch'],
    stubs=[], assumptions=[], outside=[],
)

def emitted_line_kinds():
    """line kinds the classifier can put on a line: every LINE_* on the right-hand side of a `type = ...;` statement in mmd.c"""
    txt = open(os.path.join(vrun.SRC, 'mmd.c')).read()
    kinds = set()
    for m in re.finditer(r'->type\s*=\s*([^;]+);', txt):
        for k in re.findall(r'\bLINE_[A-Z0-9_]+\b', m.group(1)):
            kinds.add(k)
    if 'LINE_ATX_1' in kinds:
        kinds.update('LINE_ATX_%d' % i for i in range(1, 7))
    kinds.add('LINE_PLAIN')
    return sorted(kinds)

def gen_terminals(spec, work, work_root):
    kinds = emitted_line_kinds()
    pdefs = re.findall(r'^#define\s+(\w+)\s+(\d+)', open(os.path.join(vrun.SRC, 'parser.h')).read(), re.M)
    names = {n for n, _ in pdefs}
    kinds = [k for k in kinds if k in names]
    if len(kinds) < 25:
        raise vrun.Fail('terminal extraction found only %d kinds' % len(kinds))
    with open(os.path.join(work, 'terminals.h'), 'w') as f:
        f.write('static const int TERMS[] = {%s};\n#define N_TERMS %d\n#define YYNTOKEN_V %d\n' % (', '.join(kinds), len(kinds), max(int(v) for _, v in pdefs) + 1))
    spec['bounds'] = 'all %d parser states x %d emitted line kinds (+ end of input): exhaustive over the compiled tables; never-emitted kinds: %s' % (
        47, len(kinds), sorted(names - set(kinds)))

def harnesses(tier):
    hs = [dict(name='c02_automaton_total', src='c02/automaton.c', prepare=gen_terminals, unwind=12, timeout=300, mem_gb=4,
               desc='yy_find_shift_action never returns YY_ERROR_ACTION for any state x emitted line kind; goto lookups in range')]
    return hs

def stack_ranking(tier):
    """Engine C: ranking function over the shift/goto graph of the compiled tables, decided by z3"""
    t0 = time.time()
    res = dict(name='c02_stack_ranking', verdict='error', wall=0, rss_kb=0, n_props=0, failed=[], cover_total=0, cover_sat=0, detail='',
               bounds='unbounded in input length; stack budget YYSTACKDEPTH', desc='z3: a ranking strictly increasing along every push edge exists and stays below the parser stack depth')
    work = os.path.join(HERE, '.work', 'C02_%s' % tier, 'ranking')
    os.makedirs(work, exist_ok=True)
    inc = vrun.prepare_inc(work)
    pdefs = re.findall(r'^#define\s+(\w+)\s+(\d+)', open(os.path.join(vrun.SRC, 'parser.h')).read(), re.M)
    nterm = max(int(v) for _, v in pdefs) + 1
    exe = os.path.join(work, 'edges')
    r = vrun.run(['gcc', '-w', '-O0', '-DNDEBUG', '-DNTERM=%d' % nterm, '-I', vrun.SRC, '-I', inc, os.path.join(HERE, 'harness', 'c02', 'edges.c'), os.path.join(HERE, 'harness', 'c02', 'edges_stubs.c'), os.path.join(vrun.SRC, 'token.c'), os.path.join(vrun.SRC, 'object_pool.c'), os.path.join(vrun.SRC, 'stack.c'), os.path.join(vrun.SRC, 'char.c'), '-o', exe], timeout=120)
    if r['rc'] != 0:
        res['detail'] = 'edge extractor build failed: ' + r['err'][-500:]; return res
    r = vrun.run([exe], timeout=60)
    edges = []; nstate = depth = None
    for ln in r['out'].splitlines():
        p = ln.split()
        if p[0] == 'N': nstate, depth = int(p[1]), int(p[2])
        elif p[0] == 'E': edges.append((int(p[1]), int(p[3])))
    edges = sorted(set(edges))
    if not nstate or len(edges) < 20:
        res['detail'] = 'edge extraction implausible'; return res
    # SMT: r_s in [0, depth-2]; r_to > r_from on every push edge.  (shift-reduce pushes one transient entry: +1 head-room)
    smt = ['(set-logic QF_LIA)'] + ['(declare-const r%d Int)' % s for s in range(nstate)]
    smt += ['(assert (and (>= r%d 0) (<= r%d %d)))' % (s, s, depth - 3) for s in range(nstate)]
    smt += ['(assert (> r%d r%d))' % (b, a) for a, b in edges]
    smt += ['(check-sat)', '(get-model)']
    f = os.path.join(work, 'rank.smt2'); open(f, 'w').write('\n'.join(smt) + '\n')
    z = vrun.run(['z3', f], timeout=120)
    res['queries'] = 1; res['n_props'] = len(edges)
    out = z['out']
    if '(error' in out:
        res['detail'] = 'z3 error: ' + out[:300]; return res
    if out.startswith('sat'):
        ranks = [int(x) for x in re.findall(r'\(define-fun r\d+ \(\) Int\s+(\d+)\)', out)]
        res['verdict'] = 'pass'; res['cover_total'] = res['cover_sat'] = 2
        res['detail'] = '%d states, %d push edges, ranking found, max rank %d < stack depth %d' % (nstate, len(edges), max(ranks or [0]), depth)
    elif out.startswith('unsat'):
        res['verdict'] = 'fail'
        res['failed'] = [dict(property='stack_ranking', description='the shift/goto graph has a cycle or a path longer than the parser stack: nested input can overflow the stack and drop the document', loc='parser.c tables')]
        res['detail'] = 'no ranking below the stack depth exists'
    else:
        res['detail'] = 'z3 inconclusive: ' + out[:200]
    res['wall'] = time.time() - t0
    return res

def extra(tier):
    return [stack_ranking(tier)]

CLAIM = dict(
    text='(1) CBMC on the compiled parser tables: no (state, emitted line kind) pair yields a syntax error and every table lookup is in range, '
         'so no sequence of line kinds of ANY length is rejected or truncated by the block parser; (2) z3 finds a ranking function over the '
         'push edges of the same tables that stays below the parser stack depth, so the stack-overflow escape that drops the document is '
         'unreachable for every input; (3) CBMC on mmd_assign_line_type with arbitrary scanner answers: every line receives a kind from the emitted set; '
         '(4) bounded: line stripping and writer dispatch never reach the unknown-token escape for block/line structure within the stated bound.',
    note='trusted: CBMC, z3, lemon semantics of the tables (error only via YY_ERROR_ACTION lookup); emitted line kinds extracted syntactically from mmd.c assignments; items 3-4 bounded as stated in evidence',
    technique='CBMC over the real LALR tables (all states x terminals) + z3 ranking function for stack depth + CBMC on classifier/strip/writer dispatch with stubbed callees',
    engine='cbmc-units',
)
