import os, re, sys, time, subprocess
HERE = os.path.dirname(os.path.dirname(os.path.abspath(__file__)))
sys.path.insert(0, os.path.join(HERE, 'lib')); sys.path.insert(0, HERE)
import vrun

META = dict(
    functions=['parser.c: yy_find_shift_action, yy_find_reduce_action tables (yy_action, yy_lookahead, yy_shift_ofst, yy_reduce_ofst, yy_default, yyFallback)',
               'mmd.c: mmd_assign_line_type (line kind totality), strip_line_tokens_from_block', 'html.c/latex.c/opendocument-content.c: mmd_export_token_* dispatch'],
    stubs=[], assumptions=[], outside=[],
)

def emitted_line_kinds():
    """line kinds the classifier can put on a line: every LINE_* on the right-hand side of a `type = ...;` statement in mmd.c"""
    txt = open(os.path.join(vrun.SRC, 'mmd.c')).read()
    kinds = set()
    for m in re.finditer(r'->type\s*=\s*([^;]+);', txt):
        for k in re.findall(r'\bLINE_[A-Z0-9_]+\b', m.group(1)):
            kinds.add(k)
    if 'LINE_ATX_1' in kinds:
        kinds.update('LINE_ATX_%d' % i for i in range(1, 7))
    kinds.add('LINE_PLAIN')
    return sorted(kinds)

def gen_terminals(spec, work, work_root):
    kinds = emitted_line_kinds()
    pdefs = re.findall(r'^#define\s+(\w+)\s+(\d+)', open(os.path.join(vrun.SRC, 'parser.h')).read(), re.M)
    names = {n for n, _ in pdefs}
    kinds = [k for k in kinds if k in names]
    if len(kinds) < 25:
        raise vrun.Fail('terminal extraction found only %d kinds' % len(kinds))
    with open(os.path.join(work, 'terminals.h'), 'w') as f:
        f.write('static const int TERMS[] = {%s};\n#define N_TERMS %d\n#define YYNTOKEN_V %d\n' % (', '.join(kinds), len(kinds), max(int(v) for _, v in pdefs) + 1))
    spec['bounds'] = 'all %d parser states x %d emitted line kinds (+ end of input): exhaustive over the compiled tables; never-emitted kinds: %s' % (
        47, len(kinds), sorted(names - set(kinds)))

# token kinds that can never be handed to a writer, with the reason (checked by other obligations where noted)
NEVER_EXPORTED = {
    'BLOCK_DEF_ABBREVIATION': 'process_definition_block retypes every definition block to BLOCK_EMPTY before export',
    'BLOCK_DEF_CITATION': 'process_definition_block retypes every definition block to BLOCK_EMPTY before export',
    'BLOCK_DEF_GLOSSARY': 'process_definition_block retypes every definition block to BLOCK_EMPTY before export',
    'BLOCK_DEF_FOOTNOTE': 'process_definition_block retypes every definition block to BLOCK_EMPTY before export',
    'BLOCK_DEF_LINK': 'process_definition_block retypes every definition block to BLOCK_EMPTY before export',
    'CODE_FENCE_LINE': 'only ever a child of BLOCK_CODE_FENCED, whose children are rendered by the raw exporter (the html writer also lists it; latex/odf do not)',
    'TEXT_NL_SP': 'split into TEXT_NL + whitespace by mmd.c while the block is tokenised (never survives into the tree)',
    'TEXT_LINEBREAK_SP': 'split into TEXT_LINEBREAK + whitespace by mmd.c while the block is tokenised',
}
WRITER_FILES = {'html.c', 'latex.c', 'beamer.c', 'memoir.c', 'opendocument-content.c', 'opendocument.c', 'opml.c', 'itmz.c', 'epub.c', 'textbundle.c'}

def never_created():
    """token kinds that no non-writer source file ever mentions (so no token of that kind can exist), and pair kinds whose pairing rule
    does not prune (a non-pruning pairing only mates the delimiters, it never creates a container token): derived from the current sources"""
    hdr = open(os.path.join(vrun.SRC, 'libMultiMarkdown.h')).read()
    m = re.search(r'enum token_types \{(.*?)\};', hdr, re.S)
    body = re.sub(r'//[^\n]*', '', m.group(1)); body = re.sub(r'/\*.*?\*/', '', body, flags=re.S)
    names = [x.split('=')[0].strip() for x in body.split(',') if x.strip()]
    text = ''
    for f in sorted(os.listdir(vrun.SRC)):
        if (f.endswith('.c') or f.endswith('.y') or f.endswith('.re')) and f not in WRITER_FILES:
            text += open(os.path.join(vrun.SRC, f), errors='replace').read()
    words = set(re.findall(r'\b[A-Z][A-Z0-9_]+\b', text))
    never = {n for n in names if n not in words}
    mmd = open(os.path.join(vrun.SRC, 'mmd.c')).read()
    pruned, unpruned = set(), set()
    for mm in re.finditer(r'token_pair_engine_add_pairing\(([^;]*)\);', mmd):
        a = [x.strip() for x in mm.group(1).split(',')]
        (pruned if 'PAIRING_PRUNE_MATCH' in a[4] else unpruned).add(a[3])
    never |= (unpruned - pruned)
    return never

WRITERS = [
    ('html', 'repo:html.c', 'mmd_export_token_html', ['mmd_export_token_tree_html', 'mmd_export_token_tree_html_raw', 'mmd_export_token_tree_html_math']),
    ('latex', 'repo:latex.c', 'mmd_export_token_latex', ['mmd_export_token_tree_latex', 'mmd_export_token_tree_latex_raw', 'mmd_export_token_tree_latex_tt']),
    ('opendocument', 'repo:opendocument-content.c', 'mmd_export_token_opendocument', ['mmd_export_token_tree_opendocument', 'mmd_export_token_tree_opendocument_raw', 'mmd_export_token_tree_opendocument_math']),
]

def gen_dispatch(spec, work, work_root):
    from checks import C15
    C15.gen_enum_list(spec, work, work_root)
    never = sorted(set(NEVER_EXPORTED) | never_created())
    with open(os.path.join(work, 'never_exported.h'), 'w') as f:
        f.write('static const int NEVER[] = {%s};\n#define N_NEVER %d\n' % (', '.join(never + ['-1']), len(never) + 1))
    spec['unwind'] = 12
    spec['unwindset'] = ['main.0:%d' % (len(never) + 4)]
    spec['bounds'] = 'every published token kind except %s; children fixed (text, newline, text); all extension sets' % never

def harnesses(tier):
    hs = [dict(name='c02_automaton_total', src='c02/automaton.c', prepare=gen_terminals, unwind=12, timeout=300, mem_gb=4,
               desc='yy_find_shift_action never returns YY_ERROR_ACTION for any state x emitted line kind; goto lookups in range')]
    LN = 4      # (6 bytes in the thorough tier was never brought to a verdict inside the time budget: both tiers use 4)
    # the first-token kind is enumerated by the driver (symbolic, it has no verdict: 11 GB); everything else stays symbolic
    hdr = open(os.path.join(vrun.SRC, 'libMultiMarkdown.h')).read()
    m = re.search(r'enum token_types \{(.*?)\};', hdr, re.S)
    body = re.sub(r'//[^\n]*', '', m.group(1)); body = re.sub(r'/\*.*?\*/', '', body, flags=re.S)
    kinds = [x.split('=')[0].strip() for x in body.split(',') if x.strip()]
    kinds = [k for k in kinds if k != 'DOC_START_TOKEN']
    HEAVY = {'STAR', 'DASH_M', 'DASH_N', 'PLUS', 'TEXT_NUMBER_POSS_LIST', 'UL'}
    for k in kinds:
        d = dict(N=LN, T1=k)
        if k in HEAVY and tier == 'quick':
            d['ONE_TOKEN'] = 1
        hs.append(dict(name='c02_linetype_' + k.lower(), src='c02/linetype.c', defs=d, prepare=gen_terminals, pool_off=True,
                       units=['repo:mmd.c', 'repo:token.c', 'repo:object_pool.c', 'repo:stack.c', 'repo:char.c'],
                       unwind=LN + 6, unwindset=['main.0:45', 'main.1:45', 'main.2:45'], timeout=600 if tier == 'quick' else 3000, mem_gb=4 if tier == 'quick' else 14, functional=True,
                       desc='mmd_assign_line_type, first token %s: the line gets a kind from the emitted set for any second token, source bytes, scanner answers, extensions' % k))
    for k in ('NON_INDENT_SPACE', 'TEXT_PLAIN'):
        # a line that holds nothing but its leading blank (the unterminated last line "  "): no second token to look at.  Run with all
        # pointer checks (the functional instances above run without them)
        hs.append(dict(name='c02_linetype_only_' + k.lower(), src='c02/linetype.c', defs=dict(N=LN, T1=k, ONE_TOKEN=1, ONLY_BLANK=1), prepare=gen_terminals, pool_off=True,
                       units=['repo:mmd.c', 'repo:token.c', 'repo:object_pool.c', 'repo:stack.c', 'repo:char.c'],
                       unwind=LN + 6, unwindset=['main.0:45', 'main.1:45', 'main.2:45'], timeout=600, mem_gb=6, nobody_ok='*', hunt=60,
                       desc='mmd_assign_line_type on a line consisting of one %s token only: no missing second token is dereferenced (all pointer checks on)' % k))
    hs.append(dict(name='c02_defblock_retyped', src='c02/defblock.c', defs=dict(DS_CAP=12), pool_off=True,
                   units=[dict(src='repo:writer.c', remove=['footnote_new', 'definition_extract', 'strip_leading_whitespace', 'clean_string_from_range'], cflags=['-include', 'vh_libc.h']), 'repo:token.c', 'repo:stack.c', 'repo:object_pool.c', 'repo:char.c', 'common/ds_model.c'],
                   unwind=12, timeout=600, mem_gb=6, functional=True, replay=False,
                   bounds='all 5 definition block kinds, label directly or inside a paragraph, note constructor returning a note / NULL / a note without clean text',
                   desc='process_definition_block always leaves block->type == BLOCK_EMPTY (justifies excluding BLOCK_DEF_* from the writer dispatch check)'))
    hs.append(dict(name='c02_table_separator_retyped', src='c02/tablesep.c', pool_off=True,
                   units=[dict(src='repo:mmd.c', remove=['deindent_block', 'mmd_parse_token_chain']), dict(src='repo:writer.c', cflags=['-include', 'vh_libc.h']), 'repo:token.c', 'repo:stack.c', 'repo:object_pool.c', 'repo:char.c'],
                   nobody_ok='*', unwind=8, timeout=600, mem_gb=6, functional=True,
                   bounds='header of 0..2 rows + separator, optional body section, 1..3 cells per row; table at block level or first block of a list item (real recursive_parse_list_item)',
                   desc='read_table_column_alignments retypes the separator row of every table the parser can build, also behind a re-inserted list marker (justifies that no LINE_TABLE_SEPARATOR reaches a writer)'))
    for nm, unit, fn, trees in WRITERS:
        d = dict(EXPORT=fn, TREE1=trees[0], TREE2=trees[1], TREE3=trees[2], DS_CAP=8)
        hs.append(dict(name='c02_dispatch_' + nm, src='c02/dispatch.c', defs=d, prepare=gen_dispatch, pool_off=True,
                       units=[dict(src=unit, cflags=['-Dexit=verif_exit', '-Dfprintf=verif_fprintf'], remove=trees), 'repo:token.c', 'repo:stack.c', 'repo:object_pool.c', 'repo:char.c', 'common/ds_null.c'],
                       nobody_ok='*', ignore_failed=['precondition_instance', 'no-body'], unwinding_assertions=False, object_bits=12, timeout=1500, mem_gb=8, functional=True, replay=False,
                       desc='%s: no published token kind reaches the unknown-token escape or exit()' % fn))
    # beamer / memoir handle a few kinds themselves and hand everything else to the LaTeX writer: both units are linked, all four tree walkers are stubs
    lt = ['mmd_export_token_tree_latex', 'mmd_export_token_tree_latex_raw', 'mmd_export_token_tree_latex_tt']
    for nm, unit, fn, own in (('beamer', 'repo:beamer.c', 'mmd_export_token_beamer', 'mmd_export_token_tree_beamer'), ('memoir', 'repo:memoir.c', 'mmd_export_token_memoir', 'mmd_export_token_tree_memoir')):
        d = dict(EXPORT=fn, TREE1=own, TREE2=lt[0], TREE3=lt[1], TREE4=lt[2], DS_CAP=8)
        hs.append(dict(name='c02_dispatch_' + nm, src='c02/dispatch.c', defs=d, prepare=gen_dispatch, pool_off=True,
                       units=[dict(src=unit, cflags=['-Dexit=verif_exit', '-Dfprintf=verif_fprintf'], remove=[own]), dict(src='repo:latex.c', cflags=['-Dexit=verif_exit', '-Dfprintf=verif_fprintf'], remove=lt),
                              'repo:token.c', 'repo:stack.c', 'repo:object_pool.c', 'repo:char.c', 'common/ds_null.c'],
                       nobody_ok='*', ignore_failed=['precondition_instance', 'no-body'], unwinding_assertions=False, object_bits=12, timeout=1500, mem_gb=8, functional=True, replay=False,
                       desc='%s (+ the LaTeX writer it delegates to): no published token kind reaches the unknown-token escape or exit()' % fn))
    hs.append(dict(name='c02_tokenize_lines', src='c15/toklines.c', defs=dict(SPAN=2), pool_off=True,
                   units=[dict(src='repo:mmd.c', remove=['mmd_assign_line_type']), 'repo:token.c', 'repo:object_pool.c', 'repo:stack.c', 'repo:char.c'],
                   unwind=6, timeout=900, mem_gb=8, functional=True,
                   bounds='range of 0..2 bytes at offset 0..2, any lexer behaviour inside the contract of c15_lexer_spans, any line kinds, all extension words (c15_tokenize_lines: 3..4 bytes)',
                   desc='mmd_tokenize_string: every source byte of the range lands in exactly one token of exactly one classified line under the root (nothing dropped before parsing)'))
    return hs

def stack_ranking(tier):
    """Engine C: ranking function over the shift/goto graph of the compiled tables, decided by z3"""
    t0 = time.time()
    res = dict(name='c02_stack_ranking', verdict='error', wall=0, rss_kb=0, n_props=0, failed=[], cover_total=0, cover_sat=0, detail='',
               bounds='unbounded in input length; stack budget YYSTACKDEPTH', desc='z3: a ranking strictly increasing along every push edge exists and stays below the parser stack depth')
    work = os.path.join(os.environ.get('VERIF_WORK_DIR', os.path.join(HERE, '.work')), 'C02_%s' % tier, 'ranking')
    os.makedirs(work, exist_ok=True)
    inc = vrun.prepare_inc(work)
    pdefs = re.findall(r'^#define\s+(\w+)\s+(\d+)', open(os.path.join(vrun.SRC, 'parser.h')).read(), re.M)
    nterm = max(int(v) for _, v in pdefs) + 1
    exe = os.path.join(work, 'edges')
    r = vrun.run(['gcc', '-w', '-O0', '-DNDEBUG', '-DNTERM=%d' % nterm, '-I', vrun.SRC, '-I', inc, os.path.join(HERE, 'harness', 'c02', 'edges.c'), os.path.join(HERE, 'harness', 'c02', 'edges_stubs.c'), os.path.join(vrun.SRC, 'token.c'), os.path.join(vrun.SRC, 'object_pool.c'), os.path.join(vrun.SRC, 'stack.c'), os.path.join(vrun.SRC, 'char.c'), '-o', exe], timeout=120)
    if r['rc'] != 0:
        res['detail'] = 'edge extractor build failed: ' + r['err'][-500:]; return res
    r = vrun.run([exe], timeout=60)
    edges = []; nstate = depth = None
    for ln in r['out'].splitlines():
        p = ln.split()
        if p[0] == 'N': nstate, depth = int(p[1]), int(p[2])
        elif p[0] == 'E': edges.append((int(p[1]), int(p[3])))
    edges = sorted(set(edges))
    if not nstate or len(edges) < 20:
        res['detail'] = 'edge extraction implausible'; return res
    # SMT: r_s in [0, depth-2]; r_to > r_from on every push edge.  (shift-reduce pushes one transient entry: +1 head-room)
    smt = ['(set-logic QF_LIA)'] + ['(declare-const r%d Int)' % s for s in range(nstate)]
    smt += ['(assert (and (>= r%d 0) (<= r%d %d)))' % (s, s, depth - 3) for s in range(nstate)]
    smt += ['(assert (> r%d r%d))' % (b, a) for a, b in edges]
    smt += ['(check-sat)', '(get-model)']
    f = os.path.join(work, 'rank.smt2'); open(f, 'w').write('\n'.join(smt) + '\n')
    z = vrun.run(['z3', f], timeout=120)
    res['queries'] = 1; res['n_props'] = len(edges)
    out = z['out']
    if '(error' in out:
        res['detail'] = 'z3 error: ' + out[:300]; return res
    if out.startswith('sat'):
        ranks = [int(x) for x in re.findall(r'\(define-fun r\d+ \(\) Int\s+(\d+)\)', out)]
        res['verdict'] = 'pass'; res['cover_total'] = res['cover_sat'] = 2
        res['detail'] = '%d states, %d push edges, ranking found, max rank %d < stack depth %d' % (nstate, len(edges), max(ranks or [0]), depth)
    elif out.startswith('unsat'):
        res['verdict'] = 'fail'
        res['failed'] = [dict(property='stack_ranking', description='the shift/goto graph has a cycle or a path longer than the parser stack: nested input can overflow the stack and drop the document', loc='parser.c tables')]
        res['detail'] = 'no ranking below the stack depth exists'
    else:
        res['detail'] = 'z3 inconclusive: ' + out[:200]
    res['wall'] = time.time() - t0
    return res

def extra(tier):
    return [stack_ranking(tier)]

CLAIM = dict(
    text='(1) CBMC on the compiled parser tables: no (state, emitted line kind) pair yields a syntax error and every table lookup is in range, '
         'so no sequence of line kinds of ANY length is rejected or truncated by the block parser; (2) z3 finds a ranking function over the '
         'push edges of the same tables that stays below the parser stack depth, so the stack-overflow escape that drops the document is '
         'unreachable for every input; (3) CBMC on mmd_assign_line_type with arbitrary scanner answers: every line receives a kind from the emitted set; '
         '(4) bounded: line stripping and writer dispatch never reach the unknown-token escape for block/line structure within the stated bound.',
    note='trusted: CBMC, z3, lemon semantics of the tables (error only via YY_ERROR_ACTION lookup); emitted line kinds extracted syntactically from mmd.c assignments; items 3-4 bounded as stated in evidence',
    technique='CBMC over the real LALR tables (all states x terminals) + z3 ranking function for stack depth + CBMC on classifier/strip/writer dispatch with stubbed callees',
    engine='cbmc-units',
)
